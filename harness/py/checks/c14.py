"""C14 — put/filter programs mean what the language reference says (DESIGN 3/C14).

Pipeline of run(ctx):
  1. regenerate coq/gen/Gen_Precedence.v from /repo/pkg/parsing/mlr.bnf (operator chain -> levels) and
     coq/gen/Gen_C14Gate.v (type-gate table observed through mlr)
  2. forbidden-construct gate, build C14 proofs, compile Props.v, audit assumptions
  3. probes that select the model variant (and report the pending findings)
  4. correspondence: seeded generator of mostly-well-typed programs, rendered to Miller syntax (run through mlr put)
     and to a Coq term (run through the Gallina interpreter under vm_compute); emitted records, printed lines and
     the error status are compared.  Operator cells (kind x kind x operator) exhaustively, same mechanism.
  5. oracles evaluated on the implementation's own outputs (metamorphic laws of the property statement)
  6. precedence tie: minimally parenthesised expressions must parse (mlr -n put -v) to the generating tree
"""
import json, os, re, shutil, subprocess, tempfile
from concurrent.futures import ThreadPoolExecutor
from vlib import *
from checks import c14gen as G
from checks import c14prec as P

NAME = "C14"


# ------------------------------------------------------------------ running programs
def conv_val(v):
    if "i" in v:
        return ("int", v["i"])
    if "s" in v:
        return ("str", v["s"])
    if "b" in v:
        return ("bool", v["b"])
    if "m" in v:
        return ("map", [(k, conv_val(x)) for k, x in v["m"]])
    if "l" in v:
        return ("arr", [conv_val(x) for x in v["l"]])
    if "e" in v:
        return ("error",)
    if "a" in v:
        return ("absent",)
    return ("other", json.dumps(v))


def has_other(v):
    if v[0] == "other":
        return True
    if v[0] == "map":
        return any(has_other(x) for _, x in v[1])
    if v[0] == "arr":
        return any(has_other(x) for x in v[1])
    return False


NULLCLS = "auto-extend-deepen-converts-null-constant"


def conv_obs(res):
    """driver answer -> {"class": ok|mlr_error|unparseable, "out": [("r", rec) | ("s", line)]}"""
    o = conv_obs1(res)
    if res.get("null_corrupted"):
        o["null_corrupted"] = True
    return o


def conv_obs1(res):
    if res["status"] != "ok":
        return {"class": "mlr_error", "stderr": res.get("err", "")[-400:]}
    out = []
    for it in res["out"]:
        if "r" in it:
            rec = [(k, conv_val(v)) for k, v in it["r"]]
            if any(has_other(v) for _, v in rec):
                return {"class": "unparseable", "detail": "value kind outside the model (float/array/...)"}
            out.append(("r", rec))
        else:
            line = it["s"]
            # text ending in a newline is a printed line; anything else (printn, an empty dump) is raw text
            out.append(("s", line[:-1]) if line.endswith("\n") else ("t", line))
    return {"class": "ok", "out": out}


def run_batch(ctx, cases, per_case_timeout=15):
    """cases: list of dict(text, inputs, quiet).  Runs them through `implrun c14-put` (real parser + CST + TransformerPut in
    process).  A case in which Miller calls os.Exit / panics / hangs takes the driver down: it is classified from the exit
    status and the driver is restarted on the remaining cases."""
    results = [None] * len(cases)
    i = 0
    while i < len(cases):
        chunk = cases[i:]
        inp = "".join(json.dumps({"prog": c.get("text", ""), "inputs": [[list(kv) for kv in r] for r in c["inputs"]], "quiet": c.get("quiet", False),
                                  "chain": [{"prog": v["text"], "quiet": v["quiet"]} for v in c.get("chain", [])]}) + "\n" for c in chunk)
        rc, out, err = sh([ctx.implrun(), "c14-put"], inp=inp, timeout=60 + per_case_timeout + len(chunk) // 4)
        lines = out.split("\n")
        k = 0          # cases answered
        begun = 0
        for ln in lines:
            if not ln.strip():
                continue
            try:
                obj = json.loads(ln)
            except Exception:
                break
            if "begin" in obj:
                begun += 1
                continue
            results[i + k] = conv_obs(obj)
            k += 1
        if k >= len(chunk):
            break
        # the driver died (or timed out) inside case i+k
        if rc == 124:
            results[i + k] = {"class": "hang", "stderr": err[-300:]}
        elif "panic:" in err or "goroutine " in err or "fatal error:" in err:
            results[i + k] = {"class": "panic", "stderr": err[-1500:]}
        elif rc == 1:
            results[i + k] = {"class": "mlr_error", "stderr": err[-400:], "exit": True}
        else:
            results[i + k] = {"class": "driver-error", "stderr": "rc=%s %s" % (rc, err[-400:])}
        i = i + k + 1
    return results


def run_all(ctx, cases, workers=2):
    if not cases:
        return []
    n = max(1, min(2, workers, len(cases) // 8 or 1))
    chunks = [cases[j::n] for j in range(n)]
    with ThreadPoolExecutor(max_workers=n) as ex:
        parts = list(ex.map(lambda ch: run_batch(ctx, ch), chunks))
    out = [None] * len(cases)
    for j, part in enumerate(parts):
        out[j::n] = part
    return out


def observe(ctx, text, inputs, quiet):
    return run_batch(ctx, [{"text": text, "inputs": inputs, "quiet": quiet}])[0]


def observe_cli(ctx, text, inputs, quiet=False):
    """the same program through the command line (`mlr put`), records as JSON lines; used by a few end-to-end probes"""
    d = tempfile.mkdtemp(prefix="c14_")
    try:
        pf = os.path.join(d, "p.mlr")
        with open(pf, "w") as f:
            f.write(text)
        args = (["-n"] if not inputs else []) + ["--idkvp", "--ojsonl", "put"] + (["-q"] if quiet else []) + ["-f", pf]
        st, out, err = mlr_run(ctx, args, dkvp(inputs) if inputs else b"", timeout=60, max_out=5_000_000)
        return classify_run(st, err), out.decode("utf-8", "replace").splitlines(), err.decode("utf-8", "replace")[-400:]
    finally:
        shutil.rmtree(d, ignore_errors=True)


# ------------------------------------------------------------------ Coq rendering of observations
def cq_val(v):
    k = v[0]
    if k == "int":
        return f"(VInt {coq_z(v[1])})"
    if k == "str":
        return f"(VStr {coq_bytes(v[1].encode('utf-8'))})"
    if k == "bool":
        return f"(VBool {coq_bool(v[1])})"
    if k == "map":
        return "(VMap " + cq_amap(v[1]) + ")"
    if k == "arr":
        return "(VArr [" + "; ".join(cq_val(x) for x in v[1]) + "])"
    if k == "error":
        return "VError"
    if k == "absent":
        return "VAbsent"
    raise ValueError(k)


def cq_amap(m):
    return "[" + "; ".join(f"({coq_bytes(k.encode('utf-8'))}, {cq_val(v)})" for k, v in m) + "]"


def input_value(s):
    """type inference of the generated input values (canonical decimal ints or plain words): C06 territory, kept trivial"""
    if re.fullmatch(r"-?[1-9][0-9]*|0", s):
        return ("int", int(s))
    return ("str", s)


def cq_outs(out):
    return "[" + ";\n ".join(("(ORec %s)" % cq_amap(x)) if t == "r" else ("(%s %s)" % ("OLine" if t == "s" else "OText", coq_bytes(x.encode("utf-8")))) for t, x in out) + "]"


def case_term(variant_bits, prog, quiet, inputs, obs):
    ins = "[" + "; ".join(cq_amap([(k, input_value(v)) for k, v in r]) for r in inputs) + "]"
    if obs["class"] == "ok":
        outs, status = cq_outs(obs["out"]), 0
    else:
        outs, status = "[]", 1
    return f"({variant_bits}, {G.coq_prog(prog)}, {coq_bool(quiet)}, {ins}, {status}, {outs})"


def coq_eval_codes(ctx, name, case_terms, fn="classify", ty="pcase", timeout=1500, shard=None):
    """like vlib.coq_eval_mismatches but returns the N code computed for every case (0 agree, 1 disagree, 2 fuel, 3 unsupported);
    -1 for cases of a shard whose evaluation failed."""
    GEN.mkdir(exist_ok=True)
    procs = []
    # at most two coqc processes at a time (shared machine): two shards
    shard = max(1, len(case_terms) // 2 + 1)
    for k in range(0, len(case_terms), shard):
        part = case_terms[k:k + shard]
        f = GEN / f"cases_{name}_{k // shard}.v"
        body = ["From Miller Require Import Base.Bytes C14.Value C14.Stack C14.Model C14.Harness.", "Open Scope Z_scope.",
                f"Definition cases : list ({ty}) := [", ";\n".join(part), "].",
                f"Definition M := Eval vm_compute in map {fn} cases.", "Print M."]
        f.write_text("\n".join(body) + "\n")
        procs.append((k, len(part), f))
    codes = [-1] * len(case_terms)
    errs = []

    def one(job):
        k, n, f = job
        rc, out, err = sh(["timeout", str(timeout), "coqc", "-Q", ".", "Miller", str(f)], cwd=COQ, timeout=timeout + 30)
        m = re.search(r"M\s*=\s*\[(.*?)\]\s*:\s*list", out, re.S)
        res = None
        if rc == 0 and m:
            toks = [t.strip().replace("%N", "") for t in m.group(1).split(";") if t.strip()]
            if len(toks) == n:
                res = [int(t) for t in toks]
        for ext in (".vo", ".vok", ".vos", ".glob", ".v"):
            try:
                if res is not None or ext != ".v":
                    f.with_suffix(ext).unlink()
            except FileNotFoundError:
                pass
        try:
            (f.parent / ("." + f.stem + ".aux")).unlink()
        except FileNotFoundError:
            pass
        return k, n, res, (err or out)[-1500:]
    with ThreadPoolExecutor(max_workers=2) as ex:
        for k, n, res, err in ex.map(one, procs):
            if res is None:
                errs.append(f"shard@{k}: {err}")
            else:
                codes[k:k + n] = res
    return codes, "\n".join(errs)


# ------------------------------------------------------------------ fixed witnesses of defects repaired in /repo (regression guards) and of pending ones
def probes(ctx):
    """Witness programs of the five defects found by this check and since repaired in /repo (fix: commits 1affc6b06, 721ac553d,
    9346a3a9b): a deviation is a plain violation again.  Plus the witness of the pending one (scalar field/oosvar converted in
    place while a local is bound to it by reference).  Returns the variant bits of the model (1 = the reference = the tree)."""
    three = [[("a", "1")], [("a", "2")], [("a", "3")]]
    R = lambda *kv: ("r", list(kv))
    table = [
        ("filter-statement-sticky-across-records", 'if (NR == 1) {filter false}', three, [R(("a", ("int", 2))), R(("a", ("int", 3)))],
         "reference-dsl-filter-statements.md: put 'filter <cond>' is a per-record decision"),
        ("indexed-assignment-bypasses-type-gate", 'end{int x = 3; x["a"] = 1; print typeof(x)}', [], "error",
         "reference-dsl-variables.md: type declarations are enforced at ... any subsequent assignments to the same variable"),
        ("indexed-assignment-bypasses-type-gate", 'end{str s = "a"; if (true) { s["k"] = 1 } print "no"}', [], "error", "same, from a nested scope"),
        ("unset-local-then-indexed-assign-corrupts-absent", 'end{x = 1; unset x; x["a"] = 1; print is_absent(nosuch); print is_absent(@y); print x["a"]}', [],
         [("s", "true"), ("s", "true"), ("s", "1")], "reference-main-null-data.md: reads of unset variables are absent"),
        ("indexed-assign-on-scalar-local-mutates-shared-value", 'end{x = 5; y = x; y["k"] = 1; print x; b = true; b["k"] = 1; print (1 == 1)}', [],
         [("s", "5"), ("s", "true")], "assignments are by value"),
        ("indexed-assign-on-scalar-local-mutates-shared-value", 'c = $a; c["k"] = 1; $t = c["k"]', [[("a", "5")]], [R(("a", ("int", 5)), ("t", ("int", 1)))],
         "assignments are by value"),
        ("for-loop-over-map-variable-iterates-live-map", 'end{@m = {"a":1,"b":2}; for (k,v in @m) { if (k == "a") {@m["c"] = 3; unset @m["b"]} print k.":".v } }', [],
         [("s", "a:1"), ("s", "b:2")], "reference-dsl-control-structures.md: bound to a copy of the sub-map as it was before the loop started"),
        ("for-loop-over-map-variable-iterates-live-map", 'end{m = {"a":1,"b":2}; for (k in m) { m["c"] = 3; unset m["b"]; print k } for (k, v in m) { m[k] = v + 10; print v }}', [],
         [("s", "a"), ("s", "b"), ("s", "1"), ("s", "3")], "same, local map, single-variable loop"),
        # repaired (382305ab0): in-place conversion of a scalar FIELD / OOSVAR was seen through a local bound to it by reference
        ("indexed-assign-on-scalar-field-or-oosvar-changes-aliased-local", 'c = $a; $a["k"] = 1; $t = c', [[("a", "5")]],
         [R(("a", ("map", [("k", ("int", 1))])), ("t", ("int", 5)))], "assignments are by value: c keeps the value it was assigned"),
        ("indexed-assign-on-scalar-field-or-oosvar-changes-aliased-local", 'end{@s = 1; c = @s; @s["k"] = 2; print c}', [], [("s", "1")],
         "assignments are by value: c keeps the value it was assigned"),
        # repaired (0661a6ca3): return inside a subroutine ended the caller's block too
        ("subroutine-return-exits-caller-block",
         'subr p(str s) { print "in:".s; if (s == "a") { return } print "tail" } call p("a"); print "after1"; call p("b"); print "after2"', [[("a", "5")]],
         [("s", "in:a"), ("s", "after1"), ("s", "in:b"), ("s", "tail"), ("s", "after2"), R(("a", ("int", 5)))],
         "reference-dsl-user-defined-functions.md: subroutines are invoked by call and cannot return values; return ends the subroutine"),
        # repaired (8bf96899b): emit1 put the stored map itself into the output stream
        ("emit1-emits-map-by-reference", '@c["n"] = NR; emit1 @c; filter false', three,
         [R(("n", ("int", 1))), R(("n", ("int", 2))), R(("n", ("int", 3)))],
         "reference-dsl-output-statements.md: emit1/emit send the variables' CURRENT values to the output record stream"),
        ("emit1-emits-map-by-reference", 'end{m = {"x": 1}; emit1 m; m["x"] = 2; emit1 m}', [], [R(("x", ("int", 1))), R(("x", ("int", 2)))],
         "same, local map"),
        # fix ce148e68e (clone c14-repo): xs[n+1][k] = v converted the package-level NULL constant in place
        (NULLCLS, 'end{xs = []; xs[1]["k"] = 5; ys = [7]; ys[2]["j"] = 6; emit1 {"r": ys}}', [],
         [R(("r", ("arr", [("int", 7), ("map", [("j", ("int", 6))])])))],
         "reference-main-arrays.md auto-extend: a write one past the end grows THAT array by one; other arrays' new elements are unaffected"),
        # fix 206974ae4 (clone c14-repo): $[[n]] / $[[[n]]] read in a function called from an end block dereferenced the nil record
        ("positional-read-without-record-panics", 'func f() { return typeof($[[1]]) . typeof($[[[1]]]) } end { print f() }', [], [("s", "absentabsent")],
         "reference-dsl-variables.md: field references outside the record context are absent"),
        # fix 909b9b1a2: NF in an end block (or in a function called from one) dereferenced the nil record
        ("nf-read-without-record-panics", 'func f() { return typeof(NF) } end { print typeof(NF) . f() }', [], [("s", "absentabsent")],
         "reference-dsl-variables.md: built-in variables; there is no current record in begin/end blocks"),
        # fix 5117208f0: a function literal inside a subr may return a value
        ("function-literal-in-subr-cannot-return-value", 'subr s(arr a) { print apply(a, func(e) { return e * 2 }) } end { call s([1, 2, 3]) }', [], [("s", "[2, 4, 6]")],
         "reference-dsl-user-defined-functions.md: function literals return values wherever they are written"),
        ("function-literal-in-subr-cannot-return-value", 'subr s(arr a) { print fold(a, func(acc, e) { return acc + e }, 0); return } end { call s([1, 2, 3]); print "after" }', [],
         [("s", "6"), ("s", "after")], "same, with a bare return of the subroutine itself after the literal"),
    ]
    cases = [{"text": prog + "\n", "inputs": ins, "quiet": False} for _, prog, ins, _, _ in table]
    obs = [run_batch(ctx, [c])[0] for c in cases]     # one process each: a corrupted singleton must not leak into the next witness
    res = {}
    for (cls, prog, ins, exp, doc), o in zip(table, obs):
        ctx.count(("probe", prog))
        good = (o["class"] == "mlr_error") if exp == "error" else (o["class"] == "ok" and o.get("out") == exp)
        res[cls] = res.get(cls, True) and bool(good)
        if not good:
            ctx.violation({"class": cls, "program": "mlr put '%s'" % prog, "input": ins, "observed": {k: o.get(k) for k in ("class", "out", "stderr")},
                           "expected": exp, "doc": doc})
    # fix 41089c1d4: the process-wide callsite cache of the higher-order functions was keyed by the function NAME: in a
    # then-chain the second put called the first put's function of the same name.  One process, several verbs.
    CH = "hof-calls-same-named-function-of-earlier-verb"
    mk = lambda body: 'func f(e) { return %s } func g(acc, e) { return %s } func p(e) { return %s } func c(a1, b1) { return %s } ' % body
    v1 = mk(("e + 1", "acc + e", "e > 1", "a1 - b1")) + '$x = apply([1, 2, 3], f); $y = fold([1, 2, 3], g, 0); $z = select([1, 2, 3], p); $w = sort([1, 3, 2], c); $u = any([1, 2, 3], p); $v = every([1, 2, 3], p); $r = reduce([1, 2, 3], g)'
    v2 = mk(("e * 10", "acc * e", "e < 2", "b1 - a1")) + '$x2 = apply([1, 2, 3], f); $y2 = fold([1, 2, 3], g, 1); $z2 = select([1, 2, 3], p); $w2 = sort([1, 3, 2], c); $u2 = any([5, 6], p); $v2 = every([0, 1], p); $r2 = reduce([1, 2, 3], g)'
    A = lambda *xs: ("arr", [("int", x) for x in xs])
    expect = [R(("a", ("int", 1)), ("x", A(2, 3, 4)), ("y", ("int", 6)), ("z", A(2, 3)), ("w", A(1, 2, 3)), ("u", ("bool", True)), ("v", ("bool", False)), ("r", ("int", 6)),
                ("x2", A(10, 20, 30)), ("y2", ("int", 6)), ("z2", A(1)), ("w2", A(3, 2, 1)), ("u2", ("bool", False)), ("v2", ("bool", True)), ("r2", ("int", 6)))]
    o = run_batch(ctx, [{"chain": [{"text": v1 + "\n", "quiet": False}, {"text": v2 + "\n", "quiet": False}], "inputs": [[("a", "1")]]}])[0]
    ctx.count(("probe", "chain", v1, v2))
    good = o["class"] == "ok" and o.get("out") == expect
    res[CH] = bool(good)
    if not good:
        ctx.violation({"class": CH, "program": "mlr put '%s' then put '%s'" % (v1, v2), "input": [[("a", "1")]],
                       "observed": {k: o.get(k) for k in ("class", "out", "stderr")}, "expected": expect,
                       "doc": "reference-verbs.md put: each put in a then-chain has its own functions; reference-dsl-higher-order-functions.md"})
    ctx.cov["witness_probes"] = res
    ctx.cov["variant_selected"] = {"filter_per_record": True}
    return 1


# ------------------------------------------------------------------ main
def run(ctx):
    ctx.cov["rule"] = ("seeded generator of mostly-well-typed put programs over the covered grammar (expressions with + - * . comparisons && || ! ?: ??, "
                       "map literals and indexing, field/oosvar/local assignments typed and untyped, indexed assignment with auto-create, unset, if/elif/else, "
                       "while, do-while, single and key-value for, C-style for, break/continue, pattern-action, begin/end, typed recursive functions, print, "
                       "emit1, emit (map, named, by names), filter) x small DKVP record streams; compared: exit status class, emitted records (JSON lines, "
                       "typed values, field order) and printed lines between mlr put and the Gallina interpreter under vm_compute; a case is non-trivial "
                       "when the model neither runs out of fuel nor leaves the modelled fragment")
    ctx.cov["trusted_base"] = ["Coq 8.16.1 kernel + vm_compute", "no axioms (Print Assumptions: closed under the global context)",
                               "python generator / renderers (program -> Miller text, program -> Coq term)", "mlr.bnf -> Gen_Precedence.v translator",
                               "type inference of the generated input values (canonical decimal ints, plain words) is done by the harness"]
    ctx.assumptions = ["the generated LR parser is not modelled: only its observable AST/behaviour on generated programs",
                       "floats, arrays, function literals, higher-order functions, positional names, emitp/emitf/tee/dump, subroutines, redirects are outside the modelled fragment"]
    with ctx.timed("gen_tables"):
        levels = P.gen_precedence(REPO)
    ctx.cov["precedence_levels_from_bnf"] = [[ops, a, k] for ops, a, k in levels]
    forbidden_gate(ctx, ["Base", "C14"])
    ok, why = check_props(ctx, "C14/Props.v", ["C14/Harness.vo", "C14/Proofs.vo", "C14/StackProofs.vo", "C14/PrecProofs.vo", "C14/InterpProofs.vo", "C14/ScopeProofs.vo", "C14/DepthProofs.vo", "C14/ArrayProofs.vo", "C14/HofProofs.vo"])
    bad, trees, block = P.behavioural_tie(ctx, 150 if ctx.tier == "quick" else 3000)
    if bad:
        ctx.violation(bad, found_input="expression" in bad)
    if not ok:
        # a proof obligation broke (e.g. the regenerated precedence table no longer equals the documented one): the
        # behavioural tie above and the oracles below are the failing-input search
        if not (bad and "expression" in bad):
            w = precedence_witness(ctx, levels) if "Prec" in json.dumps(why) or "prec" in json.dumps(why) else None
            if w:
                ctx.violation(dict(w, broken=why))
            else:
                ctx.violation({"broken": why}, found_input=False)
    bits = probes(ctx)
    stack_tie(ctx)
    cells(ctx, bits)
    correspondence(ctx, bits)
    chain_correspondence(ctx)
    positional_rename_block(ctx, bits)
    oracles(ctx)


def precedence_witness(ctx, levels):
    """the regenerated chain differs from the documented table: look for an expression whose parse differs from the documented reading"""
    for seed in range(5):
        bad, trees, block = P.behavioural_tie(ctx, 600)
        if bad and "expression" in bad:
            return bad
    return None


# ------------------------------------------------------------------ stack operations: real runtime.Stack vs both Coq stack models
TYPES = ["int", "num", "str", "bool", "map", "var", "any", "float", "arr", "funct"]


def gen_stack_ops(rng, n):
    ops, depth, sets = [], [1], 1
    names = ["x", "y", "z"]

    def val():
        c = rng.randrange(6)
        if c == 0:
            return {"i": rng.randint(-3, 9)}
        if c == 1:
            return {"s": rng.choice(["", "a", "pan"])}
        if c == 2:
            return {"b": rng.random() < 0.5}
        if c == 3:
            return {"m": [["k", {"i": rng.randint(0, 3)}]]}
        if c == 4:
            return {"e": 1}
        return {"i": 7}
    for _ in range(n):
        c = rng.randrange(14)
        if c == 0:
            ops.append(["pushframe"]); depth[-1] += 1
        elif c == 1 and depth[-1] > 1:
            ops.append(["popframe"]); depth[-1] -= 1
        elif c == 2 and len(depth) < 4:
            ops.append(["pushset"]); depth.append(1)
        elif c == 3 and len(depth) > 1:
            # balanced pops only: the interpreter never pops a frameset with extra frames on it, but the pool reset handles it
            ops.append(["popset"]); depth.pop()
        elif c in (4, 5):
            ops.append(["define", rng.choice(names), rng.choice(TYPES), val()])
        elif c in (6, 7, 8):
            ops.append(["set", rng.choice(names), val()])
        elif c == 9:
            ops.append(["setatscope", rng.choice(names), val()])
        elif c == 10:
            ops.append(["unset", rng.choice(names)])
        else:
            ops.append(["get", rng.choice(names)])
    for nme in names:
        ops.append(["get", nme])
    return ops


def cq_sop(op):
    k = op[0]
    if k == "pushframe":
        return "OpPushFrame"
    if k == "popframe":
        return "OpPopFrame"
    if k == "pushset":
        return "OpPushSet"
    if k == "popset":
        return "OpPopSet"
    if k == "define":
        return "(OpDefine %s %s %s)" % (coq_bytes(op[1].encode()), G.TY[op[2]], cq_val(conv_val(op[3])))
    if k == "set":
        return "(OpSet %s %s)" % (coq_bytes(op[1].encode()), cq_val(conv_val(op[2])))
    if k == "setatscope":
        return "(OpSetAtScope %s %s)" % (coq_bytes(op[1].encode()), cq_val(conv_val(op[2])))
    if k == "unset":
        return "(OpUnset %s)" % coq_bytes(op[1].encode())
    return "(OpGet %s)" % coq_bytes(op[1].encode())


def stack_tie(ctx):
    n = 300 if ctx.tier == "quick" else 5000
    seqs = [gen_stack_ops(ctx.rng, ctx.rng.randint(5, 40)) for _ in range(n)]
    with ctx.timed("impl"):
        rc, out, err = sh([ctx.implrun(), "c14-stack"], inp="".join(json.dumps(s) + "\n" for s in seqs), timeout=300)
    lines = [l for l in out.split("\n") if l.strip()]
    if rc != 0 or len(lines) != len(seqs):
        ctx.violation({"broken": "stack-tie: implrun c14-stack failed", "rc": rc, "stderr": err[-1500:], "class": "panic" if "panic" in err else None},
                      found_input=False)
        return
    terms = []
    for s, l in zip(seqs, lines):
        obs = json.loads(l)
        cobs = []
        for o in obs:
            if o == "u":
                cobs.append("ObsUnit")
            elif o == "err":
                cobs.append("ObsErr")
            elif o is None:
                cobs.append("(ObsVal None)")
            else:
                cobs.append("(ObsVal (Some %s))" % cq_val(conv_val(o)))
        terms.append("(%s, %s)" % (coq_list(cq_sop(op) for op in s), coq_list(cobs)))
        ctx.count(("stack", json.dumps(s)))
    ctx.dist("stack_op_sequences", len(seqs))
    with ctx.timed("coq_cases"):
        bad, err = coq_eval_mismatches(ctx, "C14stack", "C14.Value C14.Stack C14.Model C14.Harness", "list sop * list sobs", "chk_stack", terms, shard=len(terms) // 2 + 1)
    ctx.cov["stack_tie"] = {"sequences": len(seqs), "mismatches": len(bad)}
    if err:
        ctx.violation({"broken": "stack-tie evaluation", "detail": err[-1500:]}, found_input=False)
    for i in bad[:3]:
        if i >= 0:
            ctx.violation({"broken": "stack-tie C14.Harness.chk_stack (runtime.Stack vs concrete and abstract stack models)",
                           "ops": seqs[i], "observed": json.loads(lines[i])})


# ------------------------------------------------------------------ operator cells: every (operator, kind, kind) through the same pipeline
def cell_values():
    err = ("bin", "+", ("int", 1), ("str", "a"))
    return [("int", 3), ("int", -2), ("int", 0), ("bool", True), ("bool", False), ("str", ""), ("str", "abc"), ("str", "3"), ("str", "B"),
            ("maplit", []), ("maplit", [(("str", "a"), ("int", 1))]), err, ("oos", "nosuch"),
            ("arrlit", []), ("arrlit", [("int", 1), ("str", "b")])]


def cells(ctx, bits):
    vals = cell_values()
    cases = []

    def prog_of(exprs):
        body = [("emit1", ("maplit", [(("str", "r"), e)])) for e in exprs]
        p = {"funcs": [], "begin": [], "main": [], "end": [body]}
        return {"prog": p, "text": G.mlr_prog(p), "inputs": [], "quiet": False}
    ismap = lambda v: v[0] == "maplit"
    isarr = lambda v: v[0] == "arrlit"
    for op in ["+", "-", "*", ".", "==", "!=", "<", "<=", ">", ">="]:
        # outside the modelled fragment: map.attribute access (map on the left of the dot), map-to-map comparison, array == array
        cases.append(prog_of([("bin", op, a, b) for a in vals for b in vals
                              if not (op == "." and ismap(a)) and not (op in G.CMP and ismap(a) and ismap(b))
                              and not (op in ("==", "!=") and isarr(a) and isarr(b))]))
    cases.append(prog_of([("and", a, b) for a in vals for b in vals]))
    cases.append(prog_of([("or", a, b) for a in vals for b in vals]))
    cases.append(prog_of([("not", a) for a in vals] + [("neg", a) for a in vals] + [("coal", a, b) for a in vals for b in vals[:4]]
                         + [("fun1", fn, a) for fn in G.FUN1 for a in vals]
                         + [("tern", a, ("int", 1), ("int", 2)) for a in vals] + [("index", a, b) for a in vals for b in vals if not isarr(b) and (a[0] in ("maplit", "oos", "bool", "arrlit") or (a[0] == "int" and a[1] >= 0))]))
    # arrays: reads at every index class, slices of arrays and strings with every bound class
    five = ("arrlit", [("int", 10), ("int", 20), ("str", "c"), ("int", 40), ("int", 50)])
    idxs = [("int", i) for i in (-7, -6, -5, -2, -1, 0, 1, 2, 5, 6, 9)]
    cases.append(prog_of([("index", five, i) for i in idxs] + [("index", ("index", ("arrlit", [("int", 1), ("arrlit", [("int", 2), ("int", 3)])]), ("int", 2)), i) for i in idxs[3:8]]))
    bounds = idxs + [None, ("str", ""), ("str", "x"), ("oos", "nosuch"), ("bool", True)]
    if ctx.tier == "quick":
        bounds = [("int", i) for i in (-6, -5, -2, -1, 0, 1, 2, 5, 6)] + [None, ("str", "x"), ("oos", "nosuch")]
    for base in [five, ("str", "hello"), ("str", "h\u00e9llo"), ("str", ""), ("int", 3), ("maplit", [(("str", "a"), ("int", 1))]), ("oos", "nosuch"), ("arrlit", [])]:
        cases.append(prog_of([("slice", base, lo, hi) for lo in bounds for hi in bounds]))
    # indexed assignment / unset on arrays and auto-create below maps: each cell in its own function (a failing assignment
    # makes the function return an error value instead of ending the program)
    inits = [("arrlit", []), ("arrlit", [("int", 1), ("int", 2), ("int", 3)]), ("arrlit", [("int", 1), ("maplit", [(("str", "a"), ("int", 1))]), ("arrlit", [("int", 7)])]),
             ("maplit", []), ("maplit", [(("str", "a"), ("int", 1)), (("str", "b"), ("arrlit", [("int", 1)]))]), ("int", 5)]
    ks = [("int", i) for i in (-4, -3, -1, 0, 1, 3, 4)] + [("str", "a"), ("str", "b"), ("str", ""), ("bool", True)]
    fns, body, alone = [], [], []
    for init in inits:
        n = len(init[1]) if init[0] == "arrlit" else None
        for kind in ("assign", "unset"):
            for idx in [[k] for k in ks] + [[k, k2] for k in ks for k2 in (("str", "k"), ("int", 1), ("int", 2), ("int", -1))]:
                if kind == "assign" and n is not None and idx[0][0] == "int" and idx[0][1] > n + 1:
                    continue          # null-gap: outside the model
                if kind == "assign" and len(idx) == 2 and idx[1] == ("int", 2) and not (init is inits[2] and idx[0] in (("int", 3), ("int", -1))):
                    continue          # second-level index 2 on a fresh/one-element array: null-gap
                name = "g%d" % (len(fns) + len(alone))
                st = ("assign", ("local", "xs"), idx, ("int", 5), False) if kind == "assign" else ("unset", ("local", "xs"), idx)
                fd = {"name": name, "params": [], "ret": "any", "body": [("assign", ("local", "xs"), [], init, False), st, ("return", ("local", "xs"))]}
                em = ("emit1", ("maplit", [(("str", "r"), ("call", name, []))]))
                if kind == "assign" and len(idx) == 2 and n is not None and idx[0] == ("int", n + 1):
                    # auto-extend with a further index: a program of its own (on a tree without fix ce148e68e the first such
                    # assignment converts the shared NULL constant, and every later one in the same program sees it)
                    alone.append((fd, em))
                    continue
                fns.append(fd)
                body.append(em)
    for j in range(0, len(fns), 150):
        p = {"funcs": fns[j:j + 150], "begin": [], "main": [], "end": [body[j:j + 150]]}
        cases.append({"prog": p, "text": G.mlr_prog(p), "inputs": [], "quiet": False})
    for fd, em in alone:
        p = {"funcs": [fd], "begin": [], "main": [], "end": [[em]]}
        cases.append({"prog": p, "text": G.mlr_prog(p), "inputs": [], "quiet": False})
    # gate table: every declared type x every kind of value, inside a function so that a rejected assignment is an error VALUE
    for ty in ["var", "int", "num", "str", "bool", "map", "float", "arr", "funct"]:
        f = {"name": "fa", "params": [("any", "aa")], "ret": "any", "body": [("define", ty, "t", ("local", "aa")), ("return", ("str", "ok"))]}
        body = [("emit1", ("maplit", [(("str", "r"), ("call", "fa", [v]))])) for v in vals if v != ("oos", "nosuch")]
        p = {"funcs": [f], "begin": [], "main": [], "end": [body]}
        cases.append({"prog": p, "text": G.mlr_prog(p), "inputs": [], "quiet": False})
    with ctx.timed("impl"):
        obs = run_all(ctx, cases, workers=4)
    terms = [case_term(bits, c["prog"], c["quiet"], c["inputs"], o) for c, o in zip(cases, obs) if o["class"] in ("ok", "mlr_error")]
    ncell = sum(len(c["prog"]["end"][0]) for c in cases)
    ctx.dist("operator_and_gate_cells", ncell)
    with ctx.timed("coq_cases"):
        codes, err = coq_eval_codes(ctx, "C14cells", terms, shard=6)
    ctx.cov["cells"] = {"programs": len(cases), "cells": ncell, "codes": {str(k): codes.count(k) for k in set(codes)}}
    for c in cases:
        for st in c["prog"]["end"][0]:
            ctx.count(("cell", G.m_stmt(st, 0)))
    if err:
        ctx.violation({"broken": "cells evaluation", "detail": err[-1500:]}, found_input=False)
    if len(terms) != len(cases):
        ctx.violation({"broken": "cells: implementation did not run a cell program", "classes": [o["class"] for o in obs], "stderr": [o.get("stderr") for o in obs if o["class"] != "ok"][:2]}, found_input=False)
    reported = 0
    for c, code in zip(cases, codes):
        if code != 0 and reported < 3:
            # locate the first disagreeing cell by running the cells one at a time
            single = []
            for st in c["prog"]["end"][0]:
                p = {"funcs": c["prog"]["funcs"], "begin": [], "main": [], "end": [[st]]}
                single.append({"prog": p, "text": G.mlr_prog(p), "inputs": [], "quiet": False})
            sobs = run_all(ctx, single, workers=4)
            scodes, _ = coq_eval_codes(ctx, "C14cell1", [case_term(bits, x["prog"], False, [], o) for x, o in zip(single, sobs)], shard=200)
            for x, o, sc in zip(single, sobs, scodes):
                if sc != 0:
                    reported += 1
                    ctx.violation({"broken": "operator/gate cell: model and implementation differ (code %d)" % sc, "program": x["text"], "inputs": [],
                                   "observed": {k: o.get(k) for k in ("class", "out", "stderr")}, "coq_case": case_term(bits, x["prog"], False, [], o)},
                                  found_input=False)
                    break


NEW_CONSTRUCTS = ("arrlit", "slice", "posname", "posval", "assignposname", "assignposval", "emitf", "hof", "emitp", "emitlashed", "printn", "eprint", "dump", "edump", "nf")


def constructs_of(x, acc):
    """tags of the newer constructs occurring in a generated program (for the input-distribution record)"""
    if isinstance(x, tuple):
        if x and isinstance(x[0], str):
            if x[0] in NEW_CONSTRUCTS:
                acc.add(x[0])
            if x[0] in ("for1", "for2") and isinstance(x[2 if x[0] == "for1" else 3], tuple) and x[2 if x[0] == "for1" else 3][0] in ("arrlit", "slice"):
                acc.add("for_over_array")
            if x[0] == "assign" and x[1][1] in G.ARRL + G.OOSARR and x[2]:
                acc.add("array_indexed_assign")
            if x[0] == "unset" and x[1][1] in G.ARRL + G.OOSARR and x[2]:
                acc.add("array_unset")
            if x[0] == "local" and len(x) == 2 and x[1] in G.ARRL:
                acc.add("array_variable")
        for y in x:
            constructs_of(y, acc)
    elif isinstance(x, list):
        for y in x:
            constructs_of(y, acc)
    elif isinstance(x, dict):
        for y in x.values():
            constructs_of(y, acc)


def correspondence(ctx, bits):
    n = 240 if ctx.tier == "quick" else 4000
    progs = []
    for i in range(n):
        p = G.gen_case(ctx.rng)
        progs.append(p)
        ctx.dist("size_%d" % min(9, G.prog_size(p["prog"]) // 10))
    with ctx.timed("impl"):
        obs = run_all(ctx, progs)
    terms, meta = [], []
    for c, o in zip(progs, obs):
        ctx.dist("impl_" + o["class"])
        if o["class"] in ("hang", "unparseable", "driver-error"):
            ctx.dist("skipped_" + o["class"])
            continue
        if o["class"] == "mlr_error" and "internal coding error" in (o.get("stderr") or ""):
            # the tree stopped on one of its own internal checks (N2 in c14.findings.md: not understood well enough to model): skipped, counted
            ctx.dist("skipped_impl_internal_coding_error")
            continue
        if o["class"] == "panic":
            ctx.violation({"broken": "panic", "program": c["text"], "inputs": c["inputs"], "stderr": o["stderr"], "class": "panic"})
            continue
        terms.append(case_term(bits, c["prog"], c["quiet"], c["inputs"], o))
        meta.append((c, o))
    with ctx.timed("coq_cases"):
        codes, err = coq_eval_codes(ctx, "C14", terms)
    hist = {0: 0, 1: 0, 2: 0, 3: 0, -1: 0}
    for code in codes:
        hist[code] = hist.get(code, 0) + 1
    ctx.cov["correspondence"] = {"programs": len(progs), "evaluated": len(terms), "agree": hist[0], "disagree": hist[1],
                                 "model_out_of_fuel_skipped": hist[2], "outside_fragment_skipped": hist[3], "coq_failed": hist[-1]}
    for (c, o), code in zip(meta, codes):
        acc = set()
        constructs_of(c["prog"], acc)
        for tag in acc:
            ctx.dist("reach_" + tag)
            if code == 0:
                ctx.dist("agree_" + tag)
        if code == 3:
            ctx.dist("skipped_outside_fragment")
        if code == 2:
            ctx.dist("skipped_out_of_fuel")
        ctx.count((c["text"], c["inputs"], c["quiet"]), nontrivial=(code == 0))
        if code == 0 and len(ctx.cov["samples"]) < 4:
            ctx.sample({"program": c["text"], "inputs": c["inputs"], "observed_class": o["class"], "out": str(o.get("out"))[:400]})
    if err:
        ctx.violation({"broken": "correspondence-evaluation", "detail": err[-2000:]}, found_input=False)
    reported = 0
    for (c, o), code in zip(meta, codes):
        if code == 1 and reported < 5:
            reported += 1
            ctx.violation({"broken": "correspondence C14.Harness.classify", "class": NULLCLS if o.get("null_corrupted") else None,
                           "program": c["text"], "inputs": c["inputs"], "quiet": c["quiet"],
                           "observed": {k: o.get(k) for k in ("class", "out", "stderr")}, "variant_bits": bits,
                           "coq_case": case_term(bits, c["prog"], c["quiet"], c["inputs"], o)})


def positional_rename_block(ctx, bits):
    """DETERMINISTIC (every seed): $[[i]] = "<name>" and $[[i]] = $[[j]] over a six-field record for ALL positions i (1..6, the
    aliases -1..-6, out of range 0/7/-7) and all targets (the name of every field j, hence every distance |i-j| incl. >= 2, and
    fresh names), against the Coq model (pos_put_name) AND against the direct statement of reference-dsl-variables.md: the
    field at position i is renamed in place; a previously existing other field of that name disappears; out of range: no-op."""
    names = ["a", "b", "c", "d", "e", "f"]
    rec = [(k, str(10 * (n + 1))) for n, k in enumerate(names)]
    cases = []
    for i in list(range(1, 7)) + list(range(-6, 0)) + [0, 7, -7]:
        for tgt in [("name", x) for x in names] + [("pos", j) for j in range(1, 7)] + [("pos", -2), ("name", "new"), ("name", "zz")]:
            rhs = ("str", tgt[1]) if tgt[0] == "name" else ("posname", ("int", tgt[1]))
            p = {"funcs": [], "begin": [], "main": [("assignposname", ("int", i), rhs)], "end": []}
            n = len(names)
            zi = i - 1 if 1 <= i <= n else (n + i if -n <= i <= -1 else None)
            if tgt[0] == "name":
                newname = tgt[1]
            else:
                j = tgt[1]
                zj = j - 1 if 1 <= j <= n else (n + j if -n <= j <= -1 else None)
                newname = names[zj]
            if zi is None:
                want = [(k, ("int", int(v))) for k, v in rec]
            else:
                want = []
                for z, (k, v) in enumerate(rec):
                    if z == zi:
                        want.append((newname, ("int", int(v))))
                    elif k != newname:
                        want.append((k, ("int", int(v))))
            cases.append(({"prog": p, "text": G.mlr_prog(p), "inputs": [rec], "quiet": False}, want))
    with ctx.timed("impl"):
        obs = run_all(ctx, [c for c, _ in cases], workers=4)
    terms, reported = [], 0
    for (c, want), o in zip(cases, obs):
        ctx.count(("posrename", c["text"]))
        good = o["class"] == "ok" and o.get("out") == [("r", want)]
        if not good and reported < 3:
            reported += 1
            ctx.violation({"broken": "property oracle: positional name assignment renames in place", "class": "oracle-positional-rename-in-place",
                           "program": "mlr put '%s'" % c["text"].strip(), "input": c["inputs"], "observed": {k: o.get(k) for k in ("class", "out", "stderr")},
                           "expected": [("r", want)], "doc": "reference-dsl-variables.md, Positional field names: $[[i]] = s renames field i in place"})
        if o["class"] in ("ok", "mlr_error"):
            terms.append(case_term(bits, c["prog"], False, c["inputs"], o))
    with ctx.timed("coq_cases"):
        codes, err = coq_eval_codes(ctx, "C14posren", terms)
    ctx.cov["positional_rename_block"] = {"programs": len(cases), "codes": {str(k): codes.count(k) for k in set(codes)}}
    if err:
        ctx.violation({"broken": "positional-rename evaluation", "detail": err[-1500:]}, found_input=False)
    if any(code != 0 for code in codes) and reported == 0:
        k = [i for i, code in enumerate(codes) if code != 0][0]
        ctx.violation({"broken": "correspondence C14.Harness.classify (positional rename block)", "coq_case": terms[k][:3000]}, found_input=False)


def chain_correspondence(ctx):
    """then-chains of several put verbs sharing function names, run in ONE process (process-wide caches) against the
    composition of the verbs' models"""
    n = 40 if ctx.tier == "quick" else 600
    cases = [G.gen_chain(ctx.rng) for _ in range(n)]
    with ctx.timed("impl"):
        obs = run_all(ctx, cases)
    terms, meta = [], []
    for c, o in zip(cases, obs):
        ctx.dist("chain_impl_" + o["class"])
        if o["class"] == "panic":
            ctx.violation({"broken": "panic", "chain": [v["text"] for v in c["chain"]], "inputs": c["inputs"], "stderr": o["stderr"], "class": "panic"})
            continue
        if o["class"] not in ("ok", "mlr_error"):
            continue
        ins = "[" + "; ".join(cq_amap([(k, input_value(v)) for k, v in r]) for r in c["inputs"]) + "]"
        ps = coq_list("(%s, %s)" % (G.coq_prog(v["prog"]), coq_bool(v["quiet"])) for v in c["chain"])
        outs, status = (cq_outs(o["out"]), 0) if o["class"] == "ok" else ("[]", 1)
        terms.append("(%s, %s, %s, %s)" % (ps, ins, status, outs))
        meta.append((c, o))
    with ctx.timed("coq_cases"):
        codes, err = coq_eval_codes(ctx, "C14chain", terms, fn="classify_chain", ty="ccase")
    ctx.cov["chain_correspondence"] = {"chains": len(cases), "evaluated": len(terms), "codes": {str(k): codes.count(k) for k in set(codes)}}
    if err:
        ctx.violation({"broken": "chain-correspondence-evaluation", "detail": err[-2000:]}, found_input=False)
    reported = 0
    for (c, o), code in zip(meta, codes):
        ctx.count(("chain", tuple(v["text"] for v in c["chain"]), str(c["inputs"])), nontrivial=(code == 0))
        if code == 1 and reported < 3:
            reported += 1
            ctx.violation({"broken": "correspondence C14.Harness.classify_chain (then-chain of put verbs sharing function names)",
                           "program": " then ".join("put '%s'" % v["text"] for v in c["chain"]), "input": c["inputs"],
                           "observed": {k: o.get(k) for k in ("class", "out", "stderr")}})


# ------------------------------------------------------------------ the property itself, evaluated on the implementation's outputs
def I(n):
    return ("int", n)


def S(x):
    return ("str", x)


def oracle_table(rng):
    """(clause, program, inputs, expected output stream) -- expectations written from the property statement / the reference
    documents, independently of the Coq model.  Inputs are varied with the seed where the law is input-generic."""
    k = rng.randint(2, 9)
    w = rng.choice(["pan", "eks", "wye"])
    rec = [("a", str(k)), ("b", w), ("c", "7")]
    R = lambda *kv: ("r", list(kv))
    t = []
    t.append(("new-fields-append", '$z = 1; $new = $a . "x"', [rec], [R(("a", I(k)), ("b", S(w)), ("c", I(7)), ("z", I(1)), ("new", S("%dx" % k)))]))
    t.append(("reassigned-keeps-position", '$a = "q"; $b = $c + 1', [rec], [R(("a", S("q")), ("b", I(8)), ("c", I(7)))]))
    t.append(("absent-assignment-skipped", '$y = $nosuch; $a = @nosuch; @v = $nosuch; $n = is_absent(@v)', [rec],
              [R(("a", I(k)), ("b", S(w)), ("c", I(7)), ("n", ("bool", True)))]))
    t.append(("inner-var-shadows", 'x = 1; if (true) { var x = 2; $in = x } $out = x', [rec],
              [R(("a", I(k)), ("b", S(w)), ("c", I(7)), ("in", I(2)), ("out", I(1)))]))
    t.append(("undeclared-assignment-updates-enclosing", 'x = 1; if (true) { if (true) { x = %d } } $out = x' % k, [rec],
              [R(("a", I(k)), ("b", S(w)), ("c", I(7)), ("out", I(k)))]))
    t.append(("block-local-vanishes", 'if (true) { var y = 5 } $out = is_absent(y)', [rec], [R(("a", I(k)), ("b", S(w)), ("c", I(7)), ("out", ("bool", True)))]))
    t.append(("shadow-in-recursion", 'func f(int n) { var r = n; if (n > 0) { var r = 100; t = f(n - 1) } return r } $out = f(3)', [rec],
              [R(("a", I(k)), ("b", S(w)), ("c", I(7)), ("out", I(3)))]))
    t.append(("by-value-arguments", 'func f(map m) { m["a"] = 99; m["zz"] = 1; return m["a"] } m = {"a": %d}; t = f(m); $inner = t; $outer = m["a"]; $n = length(m)' % k, [rec],
              [R(("a", I(k)), ("b", S(w)), ("c", I(7)), ("inner", I(99)), ("outer", I(k)), ("n", I(1)))]))
    t.append(("callee-sees-no-caller-locals", 'func f() { return is_absent(secret) } secret = 1; $out = f()', [rec],
              [R(("a", I(k)), ("b", S(w)), ("c", I(7)), ("out", ("bool", True)))]))
    t.append(("recursion", 'func fact(int n): int { if (n <= 1) { return 1 } return n * fact(n - 1) } $out = fact($a)', [rec],
              [R(("a", I(k)), ("b", S(w)), ("c", I(7)), ("out", I(__import__("math").factorial(k))))]))
    t.append(("oosvars-persist", '@count += 1; @last = $a; $n = @count', [[("a", "5")], [("a", "6")], [("a", "7")]],
              [R(("a", I(5)), ("n", I(1))), R(("a", I(6)), ("n", I(2))), R(("a", I(7)), ("n", I(3)))]))
    t.append(("locals-do-not-persist", '$seen = is_present(x); x = 5; $now = is_present(x)', [[("a", "5")], [("a", "6")]],
              [R(("a", I(5)), ("seen", ("bool", False)), ("now", ("bool", True))), R(("a", I(6)), ("seen", ("bool", False)), ("now", ("bool", True)))]))
    t.append(("type-gate-declaration", 'int x = "abc"', [rec], "error"))
    t.append(("type-gate-later-assignment", 'str s = "a"; if (true) { s = 3 }', [rec], "error"))
    t.append(("type-gate-parameter", 'func f(str s) { return 1 } $y = f(3)', [rec], "error"))
    t.append(("type-gate-return", 'func f(): int { return "x" } $y = f()', [rec], "error"))
    t.append(("type-gate-accepts", 'num x = 1; x = 2; var v = "s"; v = {}; map m = {}; m[1] = 2; $ok = x', [rec],
              [R(("a", I(k)), ("b", S(w)), ("c", I(7)), ("ok", I(2)))]))
    t.append(("break-continue", 'for (k, v in $*) { if (k == "b") { continue } if (k == "c") { break } print k } i = 0; while (true) { i += 1; if (i > 3) { break } } print i', [rec],
              [("s", "a"), ("s", "4"), R(("a", I(k)), ("b", S(w)), ("c", I(7)))]))
    t.append(("loop-over-record-copy", 'for (k, v in $*) { $[k . "_2"] = v; unset $c }', [rec], [R(("a", I(k)), ("b", S(w)), ("a_2", I(k)), ("b_2", S(w)), ("c_2", I(7)))]))
    t.append(("pattern-action-begin-end", 'begin { @n = 0 } $a > 0 { @n += 1 } end { emit @n }', [[("a", "1")], [("a", "-1")], [("a", "2")]],
              [R(("a", I(1))), R(("a", I(-1))), R(("a", I(2))), R(("n", I(2)))]))
    t.append(("auto-create-nested", '@s[$b][1] = $a; end { emit1 @s }', [rec], [R(("a", I(k)), ("b", S(w)), ("c", I(7))), R((w, ("map", [("1", I(k))])))]))
    M3 = '{"a": {"x": {"p": 1, "q": 2}, "y": {"p": 3, "q": 4}}, "b": {"x": {"p": 5, "q": 6}, "y": {"p": 7, "q": 8}}}'
    t.append(("multikey-break-ends-whole-loop", 'end { n = 0; for ((k1, k2, k3), v in %s) { if (v == 2) { break } n += 1; print k1.":".k2.":".k3."=".v } print "visited=".n }' % M3, [],
              [("s", "a:x:p=1"), ("s", "visited=1")]))
    t.append(("multikey-break-ends-whole-loop", 'end { @m = {"z": %s, "w": %s}; for ((k1, k2, k3, k4), v in @m) { if (k3 == "y") { break } print k1.k2.k3.k4.v } print "after" }' % (M3, M3), [],
              [("s", "zaxp1"), ("s", "zaxq2"), ("s", "after")]))
    t.append(("multikey-continue-skips-one-leaf", 'end { s = 0; for ((k1, k2, k3), v in %s) { if (v == 4) { continue } s += v } print s }' % M3, [], [("s", "32")]))
    t.append(("multikey-return-ends-loop-and-function", 'func f(map m): str { for ((k1, k2, k3), v in m) { if (v == 3) { return k1.k2.k3 } } return "none" } end { print f(%s) }' % M3, [],
              [("s", "ayp")]))
    t.append(("multikey-two-keys", 'end { for ((k1, k2), v in {"a": {"x": 1, "y": 2}, "b": 5, "c": {"x": 3}}) { if (v == 2) { break } print k1.k2.v } }', [], [("s", "ax1")]))
    t.append(("return-by-value-snapshot",
              'func f(): map { @c["v"] += 1; return @c } func bump(): str { @c["v"] += 100; return "bumped" } func g(map m, str s): str { return m["v"] . "/" . s } end { print g(f(), bump()); print @c["v"] }',
              [], [("s", "1/bumped"), ("s", "101")]))
    t.append(("return-by-value-snapshot",
              'func tick(): map { @calls["count"] += 1; return @calls } func two(map x, map y): map { return {"first": x["count"], "second": y["count"]} } $* = mapsum($*, two(tick(), tick())); $total = @calls["count"]'.replace("$* = mapsum($*, two(tick(), tick()))", "t = two(tick(), tick()); $first = t[\"first\"]; $second = t[\"second\"]"),
              [[("x", "5")], [("x", "7")]],
              [R(("x", I(5)), ("first", I(1)), ("second", I(2)), ("total", I(2))), R(("x", I(7)), ("first", I(3)), ("second", I(4)), ("total", I(4)))]))
    # arrays (reference-main-arrays.md): 1-up, negative aliases, inclusive slices, out-of-bounds reads absent / slices trimmed,
    # auto-extend by one, unset shifts, by value; auto-create below maps makes maps even for int keys (reference-main-maps.md)
    A = lambda *xs: ("arr", list(xs))
    t.append(("array-1-up-and-negative-aliases", 'end { x = [10, 20, 30, 40, 50]; print x[1]; print x[5]; print x[-1]; print x[-5]; print x[2] == x[-4]; print is_absent(x[6]) . is_absent(x[0]) . is_absent(x[-6]) }', [],
              [("s", "10"), ("s", "50"), ("s", "50"), ("s", "10"), ("s", "true"), ("s", "truetruetrue")]))
    t.append(("array-inclusive-slices", 'end { x = [10, 20, 30, 40, 50]; emit1 {"a": x[2:3], "b": x[-2:-1], "c": x[4:9], "d": x[3:2], "e": x[:2], "f": x[4:], "g": "hello"[2:3], "h": "hello"[-2:-1]} }', [],
              [R(("a", A(I(20), I(30))), ("b", A(I(40), I(50))), ("c", A(I(40), I(50))), ("d", A()), ("e", A(I(10), I(20))), ("f", A(I(40), I(50))), ("g", S("el")), ("h", S("lo")))]))
    t.append(("array-auto-extend-by-one", 'end { x = []; x[1] = "a"; x[2] = "b"; x[length(x) + 1] = %d; emit1 {"x": x, "n": length(x)} }' % k, [], [R(("x", A(S("a"), S("b"), I(k))), ("n", I(3)))]))
    t.append(("array-assign-index-zero-is-error", 'end { x = [1, 2, 3]; x[0] = 9; print "no" }', [], "error"))
    t.append(("array-assign-before-start-is-error", 'end { x = [1, 2, 3]; x[-4] = 9; print "no" }', [], "error"))
    t.append(("array-assign-negative-alias", 'end { x = [1, 2, 3]; x[-1] = %d; x[-3] = "f"; emit1 {"x": x} }' % k, [], [R(("x", A(S("f"), I(2), I(k))))]))
    t.append(("array-unset-shifts", 'end { x = [1, 2, 3, 4]; unset x[2]; emit1 {"x": x}; unset x[-1]; emit1 {"x": x} }', [], [R(("x", A(I(1), I(3), I(4)))), R(("x", A(I(1), I(3))))]))
    t.append(("array-for-loops", 'end { for (e in [%d, "b"]) { print e } for (i, e in ["x", "y"]) { print i . ":" . e } }' % k, [], [("s", str(k)), ("s", "b"), ("s", "1:x"), ("s", "2:y")]))
    t.append(("array-by-value-arguments", 'func f(arr a) { a[1] = 99; a[length(a) + 1] = 7; unset a[2]; return a } end { x = [%d, 2, 3]; y = f(x); emit1 {"inner": y, "outer": x} }' % k, [],
              [R(("inner", A(I(99), I(3), I(7))), ("outer", A(I(k), I(2), I(3))))]))
    t.append(("array-by-value-assignment", 'end { x = [1, [2, 3]]; y = x; y[2][1] = %d; @o = x; x[1] = 0; emit1 {"x": x, "y": y, "o": @o} }' % k, [],
              [R(("x", A(I(0), A(I(2), I(3)))), ("y", A(I(1), A(I(k), I(3)))), ("o", A(I(1), A(I(2), I(3)))))]))
    t.append(("auto-create-int-key-makes-map", 'end { @m[1][2] = %d; x = [1]; x[1]["k"] = 5; x[2]["j"] = 6; emit1 {"m": @m, "x": x} }' % k, [],
              [R(("m", ("map", [("1", ("map", [("2", I(k))]))])), ("x", A(("map", [("k", I(5))]), ("map", [("j", I(6))]))))]))
    t.append(("array-type-gate", 'end { arr a = [1]; a[2] = 2; a = {} }', [], "error"))
    t.append(("array-type-gate-accepts", 'end { arr a = [1]; a[2] = 2; var v = [3]; emit1 {"a": a, "v": v, "t": typeof(a)} }', [], [R(("a", A(I(1), I(2))), ("v", A(I(3))), ("t", S("array")))]))
    # positional names / values (reference-dsl-variables.md "Positional field names") and emitf (reference-dsl-output-statements.md)
    t.append(("positional-name-and-value-reads", '$x = $[[1]] . ":" . $[[[1]]] . ":" . $[[-1]] . ":" . typeof($[[9]]) . typeof($[[[0]]])', [rec],
              [R(("a", I(k)), ("b", S(w)), ("c", I(7)), ("x", S("a:%d:c:absentabsent" % k)))]))
    t.append(("positional-name-assignment-renames", '$[[1]] = "A"; $[[5]] = "nope"', [rec], [R(("A", I(k)), ("b", S(w)), ("c", I(7)))]))
    t.append(("positional-value-assignment", '$[[[2]]] = "new"; $[[[6]]] = "nope"; $[[[-1]]] = 0', [rec], [R(("a", I(k)), ("b", S("new")), ("c", I(0)))]))
    t.append(("srec-assignment-non-map-is-error", '$* = 3', [rec], "error"))
    t.append(("emitf-one-record-with-those-names", '@count += 1; @sum += $a; end { emitf @count, @sum }', [[("a", "5")], [("a", str(k))]],
              [R(("a", I(5))), R(("a", I(k))), R(("count", I(2)), ("sum", I(5 + k)))]))
    t.append(("emit-by-names-is-grouping", '@sum[$a][$b] = $c; end { emit @sum, "a", "b" }', [[("a", "x"), ("b", "p"), ("c", "1")], [("a", "y"), ("b", "p"), ("c", "2")], [("a", "x"), ("b", "q"), ("c", "3")]],
              None))
    return t


def oracles(ctx):
    table = oracle_table(ctx.rng)
    cases = [{"text": prog + "\n", "inputs": ins, "quiet": name in ("emit-by-names-is-grouping",)} for name, prog, ins, exp in table]
    with ctx.timed("impl"):
        obs = run_all(ctx, cases, workers=4)
    res = {}
    for (name, prog, ins, exp), o in zip(table, obs):
        ctx.count(("oracle", name, prog))
        if name == "emit-by-names-is-grouping":
            exp = [("r", [("a", S("x")), ("b", S("p")), ("sum", I(1))]), ("r", [("a", S("x")), ("b", S("q")), ("sum", I(3))]),
                   ("r", [("a", S("y")), ("b", S("p")), ("sum", I(2))])]
        good = (o["class"] == "mlr_error") if exp == "error" else (o["class"] == "ok" and o.get("out") == exp)
        res[name] = bool(good)
        if not good:
            ctx.violation({"broken": "property oracle: " + name, "program": "mlr put '%s'" % prog, "input": ins, "observed": {k: o.get(k) for k in ("class", "out", "stderr")},
                           "expected": exp, "class": "oracle-" + name})
    # two end-to-end runs through the command line: oosvars are private to each put in a chain; emit-by-names = the grouping verb
    inp = [[("a", ctx.rng.choice("xyz")), ("b", ctx.rng.choice("pq")), ("n", str(ctx.rng.randint(1, 9)))] for _ in range(12)]
    with ctx.timed("impl"):
        st1, out1, err1 = mlr_run(ctx, ["--ojsonl", "put", "-q", '@sum[$a][$b] += $n; end { emit @sum, "a", "b" }'], dkvp(inp), timeout=120)
        st2, out2, err2 = mlr_run(ctx, ["--ojsonl", "stats1", "-a", "sum", "-f", "n", "-g", "a,b", "then", "rename", "n_sum,sum"], dkvp(inp), timeout=120)
        st3, out3, err3 = mlr_run(ctx, ["--ojsonl", "put", "-q", "@c = 1; @d[$a] = 2", "then", "put", "$seen = is_present(@c) || is_present(@d)"], dkvp(inp[:2]), timeout=120)
    ctx.count(("oracle-cli", "emit-vs-stats1", str(inp)))
    ctx.count(("oracle-cli", "oosvars-private"))
    # stats1 groups by first appearance of the (a,b) pair, emit by first appearance of a then of b within a: compare as sorted lists
    l1, l2 = sorted(out1.decode().splitlines()), sorted(out2.decode().splitlines())
    res["cli-emit-by-names-equals-stats1"] = (st1 == 0 and st2 == 0 and l1 == l2 and len(l1) > 0)
    if not res["cli-emit-by-names-equals-stats1"]:
        ctx.violation({"broken": "property oracle: emit-by-names vs grouping verb", "input": inp, "emit": l1, "stats1": l2, "class": "oracle-emit-vs-stats1"})
    res["cli-oosvars-private"] = (st3 == 0 and out3 == b"")
    st4, out4, err4 = mlr_run(ctx, ["--ojsonl", "put", "@c = 1", "then", "put", "$seen = is_present(@c)"], dkvp(inp[:1]), timeout=120)
    res["cli-oosvars-private"] = st4 == 0 and b'"seen": false' in out4
    if not res["cli-oosvars-private"]:
        ctx.violation({"broken": "property oracle: out-of-stream variables are private to each put", "observed": out4.decode()[-300:], "class": "oracle-oosvars-private"})
    ctx.cov["oracles"] = res


def replay(ctx, path):
    obj = json.loads(Path(path).read_text())
    cls = obj.get("class") or ""
    print("replay:", cls or obj.get("broken"), "|", str(obj.get("program") or obj.get("expression"))[:200])
    if "coq_case" in obj and "inputs" in obj:
        # a correspondence / cell case: run the stored program again and compare with the model again
        text = obj["program"]
        inputs = [[tuple(kv) for kv in r] for r in obj["inputs"]]
        o = observe(ctx, text, inputs, obj.get("quiet", False))
        print("observed now:", {k: o.get(k) for k in ("class", "out")})
        ctx.count((text, str(inputs)))
        # the stored Coq case holds the program term; re-render the observation part from the fresh run
        head = obj["coq_case"].rsplit(", %s, " % ("0" if obj["observed"]["class"] == "ok" else "1"), 1)[0]
        if o["class"] in ("ok", "mlr_error"):
            fresh = head + ", %s, %s)" % (("0", cq_outs(o["out"])) if o["class"] == "ok" else ("1", "[]"))
            codes, err = coq_eval_codes(ctx, "C14replay", [fresh])
            print("model agreement code (0 agree, 1 disagree, 2 fuel, 3 outside fragment):", codes, err[-300:])
            if codes and codes[0] == 1:
                ctx.violation(dict(obj, replayed=True, observed={k: o.get(k) for k in ("class", "out", "stderr")}))
        elif o["class"] == "panic":
            ctx.violation(dict(obj, replayed=True, observed=o))
    elif "expression" in obj:
        st, out, err = mlr_run(ctx, ["-n", "put", "-v", "-X", "x = " + obj["expression"]], timeout=120)
        root = P.parse_ast(out.decode("utf-8", "replace").split("AST:", 1)[-1].splitlines())
        got = None
        try:
            got = P.norm_ast(root[2][0][2][0][2][1])
        except Exception:
            pass
        ctx.count(("prec", obj["expression"]))
        print("parsed now:", got)
        want = json.loads(json.dumps(obj["generated_tree"]))
        if json.loads(json.dumps(got)) != want:
            ctx.violation(dict(obj, replayed=True, parsed_tree=got))
    elif cls.startswith("oracle-"):
        oracles(ctx)
    else:
        probes(ctx)
