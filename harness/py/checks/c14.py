"""C14 — put/filter programs mean what the language reference says (DESIGN 3/C14).

Pipeline of run(ctx):
  1. regenerate coq/gen/Gen_Precedence.v from /repo/pkg/parsing/mlr.bnf (operator chain -> levels) and
     coq/gen/Gen_C14Gate.v (type-gate table observed through mlr)
  2. forbidden-construct gate, build C14 proofs, compile Props.v, audit assumptions
  3. probes that select the model variant (and report the pending findings)
  4. correspondence: seeded generator of mostly-well-typed programs, rendered to Miller syntax (run through mlr put)
     and to a Coq term (run through the Gallina interpreter under vm_compute); emitted records, printed lines and
     the error status are compared.  Operator cells (kind x kind x operator) exhaustively, same mechanism.
  5. oracles evaluated on the implementation's own outputs (metamorphic laws of the property statement)
  6. precedence tie: minimally parenthesised expressions must parse (mlr -n put -v) to the generating tree
"""
import json, os, re, shutil, subprocess, tempfile
from concurrent.futures import ThreadPoolExecutor
from vlib import *
from checks import c14gen as G

NAME = "C14"


# ------------------------------------------------------------------ running programs
def conv_val(v):
    if "i" in v:
        return ("int", v["i"])
    if "s" in v:
        return ("str", v["s"])
    if "b" in v:
        return ("bool", v["b"])
    if "m" in v:
        return ("map", [(k, conv_val(x)) for k, x in v["m"]])
    if "e" in v:
        return ("error",)
    if "a" in v:
        return ("absent",)
    return ("other", json.dumps(v))


def has_other(v):
    if v[0] == "other":
        return True
    if v[0] == "map":
        return any(has_other(x) for _, x in v[1])
    return False


def conv_obs(res):
    """driver answer -> {"class": ok|mlr_error|unparseable, "out": [("r", rec) | ("s", line)]}"""
    if res["status"] != "ok":
        return {"class": "mlr_error", "stderr": res.get("err", "")[-400:]}
    out = []
    for it in res["out"]:
        if "r" in it:
            rec = [(k, conv_val(v)) for k, v in it["r"]]
            if any(has_other(v) for _, v in rec):
                return {"class": "unparseable", "detail": "value kind outside the model (float/array/...)"}
            out.append(("r", rec))
        else:
            line = it["s"]
            out.append(("s", line[:-1] if line.endswith("\n") else line))
    return {"class": "ok", "out": out}


def run_batch(ctx, cases, per_case_timeout=15):
    """cases: list of dict(text, inputs, quiet).  Runs them through `implrun c14-put` (real parser + CST + TransformerPut in
    process).  A case in which Miller calls os.Exit / panics / hangs takes the driver down: it is classified from the exit
    status and the driver is restarted on the remaining cases."""
    results = [None] * len(cases)
    i = 0
    while i < len(cases):
        chunk = cases[i:]
        inp = "".join(json.dumps({"prog": c["text"], "inputs": [[list(kv) for kv in r] for r in c["inputs"]], "quiet": c["quiet"]}) + "\n" for c in chunk)
        rc, out, err = sh([ctx.implrun(), "c14-put"], inp=inp, timeout=60 + per_case_timeout + len(chunk) // 4)
        lines = out.split("\n")
        k = 0          # cases answered
        begun = 0
        for ln in lines:
            if not ln.strip():
                continue
            try:
                obj = json.loads(ln)
            except Exception:
                break
            if "begin" in obj:
                begun += 1
                continue
            results[i + k] = conv_obs(obj)
            k += 1
        if k >= len(chunk):
            break
        # the driver died (or timed out) inside case i+k
        if rc == 124:
            results[i + k] = {"class": "hang", "stderr": err[-300:]}
        elif "panic:" in err or "goroutine " in err or "fatal error:" in err:
            results[i + k] = {"class": "panic", "stderr": err[-1500:]}
        elif rc == 1:
            results[i + k] = {"class": "mlr_error", "stderr": err[-400:], "exit": True}
        else:
            results[i + k] = {"class": "driver-error", "stderr": "rc=%s %s" % (rc, err[-400:])}
        i = i + k + 1
    return results


def run_all(ctx, cases, workers=8):
    if not cases:
        return []
    n = max(1, min(workers, len(cases) // 8 or 1))
    chunks = [cases[j::n] for j in range(n)]
    with ThreadPoolExecutor(max_workers=n) as ex:
        parts = list(ex.map(lambda ch: run_batch(ctx, ch), chunks))
    out = [None] * len(cases)
    for j, part in enumerate(parts):
        out[j::n] = part
    return out


def observe(ctx, text, inputs, quiet):
    return run_batch(ctx, [{"text": text, "inputs": inputs, "quiet": quiet}])[0]


def observe_cli(ctx, text, inputs, quiet=False):
    """the same program through the command line (`mlr put`), records as JSON lines; used by a few end-to-end probes"""
    d = tempfile.mkdtemp(prefix="c14_")
    try:
        pf = os.path.join(d, "p.mlr")
        with open(pf, "w") as f:
            f.write(text)
        args = (["-n"] if not inputs else []) + ["--idkvp", "--ojsonl", "put"] + (["-q"] if quiet else []) + ["-f", pf]
        st, out, err = mlr_run(ctx, args, dkvp(inputs) if inputs else b"", timeout=60, max_out=5_000_000)
        return classify_run(st, err), out.decode("utf-8", "replace").splitlines(), err.decode("utf-8", "replace")[-400:]
    finally:
        shutil.rmtree(d, ignore_errors=True)


# ------------------------------------------------------------------ Coq rendering of observations
def cq_val(v):
    k = v[0]
    if k == "int":
        return f"(VInt {coq_z(v[1])})"
    if k == "str":
        return f"(VStr {coq_bytes(v[1].encode('utf-8'))})"
    if k == "bool":
        return f"(VBool {coq_bool(v[1])})"
    if k == "map":
        return "(VMap " + cq_amap(v[1]) + ")"
    if k == "error":
        return "VError"
    if k == "absent":
        return "VAbsent"
    raise ValueError(k)


def cq_amap(m):
    return "[" + "; ".join(f"({coq_bytes(k.encode('utf-8'))}, {cq_val(v)})" for k, v in m) + "]"


def input_value(s):
    """type inference of the generated input values (canonical decimal ints or plain words): C06 territory, kept trivial"""
    if re.fullmatch(r"-?[1-9][0-9]*|0", s):
        return ("int", int(s))
    return ("str", s)


def cq_outs(out):
    return "[" + ";\n ".join(("(ORec %s)" % cq_amap(x)) if t == "r" else ("(OLine %s)" % coq_bytes(x.encode("utf-8"))) for t, x in out) + "]"


def case_term(variant_bits, prog, quiet, inputs, obs):
    ins = "[" + "; ".join(cq_amap([(k, input_value(v)) for k, v in r]) for r in inputs) + "]"
    if obs["class"] == "ok":
        outs, status = cq_outs(obs["out"]), 0
    else:
        outs, status = "[]", 1
    return f"({variant_bits}, {G.coq_prog(prog)}, {coq_bool(quiet)}, {ins}, {status}, {outs})"


def coq_eval_codes(ctx, name, case_terms, fn="classify", ty="pcase", timeout=900, shard=100):
    """like vlib.coq_eval_mismatches but returns the N code computed for every case (0 agree, 1 disagree, 2 fuel, 3 unsupported);
    -1 for cases of a shard whose evaluation failed."""
    GEN.mkdir(exist_ok=True)
    procs = []
    for k in range(0, len(case_terms), shard):
        part = case_terms[k:k + shard]
        f = GEN / f"cases_{name}_{k // shard}.v"
        body = ["From Miller Require Import Base.Bytes C14.Value C14.Stack C14.Model C14.Harness.", "Open Scope Z_scope.",
                f"Definition cases : list ({ty}) := [", ";\n".join(part), "].",
                f"Definition M := Eval vm_compute in map {fn} cases.", "Print M."]
        f.write_text("\n".join(body) + "\n")
        procs.append((k, len(part), f))
    codes = [-1] * len(case_terms)
    errs = []

    def one(job):
        k, n, f = job
        rc, out, err = sh(["timeout", str(timeout), "coqc", "-Q", ".", "Miller", str(f)], cwd=COQ, timeout=timeout + 30)
        m = re.search(r"M\s*=\s*\[(.*?)\]\s*:\s*list", out, re.S)
        res = None
        if rc == 0 and m:
            toks = [t.strip().replace("%N", "") for t in m.group(1).split(";") if t.strip()]
            if len(toks) == n:
                res = [int(t) for t in toks]
        for ext in (".vo", ".vok", ".vos", ".glob", ".v"):
            try:
                if res is not None or ext != ".v":
                    f.with_suffix(ext).unlink()
            except FileNotFoundError:
                pass
        try:
            (f.parent / ("." + f.stem + ".aux")).unlink()
        except FileNotFoundError:
            pass
        return k, n, res, (err or out)[-1500:]
    with ThreadPoolExecutor(max_workers=14) as ex:
        for k, n, res, err in ex.map(one, procs):
            if res is None:
                errs.append(f"shard@{k}: {err}")
            else:
                codes[k:k + n] = res
    return codes, "\n".join(errs)


# ------------------------------------------------------------------ probes selecting the model variant = pending findings
def probes(ctx):
    """each probe runs a fixed witness program; when the implementation deviates from the reference the deviation is
    reported under its stable class and the faithful model variant is selected for the correspondence."""
    bits = 3
    three = [[("a", "1")], [("a", "2")], [("a", "3")]]
    # F2: a filter statement executed for one record must not decide the fate of later records
    o = observe(ctx, 'if (NR == 1) {filter false}', three, False)
    ctx.count(("probe", "filter-sticky"))
    exp = [("r", [("a", ("int", 2))]), ("r", [("a", ("int", 3))])]
    if o["class"] != "ok" or o.get("out") != exp:
        bits &= ~1
        ctx.violation({"class": "filter-statement-sticky-across-records", "program": "mlr put 'if (NR == 1) {filter false}'",
                       "input": "a=1\\na=2\\na=3", "observed": o.get("out"), "expected": exp,
                       "doc": "reference-dsl-filter-statements.md: put 'filter <cond>' is synonymous with filter '<cond>' (a per-record decision)",
                       "theorem": "C14_filter_is_per_record"})
    # F3: type declarations are enforced at every assignment, including indexed ones
    o = observe(ctx, 'end{int x = 3; x["a"] = 1; print typeof(x)}', [], False)
    ctx.count(("probe", "idx-gate"))
    if o["class"] == "ok":
        bits &= ~2
        ctx.violation({"class": "indexed-assignment-bypasses-type-gate", "program": "mlr -n put 'end{int x = 3; x[\"a\"] = 1; print typeof(x)}'",
                       "observed": o.get("out"), "expected": "mlr: couldn't assign variable int x from value map (non-zero exit)",
                       "doc": "reference-dsl-variables.md: type declarations are enforced at the time values are assigned ... in any subsequent assignments to the same variable",
                       "theorem": "C14_type_gate_enforced_indexed"})
    # F4: unset of a local followed by an indexed assignment must not change what absent reads return
    o = observe(ctx, 'end{x = 1; unset x; x["a"] = 1; print typeof(nosuch); print typeof(@y)}', [], False)
    ctx.count(("probe", "absent-singleton"))
    if o["class"] != "ok" or o.get("out") != [("s", "absent"), ("s", "absent")]:
        ctx.violation({"class": "unset-local-then-indexed-assign-corrupts-absent", "program": "mlr -n put 'end{x = 1; unset x; x[\"a\"] = 1; print typeof(nosuch); print typeof(@y)}'",
                       "observed": o.get("out"), "expected": ["absent", "absent"],
                       "doc": "reference-main-null-data.md: reads of unset variables are absent"})
    # F1: for-loops bind from a copy of the map made before the loop
    o = observe(ctx, 'end{@m = {"a":1,"b":2}; for (k,v in @m) { if (k == "a") {@m["c"] = 3; unset @m["b"]} print k.":".v } }', [], False)
    ctx.count(("probe", "loop-copy"))
    if o["class"] != "ok" or o.get("out") != [("s", "a:1"), ("s", "b:2")]:
        ctx.violation({"class": "for-loop-over-map-variable-iterates-live-map", "program": "mlr -n put 'end{@m = {\"a\":1,\"b\":2}; for (k,v in @m) { if (k == \"a\") {@m[\"c\"] = 3; unset @m[\"b\"]} print k.\":\".v } }'",
                       "observed": o.get("out"), "expected": ["a:1", "b:2"],
                       "doc": "reference-dsl-control-structures.md: 'The bound variables are bound to a copy of the sub-map as it was before the loop started'"})
    ctx.cov["variant_selected"] = {"filter_per_record": bool(bits & 1), "indexed_assignment_gated": bool(bits & 2)}
    return bits


# ------------------------------------------------------------------ main
def run(ctx):
    ctx.cov["rule"] = ("seeded generator of mostly-well-typed put programs over the covered grammar (expressions with + - * . comparisons && || ! ?: ??, "
                       "map literals and indexing, field/oosvar/local assignments typed and untyped, indexed assignment with auto-create, unset, if/elif/else, "
                       "while, do-while, single and key-value for, C-style for, break/continue, pattern-action, begin/end, typed recursive functions, print, "
                       "emit1, emit (map, named, by names), filter) x small DKVP record streams; compared: exit status class, emitted records (JSON lines, "
                       "typed values, field order) and printed lines between mlr put and the Gallina interpreter under vm_compute; a case is non-trivial "
                       "when the model neither runs out of fuel nor leaves the modelled fragment")
    ctx.cov["trusted_base"] = ["Coq 8.16.1 kernel + vm_compute", "no axioms (Print Assumptions: closed under the global context)",
                               "python generator / renderers (program -> Miller text, program -> Coq term)", "mlr.bnf -> Gen_Precedence.v translator",
                               "type inference of the generated input values (canonical decimal ints, plain words) is done by the harness"]
    ctx.assumptions = ["the generated LR parser is not modelled: only its observable AST/behaviour on generated programs",
                       "floats, arrays, function literals, higher-order functions, positional names, emitp/emitf/tee/dump, subroutines, redirects are outside the modelled fragment"]
    forbidden_gate(ctx, ["Base", "C14"])
    ok, why = check_props(ctx, "C14/Props.v", ["C14/Harness.vo", "C14/Proofs.vo", "C14/StackProofs.vo"])
    if not ok:
        ctx.violation({"broken": why}, found_input=False)
    bits = probes(ctx)
    correspondence(ctx, bits)


def correspondence(ctx, bits):
    n = 240 if ctx.tier == "quick" else 4000
    progs = []
    for i in range(n):
        p = G.gen_case(ctx.rng)
        progs.append(p)
        ctx.dist("size_%d" % min(9, G.prog_size(p["prog"]) // 10))
    with ctx.timed("impl"):
        obs = run_all(ctx, progs)
    terms, meta = [], []
    for c, o in zip(progs, obs):
        ctx.dist("impl_" + o["class"])
        if o["class"] in ("hang", "unparseable", "driver-error"):
            ctx.dist("skipped_" + o["class"])
            continue
        if o["class"] == "panic":
            ctx.violation({"broken": "panic", "program": c["text"], "inputs": c["inputs"], "stderr": o["stderr"], "class": "panic"})
            continue
        terms.append(case_term(bits, c["prog"], c["quiet"], c["inputs"], o))
        meta.append((c, o))
    with ctx.timed("coq_cases"):
        codes, err = coq_eval_codes(ctx, "C14", terms)
    hist = {0: 0, 1: 0, 2: 0, 3: 0, -1: 0}
    for code in codes:
        hist[code] = hist.get(code, 0) + 1
    ctx.cov["correspondence"] = {"programs": len(progs), "evaluated": len(terms), "agree": hist[0], "disagree": hist[1],
                                 "model_out_of_fuel_skipped": hist[2], "outside_fragment_skipped": hist[3], "coq_failed": hist[-1]}
    for (c, o), code in zip(meta, codes):
        ctx.count((c["text"], c["inputs"], c["quiet"]), nontrivial=(code == 0))
        if code == 0 and len(ctx.cov["samples"]) < 4:
            ctx.sample({"program": c["text"], "inputs": c["inputs"], "observed_class": o["class"], "out": str(o.get("out"))[:400]})
    if err:
        ctx.violation({"broken": "correspondence-evaluation", "detail": err[-2000:]}, found_input=False)
    reported = 0
    for (c, o), code in zip(meta, codes):
        if code == 1 and reported < 5:
            reported += 1
            ctx.violation({"broken": "correspondence C14.Harness.classify", "program": c["text"], "inputs": c["inputs"], "quiet": c["quiet"],
                           "observed": {k: o.get(k) for k in ("class", "out", "stderr")}, "variant_bits": bits,
                           "coq_case": case_term(bits, c["prog"], c["quiet"], c["inputs"], o)})


def replay(ctx, path):
    obj = json.loads(Path(path).read_text())
    print("replay:", obj.get("program"))
    if "program" in obj and "inputs" in obj:
        o = observe(ctx, obj["program"], [[tuple(kv) for kv in r] for r in obj["inputs"]], obj.get("quiet", False))
        print("observed now:", {k: o.get(k) for k in ("class", "out")})
        ctx.count(obj["program"])
        if "coq_case" in obj:
            codes, err = coq_eval_codes(ctx, "C14replay", [obj["coq_case"]])
            print("model agreement code for the stored observation:", codes, err[-500:])
            if codes and codes[0] == 1:
                ctx.violation(dict(obj, replayed=True))
    else:
        probes(ctx)
