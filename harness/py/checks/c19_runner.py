"""C19 runner — run `mlr -I` in a scratch directory, optionally killing it / failing one of its syscalls at a chosen point.

Two injection engines (argument `engine=` of run_inplace / trace_run / enumerate_crash_points):

* "ptrace" (default): a small single-purpose ptrace supervisor (this same file run as `python3 c19_runner.py --tracer SPEC`,
  one tracer process per run).  It stops the traced mlr at every syscall entry, keeps ONE GLOBAL counter per syscall name that
  is advanced only by calls that concern a file inside the scratch directory (path arguments resolved against the tracee's
  cwd / dirfd, fd arguments resolved through /proc/TID/fd/N), and at the n-th such call either SIGKILLs the process while it
  sits in the syscall-entry stop (the syscall is then NOT executed) or skips the syscall and makes it return -ERRNO.
  `("kill", s, n)` / `("error", s, errname, n)` therefore mean "the n-th call of s that touches the scratch directory, in
  global order over all threads", which is exactly what trace_run()["counts"] counts.

* "strace": `strace -f -o LOG -e signal=none -e trace=SET -e inject=S:signal=SIGKILL:when=N mlr -I ...` (or `:error=E:when=N`).
  Measured with strace 6.1 here: (1) the `when=` counter is PER TRACEE (= per OS thread; every new thread starts from a fresh
  copy), and it counts every call of S whatever file it concerns; (2) `-P <directory>` matches nothing below the directory
  (path matching is by exact string / exact fd path) and the name of `mlr-in-place-*` is not known beforehand, so the calls on
  the temp file cannot be selected by path; (3) the Go runtime moves mlr's goroutines between OS threads from one file
  syscall to the next (3-4 different tids issue the dozen file syscalls of a two-file run, differently on every run).
  Hence with strace "the n-th occurrence" is only well defined for n = 1 on a syscall that is first used for the scratch
  directory (renameat, fchmodat, unlinkat, write) — for anything else the point that is hit is schedule dependent.  The strace
  engine is kept for cross-checking; its result dict carries "hit" = the global index (as counted by the ptrace engine) of the
  call that was actually hit, worked out from the log.

Both: SIGKILL injected at syscall entry => the syscall is not executed (kill on renameat: the rename has not happened, the
temp file is still there).  status == "killed" (mlr died by SIGKILL) together with injected == True tells an injected kill from
a run that completed because n exceeded the number of occurrences (status == exit code, injected == False).

No top-level side effects; the self-test is under __main__.
"""
import ctypes, errno as _errno, json, os, random, re, shutil, signal, stat as _stat, subprocess, sys, tempfile, time
from concurrent.futures import ThreadPoolExecutor

# ------------------------------------------------------------------------------------------------ syscall table (x86_64)
# kinds: fd, dirfd, path, buf (length = next arg), int, oct, oflags, ptr
_SYSCALLS = {
    "read": (0, ["fd", "ptr", "int"]),
    "write": (1, ["fd", "buf", "int"]),
    "open": (2, ["path", "oflags", "oct"]),
    "close": (3, ["fd"]),
    "stat": (4, ["path", "ptr"]),
    "fstat": (5, ["fd", "ptr"]),
    "lstat": (6, ["path", "ptr"]),
    "pwrite64": (18, ["fd", "buf", "int", "int"]),
    "writev": (20, ["fd", "ptr", "int"]),
    "fsync": (74, ["fd"]),
    "fdatasync": (75, ["fd"]),
    "truncate": (76, ["path", "int"]),
    "ftruncate": (77, ["fd", "int"]),
    "rename": (82, ["path", "path"]),
    "mkdir": (83, ["path", "oct"]),
    "rmdir": (84, ["path"]),
    "creat": (85, ["path", "oct"]),
    "link": (86, ["path", "path"]),
    "unlink": (87, ["path"]),
    "chmod": (90, ["path", "oct"]),
    "fchmod": (91, ["fd", "oct"]),
    "openat": (257, ["dirfd", "path", "oflags", "oct"]),
    "mkdirat": (258, ["dirfd", "path", "oct"]),
    "newfstatat": (262, ["dirfd", "path", "ptr", "int"]),
    "unlinkat": (263, ["dirfd", "path", "int"]),
    "renameat": (264, ["dirfd", "path", "dirfd", "path"]),
    "linkat": (265, ["dirfd", "path", "dirfd", "path", "int"]),
    "fchmodat": (268, ["dirfd", "path", "oct"]),
    "renameat2": (316, ["dirfd", "path", "dirfd", "path", "int"]),
    "fchmodat2": (452, ["dirfd", "path", "oct", "int"]),
}
_BY_NR = {nr: (name, kinds) for name, (nr, kinds) in _SYSCALLS.items()}

# the syscalls an injection may select by default: everything that can change the directory, plus the ones named in the task
RELEVANT = ["openat", "write", "close", "renameat", "renameat2", "rename", "fchmodat", "chmod", "fchmod", "unlinkat", "unlink",
            "newfstatat", "open", "creat", "pwrite64", "writev", "fsync", "fdatasync", "truncate", "ftruncate", "link", "linkat",
            "fchmodat2", "mkdir", "mkdirat", "rmdir"]
# syscalls that change what a later observer of the directory sees (used to thin out crash points if wanted)
STATE_CHANGING = [s for s in RELEVANT if s not in ("close", "newfstatat")]
STRACE_SET = "openat,write,close,renameat,renameat2,rename,fchmodat,chmod,fchmod,unlinkat,unlink,newfstatat"

_OFLAGS = [(0o100, "O_CREAT"), (0o200, "O_EXCL"), (0o1000, "O_TRUNC"), (0o2000, "O_APPEND"), (0o4000, "O_NONBLOCK"),
           (0o200000, "O_DIRECTORY"), (0o2000000, "O_CLOEXEC"), (0o100000, "O_LARGEFILE")]


# ------------------------------------------------------------------------------------------------ 1. snapshot
def snapshot(dirpath):
    """{relative_name: {"hex": file bytes as hex, "mode": st_mode & 0o7777}} for every regular file below dirpath."""
    out = {}
    for root, dirs, files in os.walk(dirpath):
        dirs.sort()
        for f in sorted(files):
            p = os.path.join(root, f)
            try:
                st = os.lstat(p)
                if not _stat.S_ISREG(st.st_mode):
                    continue
                with open(p, "rb") as fh:
                    data = fh.read()
            except OSError:
                continue
            out[os.path.relpath(p, dirpath)] = {"hex": data.hex(), "mode": st.st_mode & 0o7777}
    return out


# ------------------------------------------------------------------------------------------------ ptrace supervisor
_PTRACE_TRACEME, _PTRACE_GETREGS, _PTRACE_SETREGS, _PTRACE_SYSCALL = 0, 12, 13, 24
_PTRACE_SETOPTIONS, _PTRACE_GET_SYSCALL_INFO = 0x4200, 0x420E
_O_SYSGOOD, _O_FORK, _O_VFORK, _O_CLONE, _O_EXEC, _O_EXITKILL = 1, 2, 4, 8, 0x10, 0x100000
_WALL = 0x40000000
_AT_FDCWD = -100


class _Deadline(Exception):
    pass


def _tracer_main(spec):
    """Runs in its own process.  spec: argv, cwd, env, scratch, out (stdout file), err (stderr file), syscalls (names that are
    traced), inject (None | ["kill", s, n] | ["error", s, errname, n]), timeout.  Returns the result dict (JSON-able)."""
    import platform
    if platform.machine() != "x86_64":
        return {"tracer_error": "ptrace engine supports x86_64 only"}
    libc = ctypes.CDLL(None, use_errno=True)
    libc.ptrace.restype = ctypes.c_long
    libc.ptrace.argtypes = [ctypes.c_long, ctypes.c_long, ctypes.c_void_p, ctypes.c_void_p]

    def ptrace(req, pid, addr, data):
        r = libc.ptrace(req, pid, addr, data)
        if r == -1:
            e = ctypes.get_errno()
            if e:
                raise OSError(e, "ptrace(%d,%d): %s" % (req, pid, os.strerror(e)))
        return r

    scratch = os.path.realpath(spec["scratch"])
    traced = set(spec["syscalls"])
    inject = spec.get("inject")
    if inject:
        traced.add(inject[1])
    inj_kind = inject[0] if inject else None
    inj_sys = inject[1] if inject else None
    inj_n = int(inject[-1]) if inject else 0
    inj_errno = getattr(_errno, inject[2]) if inj_kind == "error" else 0

    pid = os.fork()
    if pid == 0:
        try:
            import resource
            os.chdir(spec["cwd"])
            fi = os.open("/dev/null", os.O_RDONLY)
            fo = os.open(spec["out"], os.O_WRONLY | os.O_CREAT | os.O_TRUNC, 0o600)
            fe = os.open(spec["err"], os.O_WRONLY | os.O_CREAT | os.O_TRUNC, 0o600)
            os.dup2(fi, 0); os.dup2(fo, 1); os.dup2(fe, 2)
            for f in (fi, fo, fe):
                os.close(f)
            resource.setrlimit(resource.RLIMIT_AS, (8 << 30, 8 << 30))
            resource.setrlimit(resource.RLIMIT_FSIZE, (50_000_000, 50_000_000))
            libc.ptrace(_PTRACE_TRACEME, 0, None, None)
            os.kill(os.getpid(), signal.SIGSTOP)
            os.execve(spec["argv"][0], spec["argv"], spec["env"])
        finally:
            os._exit(127)

    res = {"status": None, "injected": False, "trace": [], "counts": {}, "hit": None}
    events = []            # dicts: tid, name, args, ret
    pending = {}           # tid -> event awaiting its exit stop
    pending_err = {}       # tid -> errno to force at exit
    counts = {}
    started = {pid}
    alive = {pid}
    regs = (ctypes.c_ulonglong * 27)()
    info = ctypes.create_string_buffer(96)
    main_status = [None]

    def readlink(p):
        try:
            return os.readlink(p)
        except OSError:
            return None

    def rdmem(tid, addr, n):
        try:
            with open("/proc/%d/mem" % tid, "rb", buffering=0) as fh:
                fh.seek(addr)
                return fh.read(n)
        except (OSError, ValueError, OverflowError):
            return b""

    def rdstr(tid, addr):
        b = rdmem(tid, addr, 4096)
        i = b.find(b"\0")
        return (b if i < 0 else b[:i]).decode("utf-8", "surrogateescape")

    def s32(v):
        v &= 0xFFFFFFFF
        return v - (1 << 32) if v & 0x80000000 else v

    def under(p):
        return p is not None and (p == scratch or p.startswith(scratch + "/"))

    def describe(tid, name, kinds, args):
        """-> (concerns_scratch, rendered argument string)"""
        hit, parts, base = False, [], None
        for i, k in enumerate(kinds):
            a = args[i]
            if k == "fd":
                fd = s32(a)
                p = readlink("/proc/%d/fd/%d" % (tid, fd))
                hit = hit or under(p)
                parts.append("%d<%s>" % (fd, p) if p else str(fd))
            elif k == "dirfd":
                fd = s32(a)
                if fd == _AT_FDCWD:
                    base = readlink("/proc/%d/cwd" % tid)
                    parts.append("AT_FDCWD")
                else:
                    base = readlink("/proc/%d/fd/%d" % (tid, fd))
                    parts.append("%d<%s>" % (fd, base))
            elif k == "path":
                s = rdstr(tid, a)
                b = base if base is not None else readlink("/proc/%d/cwd" % tid)
                full = os.path.normpath(os.path.join(b or "/", s)) if s else (b if base is not None else None)
                hit = hit or under(full)
                parts.append(json.dumps(s))
                base = None
            elif k == "buf":
                n = args[i + 1] if i + 1 < len(args) else 0
                d = rdmem(tid, a, min(n, 32))
                parts.append(json.dumps(d.decode("latin-1")) + ("..." if n > 32 else ""))
            elif k == "oct":
                if name in ("open", "openat") and not (s32(args[i - 1]) & 0o100):
                    continue                  # mode argument is meaningless without O_CREAT
                parts.append("0%o" % (a & 0o7777))
            elif k == "oflags":
                f = s32(a)
                names = [["O_RDONLY", "O_WRONLY", "O_RDWR", "O_ACCMODE"][f & 3]] + [nm for bit, nm in _OFLAGS if f & bit]
                parts.append("|".join(names))
            elif k == "ptr":
                parts.append("0x%x" % a)
            else:
                parts.append(str(s32(a) if a > 0x7FFFFFFFFFFF else a))
        return hit, ", ".join(parts)

    def on_alarm(signum, frame):
        raise _Deadline()

    signal.signal(signal.SIGALRM, on_alarm)
    signal.alarm(max(1, int(spec.get("timeout", 60))))
    try:
        _, st = os.waitpid(pid, 0)
        if not os.WIFSTOPPED(st):
            return {"tracer_error": "child did not stop: %r" % st}
        ptrace(_PTRACE_SETOPTIONS, pid, None, _O_SYSGOOD | _O_FORK | _O_VFORK | _O_CLONE | _O_EXEC | _O_EXITKILL)
        ptrace(_PTRACE_SYSCALL, pid, None, None)
        while alive:
            try:
                tid, st = os.waitpid(-1, _WALL)
            except ChildProcessError:
                break
            if os.WIFEXITED(st) or os.WIFSIGNALED(st):
                alive.discard(tid)
                if tid == pid:
                    main_status[0] = st
                ev = pending.pop(tid, None)
                if ev is not None and ev["ret"] is None:
                    ev["ret"] = "?"
                continue
            if not os.WIFSTOPPED(st):
                continue
            alive.add(tid)
            sig = os.WSTOPSIG(st)
            event = st >> 16
            fwd = 0
            if sig == (signal.SIGTRAP | 0x80):
                n = libc.ptrace(_PTRACE_GET_SYSCALL_INFO, tid, ctypes.c_void_p(len(info)), info)
                op = info.raw[0] if n > 0 else 0
                if op == 1:          # entry
                    nr = int.from_bytes(info.raw[24:32], "little")
                    ent = _BY_NR.get(nr)
                    if ent is not None and ent[0] in traced:
                        name, kinds = ent
                        args = [int.from_bytes(info.raw[32 + 8 * i:40 + 8 * i], "little") for i in range(6)]
                        hit, text = describe(tid, name, kinds, args)
                        if hit:
                            counts[name] = counts.get(name, 0) + 1
                            ev = {"tid": tid, "name": name, "args": text, "ret": None, "k": counts[name]}
                            events.append(ev)
                            pending[tid] = ev
                            if inj_kind and name == inj_sys and counts[name] == inj_n and not res["injected"]:
                                res["injected"] = True
                                res["hit"] = inj_n
                                if inj_kind == "kill":
                                    ev["ret"] = "? <killed by injected SIGKILL at entry>"
                                    os.kill(pid, signal.SIGKILL)
                                    continue          # every thread now dies; reaped above
                                ptrace(_PTRACE_GETREGS, tid, None, ctypes.byref(regs))
                                regs[15] = 0xFFFFFFFFFFFFFFFF      # orig_rax = -1: skip the syscall
                                ptrace(_PTRACE_SETREGS, tid, None, ctypes.byref(regs))
                                pending_err[tid] = inj_errno
                elif op == 2:        # exit
                    ev = pending.pop(tid, None)
                    e = pending_err.pop(tid, None)
                    if e is not None:
                        ptrace(_PTRACE_GETREGS, tid, None, ctypes.byref(regs))
                        regs[10] = (-e) & 0xFFFFFFFFFFFFFFFF       # rax
                        ptrace(_PTRACE_SETREGS, tid, None, ctypes.byref(regs))
                        if ev is not None:
                            ev["ret"] = "-1 %s (INJECTED)" % _errno.errorcode.get(e, e)
                    elif ev is not None:
                        rval = int.from_bytes(info.raw[24:32], "little", signed=True)
                        ev["ret"] = ("-1 %s" % _errno.errorcode.get(-rval, -rval)) if -4096 < rval < 0 else str(rval)
            elif event:
                pass                 # clone / fork / exec notification
            elif sig == signal.SIGSTOP and tid not in started:
                started.add(tid)     # first stop of an auto-attached thread
            else:
                fwd = sig            # a real signal (SIGURG preemption, SIGPIPE, ...): deliver it
            started.add(tid)
            try:
                ptrace(_PTRACE_SYSCALL, tid, None, ctypes.c_void_p(fwd))
            except OSError as ex:
                if ex.errno != _errno.ESRCH:
                    raise
    except _Deadline:
        res["status"] = "hang"
        try:
            os.kill(pid, signal.SIGKILL)
        except OSError:
            pass
        t_end = time.time() + 10
        while time.time() < t_end:
            try:
                os.waitpid(-1, _WALL)
            except ChildProcessError:
                break
            except _Deadline:
                pass
    finally:
        signal.alarm(0)
    if res["status"] is None:
        st = main_status[0]
        if st is None:
            res["status"] = "lost"
        elif os.WIFSIGNALED(st):
            res["status"] = "killed" if os.WTERMSIG(st) == signal.SIGKILL else "signal-%d" % os.WTERMSIG(st)
        else:
            res["status"] = os.WEXITSTATUS(st)
    res["counts"] = counts
    res["trace"] = ["%d %s#%d(%s) = %s" % (e["tid"], e["name"], e["k"], e["args"], e["ret"] if e["ret"] is not None else "?")
                    for e in events]
    res["threads"] = len({e["tid"] for e in events})
    return res


# ------------------------------------------------------------------------------------------------ strace log handling
_LINE = re.compile(r"^(\d+)\s+(.*)$")


def _strace_merge(text):
    """join `<unfinished ...>` / `<... x resumed>` pairs; returns [(tid, line)] in order of completion"""
    out, open_ = [], {}
    for raw in text.splitlines():
        m = _LINE.match(raw)
        if not m:
            continue
        tid, body = int(m.group(1)), m.group(2)
        if body.endswith("<unfinished ...>"):
            open_[tid] = body[:-len("<unfinished ...>")].rstrip()
            continue
        r = re.match(r"<\.\.\. (\w+) resumed>\s*(.*)$", body)
        if r:
            body = open_.pop(tid, r.group(1) + "(") + r.group(2)
        out.append((tid, body))
    for tid, body in open_.items():        # killed while inside the call
        out.append((tid, body + " = ?"))
    return out


def _strace_relevant(text, scratch):
    """keep the calls that concern the scratch directory, using a tiny fd table rebuilt from the log.
    returns (lines, counts, hit) where hit = (syscall, global index) of the injected call, or None."""
    scratch = os.path.realpath(scratch)
    fds, lines, counts, hit = {}, [], {}, None

    def under(p):
        return p is not None and (p == scratch or p.startswith(scratch + "/"))

    for tid, body in _strace_merge(text):
        m = re.match(r"(\w+)\((.*)$", body)
        if not m:
            continue
        name, rest = m.group(1), m.group(2)
        rel = False
        paths = re.findall(r'"((?:[^"\\]|\\.)*)"', rest) if name not in ("write", "read", "pwrite64") else []
        for p in paths:
            rel = rel or (p != "" and under(os.path.normpath(os.path.join(scratch, p))))
        fdm = re.match(r"(\d+)[,)<]", rest)
        if fdm and name in ("write", "read", "close", "fchmod", "fsync", "fdatasync", "ftruncate", "fstat", "newfstatat", "pwrite64"):
            rel = rel or under(fds.get(int(fdm.group(1))))
        r = re.search(r"\)\s+= (-?\d+|\?)", rest)
        ret = r.group(1) if r else "?"
        if name in ("openat", "open", "creat") and ret not in ("?",) and int(ret) >= 0 and paths:
            fds[int(ret)] = os.path.normpath(os.path.join(scratch, paths[0]))
        if name == "close" and fdm:
            fds.pop(int(fdm.group(1)), None)
        if rel:
            counts[name] = counts.get(name, 0) + 1
            lines.append("%d %s#%d(%s" % (tid, name, counts[name], rest))
            if "(INJECTED)" in rest or rest.rstrip().endswith("= ?"):
                hit = (name, counts[name])
    return lines, counts, hit


# ------------------------------------------------------------------------------------------------ 2. run_inplace
def _mk_scratch(files):
    d = tempfile.mkdtemp(prefix="verif-c19-", dir="/tmp")
    for name, data, mode in files:
        p = os.path.join(d, name)
        os.makedirs(os.path.dirname(p), exist_ok=True)
        with open(p, "wb") as fh:
            fh.write(data)
        os.chmod(p, mode)
    return d


def _tail(b, n=4000):
    if isinstance(b, bytes):
        b = b.decode("utf-8", "replace")
    return b[-n:]


def _env(env):
    e = dict(os.environ)
    e["MLRRC"] = "__none__"
    if env:
        e.update(env)
    return e


def run_inplace(ctx, files, args, names=None, inject=None, timeout=60, env=None, engine="ptrace", _trace=False,
                syscalls=None):
    """Run `mlr -I <args> <names>` with cwd = a fresh scratch directory holding `files` [(name, bytes, mode)].
    inject: None | ("kill", syscall, n) | ("error", syscall, errname, n)   (see the module docstring for what n counts).
    Returns {"status", "stderr", "stdout", "snapshot", "injected", "trace", "counts", "hit", "engine"}; the scratch directory is
    always removed."""
    names = [f[0] for f in files] if names is None else list(names)
    argv = [ctx.mlr(), "-I"] + list(args) + names
    scratch = _mk_scratch(files)
    side = tempfile.mkdtemp(prefix="verif-c19side-", dir="/tmp")      # stdout/stderr/log live OUTSIDE the scratch directory
    res = {"status": None, "stderr": "", "stdout": "", "snapshot": None, "injected": False, "trace": [], "counts": {},
           "hit": None, "engine": None, "argv": argv[1:]}
    try:
        e = _env(env)
        if inject is None and not _trace:
            try:
                p = subprocess.run(argv, cwd=scratch, env=e, stdin=subprocess.DEVNULL, capture_output=True, timeout=timeout)
                res["status"] = "killed" if p.returncode == -signal.SIGKILL else p.returncode
                res["stdout"], res["stderr"] = _tail(p.stdout), _tail(p.stderr)
            except subprocess.TimeoutExpired as ex:
                res["status"] = "hang"
                res["stderr"] = _tail(ex.stderr or b"")
        elif engine == "ptrace":
            res["engine"] = "ptrace"
            spec = {"argv": argv, "cwd": scratch, "env": e, "scratch": scratch, "out": os.path.join(side, "out"),
                    "err": os.path.join(side, "err"), "syscalls": list(syscalls or RELEVANT),
                    "inject": list(inject) if inject else None, "timeout": timeout}
            sp = os.path.join(side, "spec.json")
            with open(sp, "w") as fh:
                json.dump(spec, fh)
            try:
                p = subprocess.run([sys.executable, os.path.abspath(__file__), "--tracer", sp], capture_output=True,
                                   timeout=timeout + 60, stdin=subprocess.DEVNULL)
                try:
                    r = json.loads(p.stdout.decode("utf-8", "replace"))
                except ValueError:
                    r = {"tracer_error": "rc=%s %s" % (p.returncode, _tail(p.stderr, 1500))}
            except subprocess.TimeoutExpired:
                r = {"status": "hang"}
            if "tracer_error" in r:
                res["status"] = "harness-error"
                res["stderr"] = r["tracer_error"]
            else:
                for k in ("status", "injected", "trace", "counts", "hit", "threads"):
                    if k in r:
                        res[k] = r[k]
                for k, f in (("stdout", "out"), ("stderr", "err")):
                    try:
                        with open(os.path.join(side, f), "rb") as fh:
                            res[k] = _tail(fh.read())
                    except OSError:
                        pass
        elif engine == "strace":
            res["engine"] = "strace"
            log = os.path.join(side, "strace.log")
            cmd = ["strace", "-f", "-q", "-o", log, "-e", "signal=none", "-e", "trace=" + STRACE_SET]
            if inject:
                if inject[0] == "kill":
                    cmd += ["-e", "inject=%s:signal=SIGKILL:when=%d" % (inject[1], inject[2])]
                else:
                    cmd += ["-e", "inject=%s:error=%s:when=%d" % (inject[1], inject[2], inject[3])]
            res["strace_cmd"] = " ".join(cmd + ["mlr"] + argv[1:])
            try:
                p = subprocess.run(cmd + argv, cwd=scratch, env=e, stdin=subprocess.DEVNULL, capture_output=True,
                                   timeout=timeout)
                # strace re-raises the tracee's fatal signal on itself: returncode -9 <=> mlr was SIGKILLed
                res["status"] = "killed" if p.returncode == -signal.SIGKILL else p.returncode
                res["stdout"], res["stderr"] = _tail(p.stdout), _tail(p.stderr)
            except subprocess.TimeoutExpired as ex:
                res["status"] = "hang"
                res["stderr"] = _tail(ex.stderr or b"")
            try:
                with open(log, "r", errors="replace") as fh:
                    text = fh.read()
            except OSError:
                text = ""
            res["trace"], res["counts"], hit = _strace_relevant(text, scratch)
            if inject:
                killed_line = re.search(r"\+\+\+ killed by SIGKILL \+\+\+", text) is not None
                res["injected"] = ("(INJECTED)" in text) if inject[0] == "error" else \
                    ((killed_line or res["status"] == "killed") and hit is not None)
                res["hit"] = hit[1] if (hit and res["injected"]) else None
        else:
            raise ValueError("engine must be 'ptrace' or 'strace'")
        res["snapshot"] = snapshot(scratch)
    finally:
        shutil.rmtree(scratch, ignore_errors=True)
        shutil.rmtree(side, ignore_errors=True)
    return res


# ------------------------------------------------------------------------------------------------ 3. trace_run
def trace_run(ctx, files, args, names=None, engine="ptrace", timeout=60, env=None, syscalls=None):
    """Clean traced run.  Same dict as run_inplace, with "counts": {syscall: number of calls an injection could select}.
    With the ptrace engine counts[s] is exact: ("kill", s, n) fires for every 1 <= n <= counts[s] and never for n > counts[s]
    (as long as mlr issues the same sequence of file syscalls, which it does for a fixed input: only the thread ids vary).
    With the strace engine the same global counts are reported but `when=` counts per thread, see the module docstring."""
    return run_inplace(ctx, files, args, names=names, inject=None, timeout=timeout, env=env, engine=engine, _trace=True,
                       syscalls=syscalls)


# ------------------------------------------------------------------------------------------------ 4. enumerate_crash_points
def enumerate_crash_points(ctx, files, args, names=None, max_points=None, rng=None, engine="ptrace", syscalls=None,
                           timeout=60, workers=4, clean=None):
    """SIGKILL mlr at the entry of every (syscall s, n-th scratch-directory call of s) of the clean run, or at a random
    subsample of max_points of them.  Returns [{"syscall": s, "n": n, "result": run_inplace dict}] in (trace) order."""
    clean = clean or trace_run(ctx, files, args, names=names, engine="ptrace", timeout=timeout, syscalls=syscalls)
    order, seen = [], set()
    for line in clean["trace"]:                      # points in the order in which the clean run reaches them
        m = re.match(r"\d+ (\w+)#(\d+)\(", line)
        if m and (m.group(1), int(m.group(2))) not in seen:
            seen.add((m.group(1), int(m.group(2))))
            order.append((m.group(1), int(m.group(2))))
    for s, c in sorted(clean["counts"].items()):     # anything the trace lines did not show (should not happen)
        for n in range(1, c + 1):
            if (s, n) not in seen:
                order.append((s, n))
    if max_points is not None and len(order) > max_points:
        rng = rng or random.Random(0)
        keep = set(rng.sample(range(len(order)), max_points))
        order = [p for i, p in enumerate(order) if i in keep]

    def one(pt):
        s, n = pt
        return {"syscall": s, "n": n,
                "result": run_inplace(ctx, files, args, names=names, inject=("kill", s, n), timeout=timeout, engine=engine,
                                      syscalls=syscalls)}
    with ThreadPoolExecutor(max_workers=workers) as ex:
        return list(ex.map(one, order))


# ------------------------------------------------------------------------------------------------ self-test
def _classify(snap, name, orig, transformed, mode):
    if name not in snap:
        return "MISSING"
    b = bytes.fromhex(snap[name]["hex"])
    tag = "ORIGINAL" if b == orig else "TRANSFORMED" if b == transformed else "OTHER(%d bytes)" % len(b)
    return "%s/%04o%s" % (tag, snap[name]["mode"], "" if snap[name]["mode"] == mode else "(MODE-CHANGED)")


def _summary(snap, files, transformed):
    parts = ["%s=%s" % (n, _classify(snap, n, d, transformed[n], m)) for n, d, m in files]
    extra = ["%s(%d)" % (n, len(v["hex"]) // 2) for n, v in sorted(snap.items()) if n not in {f[0] for f in files}]
    return " ".join(parts) + "  extra=[" + ",".join(extra) + "]"


def _selftest():
    here = os.path.dirname(os.path.abspath(__file__))
    sys.path.insert(0, os.path.dirname(here))
    import vlib
    t0 = time.time()
    ctx = vlib.Ctx("C19", "quick", 1)
    if not vlib.prepare(ctx):
        print("build failed")
        return 1
    files = [("a.csv", b"a,b\n1,2\n3,4\n", 0o640), ("b.csv", b"a,b\n5,6\n", 0o600)]
    args = ["--icsv", "--ojson", "cat"]
    transformed = {}
    for n, d, _ in files:
        td = tempfile.mkdtemp(prefix="verif-c19ref-", dir="/tmp")
        try:
            with open(os.path.join(td, n), "wb") as fh:
                fh.write(d)
            st, out, err = vlib.mlr_run(ctx, args + [n], cwd=td, timeout=120)
            assert st == 0, (st, err)
            transformed[n] = out
        finally:
            shutil.rmtree(td, ignore_errors=True)
    bad = 0

    print("== snapshot / direct run")
    r = run_inplace(ctx, files, args)
    print("   status=%r %s" % (r["status"], _summary(r["snapshot"], files, transformed)))

    for eng in ("ptrace", "strace"):
        t = time.time()
        c = trace_run(ctx, files, args, engine=eng)
        print("== clean trace, engine=%s  status=%r  %.1fs  %s" % (eng, c["status"], time.time() - t,
                                                                    _summary(c["snapshot"], files, transformed)))
        for line in c["trace"]:
            print("   " + line)
        print("   counts:", json.dumps(c["counts"], sort_keys=True))
        if eng == "ptrace":
            clean = c
        elif c["counts"] != clean["counts"]:
            print("   !! engines disagree on counts")
            bad += 1

    print("== crash points (ptrace engine, SIGKILL at entry of the n-th scratch-directory call)")
    t = time.time()
    pts = enumerate_crash_points(ctx, files, args, clean=clean)
    for p in pts:
        r = p["result"]
        summ = _summary(r["snapshot"], files, transformed)
        flag = ""
        if not r["injected"] or r["status"] != "killed" or "OTHER" in summ or "MISSING" in summ:
            flag = "   <<<<<< CHECK"
            bad += 1
        print("   %-11s n=%d injected=%-5s status=%-7r %s%s" % (p["syscall"], p["n"], r["injected"], r["status"], summ, flag))
    print("   %d points in %.1fs" % (len(pts), time.time() - t))
    r = run_inplace(ctx, files, args, inject=("kill", "renameat", clean["counts"].get("renameat", 0) + 1))
    print("   beyond the last renameat: injected=%s status=%r %s" % (r["injected"], r["status"],
                                                                    _summary(r["snapshot"], files, transformed)))

    print("== strace engine, kills with when=1 (the only deterministic ones)")
    for s in ("renameat", "fchmodat", "write"):
        r = run_inplace(ctx, files, args, inject=("kill", s, 1), engine="strace")
        print("   %s when=1: injected=%s hit=%s status=%r %s" % (s, r["injected"], r["hit"], r["status"],
                                                                 _summary(r["snapshot"], files, transformed)))
        print("      " + r["strace_cmd"])

    print("== error injections")
    for eng in ("ptrace", "strace"):
        for inj in (("error", "write", "ENOSPC", 1), ("error", "renameat", "EXDEV", 1), ("error", "renameat", "EACCES", 2),
                    ("error", "fchmodat", "EPERM", 1), ("error", "close", "EIO", 2), ("error", "openat", "EACCES", 1)):
            if eng == "strace" and inj[1] in ("close", "openat"):
                continue      # strace counts the loader's / runtime's own close() and openat() calls first
            r = run_inplace(ctx, files, args, inject=inj, engine=eng)
            print("   [%s] %s: injected=%s hit=%s status=%r %s" % (eng, inj, r["injected"], r["hit"], r["status"],
                                                                   _summary(r["snapshot"], files, transformed)))
            print("      stderr: %r" % r["stderr"].strip()[-300:])
            for line in r["trace"]:
                if "INJECTED" in line or "unlink" in line:
                    print("      " + line)
    print("self-test wall: %.1fs  flagged=%d" % (time.time() - t0, bad))
    return 0


if __name__ == "__main__":
    if len(sys.argv) == 3 and sys.argv[1] == "--tracer":
        with open(sys.argv[2]) as _fh:
            _spec = json.load(_fh)
        try:
            _r = _tracer_main(_spec)
        except Exception as _ex:       # pragma: no cover
            import traceback
            _r = {"tracer_error": traceback.format_exc()[-2000:]}
        sys.stdout.write(json.dumps(_r))
        sys.stdout.flush()
        sys.exit(0)
    sys.exit(_selftest())
