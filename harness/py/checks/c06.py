"""C06 — type inference follows the documented number grammar (DESIGN 3/C06)."""
import itertools, json, re, struct
from vlib import *

ALPHA = b"0123456789+-.eExXoObBa-fA-F_ ".replace(b"-f", b"cdf").replace(b"-F", b"CDF")
ALPHA = bytes(sorted(set(b"0123456789+-.eExXoObBabcdfACDF_ ")))
FLAGS = ["default", "S", "A", "O"]


def gen_tables(ctx):
    rc, out, err = sh([ctx.implrun(), "digit-tables"])
    rows = [l.split() for l in out.splitlines()]
    if rc != 0 or len(rows) != 256:
        raise RuntimeError("digit-tables failed: " + err[-500:])
    tab = lambda i: "[" + ";".join(r[i] for r in rows) + "]"
    txt = ("(* REGENERATED on every run from pkg/scan/digits.go via 'implrun digit-tables' "
           "(the real predicates applied to all 256 bytes). *)\n"
           "From Miller Require Import Base.Bytes.\n"
           f"Definition gen_dec_table : list bool := {tab(1)}.\n"
           f"Definition gen_oct_table : list bool := {tab(2)}.\n"
           f"Definition gen_hex_table : list bool := {tab(3)}.\n"
           f"Definition gen_flt_table : list bool := {tab(4)}.\n"
           "Definition lookup (t : list bool) (c : ascii) : bool := nth (N.to_nat (code c)) t false.\n"
           "Definition gen_is_dec := lookup gen_dec_table.\n"
           "Definition gen_is_oct := lookup gen_oct_table.\n"
           "Definition gen_is_hex := lookup gen_hex_table.\n"
           "Definition gen_is_flt := lookup gen_flt_table.\n")
    write_if_changed(GEN / "Gen_ScanTables.v", txt)
    gen_scan_types(ctx)
    return rows


def gen_scan_types(ctx):
    """the scan-type enum (pkg/scan/type.go TypeNames), the two inferrer dispatch tables and the flag -> inferrer selection
    (pkg/mlrval/mlrval_infer.go), read out of the built packages by 'implrun scan-tables'"""
    rc, out, err = sh([ctx.implrun(), "scan-tables"])
    if rc != 0:
        raise RuntimeError("scan-tables failed: " + err[-500:])
    types, normal, octal, select, examples = [], [], [], [], []
    for l in out.splitlines():
        p = l.split(" ", 2)
        if p[0] == "type":
            types.append((int(p[1]), p[2]))
        elif p[0] == "normal":
            normal.append(p[2])
        elif p[0] == "octal":
            octal.append(p[2])
        elif p[0] == "select":
            select.append((p[1], p[2]))
        elif p[0] == "example":
            examples.append((p[1], int(p[2])))
    q = lambda x: '"%s"' % x
    txt = ("(* REGENERATED on every run from pkg/scan/type.go (TypeNames) and pkg/mlrval/mlrval_infer.go (normalInferrerTable, "
           "leadingZeroAsIntInferrerTable, the SetInferrer setters) via 'implrun scan-tables'. *)\n"
           "Require Import String List.\nImport ListNotations.\nOpen Scope string_scope.\n"
           "Definition gen_type_names : list (nat * string) := [%s].\n" % "; ".join("(%d, %s)" % (i, q(n)) for i, n in types) +
           "Definition gen_normal_table : list string := [%s].\n" % "; ".join(q(n) for n in normal) +
           "Definition gen_octal_table : list string := [%s].\n" % "; ".join(q(n) for n in octal) +
           "Definition gen_selectors : list (string * string) := [%s].\n" % "; ".join("(%s, %s)" % (q(k), q(v)) for k, v in select) +
           "Definition gen_examples : list (string * nat) := [%s].\n" % "; ".join("(%s, %d)" % (q(k), v) for k, v in examples))
    write_if_changed(GEN / "Gen_ScanTypes.v", txt)


# ---- documented grammar, Python rendering: used ONLY to search for / confirm a failing input
def ref_infer(s: bytes, flag="default"):
    if s == b"":
        return ("empty",)
    if flag == "S":
        return ("string",)
    try:
        t = s.decode("ascii")
    except UnicodeDecodeError:
        return ("string",)
    r = None
    m = re.fullmatch(r"([+-]?)0[xX]([0-9a-fA-F]+)", t)
    if m:
        v = int(m.group(2), 16)
        if len(m.group(2)) == 16 and v >= 2 ** 63:
            v -= 2 ** 64
            if m.group(1) == "-":
                v = -v
                if v == 2 ** 63:
                    v = -2 ** 63
            r = ("int", v)
        else:
            if m.group(1) == "-":
                v = -v
            r = ("int", v) if -2 ** 63 <= v < 2 ** 63 and int(m.group(2), 16) < 2 ** 63 else ("string",)
    elif re.fullmatch(r"[+-]?0[oO][0-7]+", t) or re.fullmatch(r"[+-]?0[bB][01]+", t):
        mm = re.fullmatch(r"([+-]?)0([oObB])(.+)", t)
        v = int(mm.group(3), 8 if mm.group(2) in "oO" else 2)
        if v >= 2 ** 63:
            r = ("string",)
        else:
            r = ("int", -v if mm.group(1) == "-" else v)
    elif re.fullmatch(r"[+-]?0[0-9]+", t):
        if flag == "O":
            mm = re.fullmatch(r"([+-]?)(0[0-9]+)", t)
            base = 8 if re.fullmatch(r"[0-7]+", mm.group(2)) else 10
            v = int(mm.group(2), base)
            v = -v if mm.group(1) == "-" else v
            r = ("int", v) if -2 ** 63 <= v < 2 ** 63 else (pyfloat(t) if base == 10 else ("string",))
        else:
            r = ("string",)
    elif re.fullmatch(r"[+-]?[0-9]+", t):
        v = int(t)
        r = ("int", v) if -2 ** 63 <= v < 2 ** 63 else pyfloat(t)   # integers that do not fit in 64 bits become floats
    elif re.fullmatch(r"[+-]?([0-9]+\.?[0-9]*|\.[0-9]+)([eE][+-]?[0-9]+)?", t):
        r = pyfloat(t)
    else:
        r = ("string",)
    if flag == "A" and r[0] == "int":
        r = ("float", struct.unpack(">Q", struct.pack(">d", float(r[1])))[0])
    return r


def pyfloat(t):
    try:
        f = float(t)
        if f in (float("inf"), float("-inf")):
            return ("string",)
        return ("float", struct.unpack(">Q", struct.pack(">d", f))[0])
    except (ValueError, OverflowError):
        return ("string",)


def parse_obs(line):
    p = line.split()
    if p[0] == "int":
        return ("int", int(p[1]))
    if p[0] == "float":
        return ("float", int(p[1], 16))
    return (p[0],)


def impl_infer(ctx, strings, flag):
    rc, out, err = sh([ctx.implrun(), "infer", flag], inp="\n".join(s.hex() for s in strings) + "\n", timeout=600)
    lines = out.split("\n")[:len(strings)]
    if rc != 0 or len(lines) != len(strings):
        raise RuntimeError(f"implrun infer {flag} failed rc={rc}: {err[-800:]}")
    return [parse_obs(l) for l in lines]


def impl_scan(ctx, strings):
    rc, out, err = sh([ctx.implrun(), "scan"], inp="\n".join(s.hex() for s in strings) + "\n", timeout=600)
    lines = out.split("\n")[:len(strings)]
    if rc != 0 or len(lines) != len(strings):
        raise RuntimeError(f"implrun scan failed rc={rc}: {err[-800:]}")
    return [int(l) for l in lines]


def gen_strings(ctx):
    rng = ctx.rng
    out = []
    maxlen_exh = 2 if ctx.tier == "quick" else 3
    for n in range(0, maxlen_exh + 1):
        for t in itertools.product(ALPHA, repeat=n):
            out.append(bytes(t))
    ctx.dist("exhaustive_len<=%d" % maxlen_exh, len(out))
    nrand3 = 1500 if ctx.tier == "quick" else 0
    for _ in range(nrand3):
        out.append(bytes(rng.choice(ALPHA) for _ in range(3)))
    ctx.dist("random_len3", nrand3)
    # structured numerals
    def digits(k, pool=b"0123456789"):
        return bytes(rng.choice(pool) for _ in range(k))
    nstruct = 1200 if ctx.tier == "quick" else 20000
    for _ in range(nstruct):
        kind = rng.randrange(9)
        sign = rng.choice([b"", b"", b"-", b"+"])
        if kind == 0:
            s = sign + digits(rng.randint(1, 22))
        elif kind == 1:
            s = sign + b"0" + rng.choice([b"x", b"X"]) + digits(rng.choice([1, 2, 8, 15, 16, 16, 16, 17]), b"0123456789abcdefABCDEF")
        elif kind == 2:
            s = sign + b"0" + rng.choice([b"b", b"B"]) + digits(rng.choice([1, 5, 62, 63, 64, 65]), b"01")
        elif kind == 3:
            s = sign + b"0" + rng.choice([b"o", b"O"]) + digits(rng.choice([1, 3, 20, 21, 22, 23]), b"01234567")
        elif kind == 4:
            s = sign + b"0" + digits(rng.randint(1, 20), rng.choice([b"01234567", b"0123456789"]))
        elif kind == 5:
            s = sign + digits(rng.randint(0, 20)) + b"." + digits(rng.randint(0, 20))
        elif kind == 6:
            s = sign + digits(rng.randint(1, 18)) + rng.choice([b"", b".", b"." + digits(3)]) + rng.choice([b"e", b"E"]) + rng.choice([b"", b"-", b"+"]) + digits(rng.randint(0, 3))
        elif kind == 7:
            # a mutation of a valid numeral
            base = sign + digits(rng.randint(1, 6)) + b"." + digits(2) + b"e" + digits(2)
            i = rng.randrange(len(base))
            s = base[:i] + bytes([rng.choice(ALPHA)]) + base[i + rng.randint(0, 1):]
        else:
            s = bytes(rng.choice(ALPHA) for _ in range(rng.randint(4, 12)))
        out.append(s)
    ctx.dist("structured", nstruct)
    boundary = []
    for k in (63, 64):
        for d in (-2, -1, 0, 1, 2):
            v = 2 ** k + d
            boundary += [str(v).encode(), b"-" + str(v).encode(), b"0x%x" % v, b"-0x%x" % v, b"0b" + bin(v)[2:].encode(), b"0o%o" % v]
    boundary += [b"1e308", b"1.7976931348623157e308", b"1.7976931348623158e308", b"1.7976931348623159e308", b"1e309", b"2e308",
                 b"4.9e-324", b"2.4703282292062327e-324", b"2.4703282292062328e-324", b"2.5e-324", b"1e-400", b"1e400", b"-1e400",
                 b"2.2250738585072014e-308", b"2.2250738585072011e-308", b"0.1", b"123456789012345678901234567890",
                 b"9007199254740993", b"9007199254740993.0", b"9007199254740992.5", b"9007199254740993.5", b"1e22", b"1e23", b"8.5e22",
                 b"0x8000000000000000", b"0xffffffffffffffff", b"-0x8000000000000000", b"-0xffffffffffffffff", b"0x7fffffffffffffff",
                 b"0x08000000000000000", b"0xFFFFFFFFFFFFFFFF", b"0XA000000000000000", b"-0", b"+0", b"-0.0", b"0e0", b"00", b"08", b"-08", b"0377", b"-0377",
                 b"1e5000", b"1e-5000", b"1e99999", b"0.000000000000000000000000000000000000000000000000000000000000000000000001",
                 b"inf", b"NaN", b"true", b"false", b"1_000", b"1 2", b" 1", b"1 ", b"\xff", b"1\xc3\xa9", b"Inf", b"-inf", b"+Inf", b"infinity", b"0x1p3", b"0x1.8p1",
                 b".", b"-.", b"+.", b"-", b"+", b"e", b"1e", b"1e+", b".e1", b"1.e1", b".1e1", b"1..2", b"1.2.3", b"--1", b"+-1", b"1-", b"1e1e1", b"0x", b"0b", b"0o", b"-0x", b"0x-1", b"0b2", b"0o8"]
    out += boundary
    ctx.dist("boundary", len(boundary))
    # every byte in every digit position class (finds a witness for any change of the four digit tables)
    probes = []
    for c in range(256):
        cb = bytes([c])
        probes += [cb, b"1" + cb, b"0x" + cb, b"0o" + cb, b"0" + cb, b"1." + cb]
    out += probes
    ctx.dist("byte_probes", len(probes))
    # dedupe, keep order
    seen, res = set(), []
    for s in out:
        if s not in seen:
            seen.add(s); res.append(s)
    return res


KIND = {"string": 0, "int": 1, "float": 2, "empty": 3}
FLAGN = {"default": 0, "S": 1, "A": 2, "O": 3}


def run(ctx):
    ctx.cov["rule"] = ("strings over the numeric alphabet [0-9+-.eExXoObBa-fA-F_ ]: exhaustive up to length 2 (quick) / 3 (thorough), "
                       "random length-3, structured numerals per grammar production with mutations, boundary magnitudes; "
                       "each x {default,-S,-A,-O}; a case is non-trivial when distinct (flag,string); compared: scan type, inferred kind, "
                       "int value / float bit pattern between implrun (real pkg/scan + pkg/mlrval) and the Coq model under vm_compute")
    ctx.cov["trusted_base"] = ["Coq 8.16.1 kernel + vm_compute", "no axioms (Print Assumptions: closed under the global context)",
                               "implrun digit-tables translator (256 bytes x 4 predicates)", "python harness / implrun driver",
                               "strconv.ParseInt/ParseUint/ParseFloat modelled by specification (exact value, range check, correct rounding), tied by correspondence"]
    ctx.assumptions = ["strconv is modelled, not verified", "JSON decoder and DSL lexer contexts are tied through mlr runs only"]
    gen_tables(ctx)
    forbidden_gate(ctx, ["Base", "C06"])
    ok, why = check_props(ctx, "C06/Props.v", ["C06/TableProofs.vo", "C06/Harness.vo", "C06/GrammarAccept.vo", "C06/Tables.vo"])
    strings = gen_strings(ctx)
    with ctx.timed("impl"):
        scans = impl_scan(ctx, strings)
        obs = {f: impl_infer(ctx, strings, f) for f in FLAGS}
    # ---- search oracle (documented grammar in Python), always run: it is the failing-input search
    oracle_bad = []
    for f in FLAGS:
        for s, o in zip(strings, obs[f]):
            if ref_infer(s, f) != o:
                oracle_bad.append((f, s, o, ref_infer(s, f)))
    if not ok:
        # a proof obligation broke: look for a concrete failing input
        if oracle_bad:
            f, s, o, r = min(oracle_bad, key=lambda x: len(x[1]))
            ctx.violation({"broken": why, "flag": f, "input_hex": s.hex(), "input": s.decode("latin1"), "observed": o, "expected_by_grammar": r,
                           "how": f"printf '%s' | implrun infer {f}  (hex-encoded input)"})
        else:
            ctx.violation({"broken": why}, found_input=False)
        return
    # ---- correspondence in Coq
    terms, meta = [], []
    for f in FLAGS:
        for s, sc, o in zip(strings, scans, obs[f]):
            if f != "default" and len(s) <= 3 and ctx.tier == "quick" and ctx.rng.random() < 0.5:
                continue
            k = KIND.get(o[0], 9)
            v = o[1] if len(o) > 1 else 0
            terms.append(f"({FLAGN[f]}, {coq_bytes(s)}, {sc}, {k}, {coq_z(v)})")
            meta.append((f, s, sc, o))
            ctx.count((f, s), nontrivial=True)
    ctx.sample({"flag": meta[-1][0], "input": meta[-1][1].decode("latin1"), "scan": meta[-1][2], "observed": meta[-1][3]})
    for i in (7, 100, 1000):
        if i < len(meta):
            ctx.sample({"flag": meta[i][0], "input": meta[i][1].decode("latin1"), "scan": meta[i][2], "observed": meta[i][3]})
    with ctx.timed("coq_cases"):
        bad, err = coq_eval_mismatches(ctx, "C06", "C06.Model C06.Harness", "Z * bytes * Z * Z * Z", "chk", terms)
    ctx.cov["correspondence"] = {"cases": len(terms), "mismatches": len(bad)}
    if err:
        ctx.violation({"broken": "correspondence-evaluation", "detail": err[-2000:]}, found_input=False)
        return
    # report concrete failing inputs first (shortest first), then at most one model/implementation difference
    # on which the documented-grammar oracle agrees with the implementation
    with_input = sorted([i for i in bad if i >= 0 and ref_infer(meta[i][1], meta[i][0]) != meta[i][3]], key=lambda i: len(meta[i][1]))
    without = [i for i in bad if i >= 0 and i not in set(with_input)]
    for i in with_input[:3]:
        f, s, sc, o = meta[i]
        r = ref_infer(s, f)
        ctx.violation({"broken": "correspondence C06.Harness.chk", "flag": f, "input_hex": s.hex(), "input": s.decode("latin1"),
                       "observed": o, "observed_scan": sc, "expected_by_grammar": r, "class": classify_witness(s, o, r),
                       "mismatching_cases": len(bad)})
    if without and not with_input:
        f, s, sc, o = meta[without[0]]
        ctx.violation({"broken": "correspondence C06.Harness.chk (model and implementation differ, e.g. in the scan type; the documented-grammar oracle agrees with the implementation's inferred value)",
                       "flag": f, "input_hex": s.hex(), "observed": o, "observed_scan": sc, "mismatching_cases": len(bad)}, found_input=False)
    # oracle disagreements the correspondence did not see (cannot happen unless the model itself is off-grammar)
    for f, s, o, r in oracle_bad[:3]:
        if not any(meta[i][0] == f and meta[i][1] == s for i in bad):
            ctx.violation({"broken": "documented-grammar oracle", "flag": f, "input_hex": s.hex(), "observed": o, "expected_by_grammar": r,
                           "class": classify_witness(s, o, r)})
    cli_contexts(ctx)
    sort_contexts(ctx)
    known_probe(ctx)


def classify_witness(s, o, r):
    if re.fullmatch(rb"[+-]?[0-9]+", s) and o[0] == "string" and r[0] in ("float",):
        return "decimal-int-out-of-int64-range-infers-string"
    return "other"


SORT_VARIANTS = (("sort -nf", ["sort", "-nf", "x"]), ("sort -nr", ["sort", "-nr", "x"]), ("sort -nf x -f id", ["sort", "-nf", "x", "-f", "id"]),
                 ("sort -f g -nr x", ["sort", "-f", "g", "-nr", "x"]))


def sort_order_violation(ctx, vals, inferred, args, inp):
    """None, or the violation: output of `mlr <args>` on records id=i,g=i%2,x=vals[i] not ordered as the inferred kinds/values demand"""
    import struct
    from fractions import Fraction
    desc = "-nr" in args
    def exact(o):
        return Fraction(o[1]) if o[0] == "int" else Fraction(struct.unpack(">d", struct.pack(">Q", o[1]))[0])
    def fl(o):
        return float(o[1]) if o[0] == "int" else struct.unpack(">d", struct.pack(">Q", o[1]))[0]
    st, out, err = mlr_run(ctx, ["--ojson", "--jvquoteall"] + args, inp, timeout=90)
    if st != 0:
        return {"broken": "sort -n run failed", "args": args, "stdin": inp.decode("latin1"), "status": st, "stderr": err.decode("latin1")[-400:]}
    rows = json.loads(out.decode("utf-8", "replace"))
    ids = [int(r["id"]) for r in rows]
    groups = [ids] if "g" not in args else [[i for i in ids if i % 2 == 0], [i for i in ids if i % 2 == 1]]
    for grp in groups:
        bad = None
        kinds = [inferred[i][0] in ("int", "float") for i in grp]
        if not desc and kinds != sorted(kinds, reverse=True):
            bad = ("numbers must precede non-numbers", None, None)
        nums = [i for i in grp if inferred[i][0] in ("int", "float")]
        for a, b in zip(nums, nums[1:]):
            oa, ob = (inferred[b], inferred[a]) if desc else (inferred[a], inferred[b])
            if oa[0] == "int" and ob[0] == "int":
                wrong = oa[1] > ob[1]
            else:
                wrong = fl(oa) > fl(ob) and exact(oa) > exact(ob)
            if wrong and not bad:
                bad = ("adjacent output records out of numeric order", a, b)
        if bad:
            return {"broken": "sort -n disagrees with the inferred type/value of the field (the single classification): " + bad[0], "kind": "sort-n", "args": args,
                    "stdin": inp.decode("latin1"), "values_hex": [v.hex() for v in vals],
                    "pair": [vals[i].decode("latin1") for i in bad[1:] if i is not None], "inferred_pair": [str(inferred[i]) for i in bad[1:] if i is not None],
                    "observed_order": [vals[i].decode("latin1") for i in grp], "class": "sort-n-vs-inferred-value", "how": "mlr %s < stdin" % " ".join(args)}
    return None


def sort_contexts(ctx):
    """`sort -n` agrees with the single classification AND with the exact numeric value of every inferred number:
    values of every magnitude (adjacent integers beyond 2^53 / 2^62 / around +-2^63, hex and binary spellings incl. the
    two's-complement range, floats, leading-zero decimals, strings, empties) in random order through sort -nf / -nr / -nf with a
    second key / the DSL's sort function and < operator; in the output numbers come first, every adjacent pair of ints is ordered by
    its exact int64 value (the inferred values come from implrun infer), int/float and float/float pairs by their float64 values."""
    rng = ctx.rng
    nrounds = 4 if ctx.tier == "quick" else 60
    for rnd in range(nrounds):
        vals = []
        for _ in range(rng.randint(6, 14)):
            k = rng.choice([0, 1, 3, 8, 20, 31, 40, 52, 53, 54, 55, 60, 61, 62, 63])
            base = rng.choice([2 ** k, 2 ** k - 1, 2 ** 63 - 1 - rng.randint(0, 3), 10 ** rng.randint(15, 18)])
            base = min(base, 2 ** 63 - 1)
            run_ = [base - d for d in range(rng.randint(1, 4))]        # adjacent integers, DESCENDING in the input
            if rng.random() < 0.5:
                run_ = [-v - rng.randint(0, 1) for v in run_]
            for v in run_:
                v = max(-2 ** 63, min(2 ** 63 - 1, v))
                sp = rng.randrange(8)
                if sp == 0:
                    vals.append(b"0x%x" % (v % 2 ** 64) if (v < 0 or rng.random() < 0.3) else b"0x%x" % v)
                elif sp == 1 and v >= 0:
                    vals.append(b"0b" + bin(v)[2:].encode())
                elif sp == 2 and v >= 0:
                    vals.append(b"+%d" % v)
                else:
                    vals.append(b"%d" % v)
        vals += rng.sample([b"1.5", b"-2.5e3", b"9007199254740993.0", b"1e300", b"-1e-300", b"0.0", b"-0.0", b".5", b"5.", b"abc", b"", b"0x", b"1_000", b"08", b"007",
                            b"9223372036854775808", b"-9223372036854775809", b"1e19", b"inf", b"true", b"0xffffffffffffffff", b"0x8000000000000000"], 8)
        if rnd % 2:
            rng.shuffle(vals)
        inp = b"".join(b"id=%d,g=%d,x=%s\n" % (i, i % 2, v) for i, v in enumerate(vals))
        inferred = impl_infer(ctx, vals, "default")
        for how, args in SORT_VARIANTS:
            ctx.count(("sort-n", how, tuple(vals)))
            v = sort_order_violation(ctx, vals, inferred, args, inp)
            if v:
                ctx.violation(v, found_input="class" in v)
                return
        # the DSL's ordering operators on the same field values agree with the exact values as well
        ints = [(v, o[1]) for v, o in zip(vals, inferred) if o[0] == "int"]
        pairs = [(ints[i], ints[i + 1]) for i in range(len(ints) - 1)][:12]
        if pairs:
            inp2 = b"".join(b"a=%s,b=%s\n" % (p[0][0], p[1][0]) for p in pairs)
            st, out, err = mlr_run(ctx, ["--ojson", "put", '$lt = $a < $b; $eq = $a == $b; $ge = $a >= $b'], inp2, timeout=90)
            if st == 0:
                for p, r in zip(pairs, json.loads(out.decode("utf-8", "replace"))):
                    ctx.count(("sort-n-dsl", p[0][0], p[1][0]))
                    if r["lt"] != (p[0][1] < p[1][1]) or r["eq"] != (p[0][1] == p[1][1]) or r["ge"] != (p[0][1] >= p[1][1]):
                        ctx.violation({"broken": "DSL < / == / >= disagree with the exact inferred int values", "a": p[0][0].decode(), "b": p[1][0].decode(), "row": r,
                                       "class": "dsl-compare-vs-inferred-value"})
                        return


def known_probe(ctx):
    """out-of-range integers become floats (repaired by a fix: commit; reported again if it ever returns)."""
    o = impl_infer(ctx, [b"9223372036854775808"], "default")[0]
    ctx.cov["variant_probe"] = {"9223372036854775808": o}
    if o[0] != "float":
        ctx.violation({"class": "decimal-int-out-of-int64-range-infers-string", "input": "9223372036854775808", "observed": o,
                       "expected_by_property": "float 9.223372036854775808e18",
                       "theorem": "C06_int_overflow_becomes_float_instance"})


def cli_contexts(ctx):
    """typeof / asserting_* / is_* / arithmetic agree with the single classification, in each input context (through mlr)."""
    rng = ctx.rng
    vals = [b"1", b"-1", b"+1", b"0x10", b"-0x10", b"0b101", b"0o17", b"017", b"08", b"1.5", b"1e3", b".5", b"5.", b"-.5e-2", b"1_000", b"abc", b"true", b"inf", b"NaN",
            b"0xffffffffffffffff", b"9223372036854775807", b"-9223372036854775808", b"1e308", b"007.5", b"0e0", b"1e", b"0x", b"-", b"1 2"]
    prog = ('$t=typeof($x); $ii=is_int($x); $if=is_float($x); $is=is_string($x); $in=is_numeric($x); $ie=is_empty($x);'
            '$ai = is_int($x) ? typeof(asserting_int($x)) : "na"; $plus = typeof($x + 0); $neg = is_numeric($x) ? (($x . "") == $x) : "na"')
    recs = []
    for flagname, flagargs in (("default", []), ("S", ["-S"]), ("A", ["-A"]), ("O", ["-O"])):
        inp = b"".join(b"x=" + v + b"\n" for v in vals)
        rc, out, err = sh([ctx.mlr()] + flagargs + ["--ojson", "put", prog], inp=inp, binary=True, timeout=60)
        if rc != 0:
            ctx.violation({"broken": "cli-contexts", "flag": flagname, "stderr": err.decode("latin1")[-800:], "rc": rc}, found_input=True)
            return
        rows = json.loads(out.decode("utf-8", "replace"))
        model = impl_infer(ctx, vals, flagname)
        for v, row, m in zip(vals, rows, model):
            ctx.count(("cli", flagname, v))
            # -S / -A only change inference of field values when they are read from data: typeof must agree with the single classification
            want = {"int": "int", "float": "float", "string": "string", "empty": "empty"}[m[0]]
            ok = (row["t"] == want and row["ii"] == (want == "int") and row["if"] == (want == "float") and row["in"] == (want in ("int", "float"))
                  and row["is"] == (want == "string"))
            if want in ("int", "float"):
                ok = ok and row["plus"] == want
            if not ok:
                ctx.violation({"broken": "single-classification", "flag": flagname, "input": v.decode("latin1"), "row": row, "inferred": m,
                               "how": "mlr %s --ojson put '%s'" % (" ".join(flagargs), prog)})
                return
    # JSON string vs JSON number, under every inference flag, top level and nested, and through json_parse
    doc = b'[{"s":"123","n":123,"h":"0xff","f":1.5,"fs":"1.5","e":1e3,"neg":-7,"z":0,"arr":[1,2.5,"3"],"m":{"k":4,"ks":"4"}}]'
    prog = ('print typeof($s).",".typeof($n).",".typeof($h).",".typeof($f).",".typeof($fs).",".typeof($e).",".typeof($neg).",".typeof($z)'
            '.",".typeof($arr[1]).",".typeof($arr[2]).",".typeof($arr[3]).",".typeof($m["k"]).",".typeof($m["ks"])'
            '.",".typeof(json_parse("{\\"q\\":5}")["q"]).",".typeof(json_parse("{\\"q\\":5.5}")["q"])')
    for flagname, flagargs in (("default", []), ("S", ["-S"]), ("A", ["-A"]), ("O", ["-O"])):
        rc, out, err = sh([ctx.mlr()] + flagargs + ["--json", "put", "-q", prog], inp=doc, binary=True, timeout=60)
        ctx.count(("cli", "json", flagname))
        got = (out.decode("utf-8", "replace").splitlines() or [""])[0].strip()
        ctx.cov.setdefault("json_context", {})[flagname] = got
        num = lambda t: {"int": "int", "float": "float", "string": "string", "empty": "empty"}[impl_infer(ctx, [t], flagname)[0][0]]
        want = ",".join(["string", num(b"123"), "string", num(b"1.5"), "string", num(b"1e3"), num(b"-7"), num(b"0"),
                         num(b"1"), num(b"2.5"), "string", num(b"4"), "string", num(b"5"), num(b"5.5")])
        if got != want:
            ctx.violation({"broken": "json-context", "flag": flagname, "input": doc.decode(), "program": prog, "observed": got, "expected": want,
                           "note": "JSON string values are never inferred while JSON numbers are inferred by the same single classification as data fields (under -S/-A/-O too)",
                           "how": "mlr %s --json put -q '<program>' < doc" % " ".join(flagargs)})
    # DSL literals
    rc, out, err = sh([ctx.mlr(), "-n", "put", 'end{print typeof(123).",".typeof(0xff).",".typeof(1.5).",".typeof(1e3).",".typeof("123").",".typeof(0o17).",".typeof(-5)}'], timeout=60)
    ctx.count(("cli", "dsl"))
    got = out.strip()
    ctx.cov["dsl_literal_context"] = got
    if got != "int,int,float,float,string,int,int":
        ctx.violation({"broken": "dsl-literal-context", "observed": got, "expected": "int,int,float,float,string,int,int"})


def replay(ctx, path):
    obj = json.loads(Path(path).read_text())
    if obj.get("kind") == "sort-n":
        vals = [bytes.fromhex(h) for h in obj["values_hex"]]
        v = sort_order_violation(ctx, vals, impl_infer(ctx, vals, "default"), obj["args"], obj["stdin"].encode("latin1"))
        ctx.count(("replay", 1)); ctx.count(("replay", 2))
        print("replay: mlr %s -> %s" % (" ".join(obj["args"]), "still out of order: %s" % v["pair"] if v else "ordered"))
        if v:
            ctx.violation(dict(v, replayed=True))
        return
    s = bytes.fromhex(obj["input_hex"]) if "input_hex" in obj else obj["input"].encode("latin1")
    f = obj.get("flag", "default")
    o = impl_infer(ctx, [s], f)[0]
    r = ref_infer(s, f)
    print("replay: input=%r flag=%s observed=%s documented=%s" % (s, f, o, r))
    ctx.count((f, s)); ctx.count((f, s, 1))
    if o != r or (obj.get("class") == "decimal-int-out-of-int64-range-infers-string" and o[0] != "float"):
        ctx.violation(dict(obj, replayed=True, observed=o))
