"""C13 — join pairs exactly the matching records and accounts for every record once (DESIGN 3/C13)."""
import json, os, shutil, tempfile
from collections import Counter
from concurrent.futures import ThreadPoolExecutor
from vlib import *
from checks.c12 import verbrun, eval_batched

IFS, IPS = b"\x1f", b"\x1e"
SEPARGS = ["--ifs", "\x1f", "--ips", "\x1e", "--ofs", "\x1f", "--ops", "\x1e"]
NAMES = [b"a", b"b", b"c", b"x", b"y", b"id", b"k", b"L_a", b"R_a", b"j", b"j2", b"lj", b"rj", b"\xc3\xa9", b"a.b"]
KEYVALS = [b"", b"1", b"2", b"3", b"10", b"a", b"b", b"A", b"ab", b"1", b"2", b"x,y", b" ", b"01", b"a!"]
# join values holding the joiner of the bucket key at an edge, doubled or alone: non-empty values that any test made on the
# comma-joined key text (instead of on the values) confuses with empty ones
EDGEVALS = [b"x,", b",y", b"a,,b", b",", b"x", b"y", b"", b",,"]
VALS = [b"", b"1", b"2", b"p", b"q", b"r", b"0x10", b"1e3", b"x y", b"\xc3\xa9", b"l", b"w"]


def enc(recs):
    return b"".join(IFS.join(k + IPS + v for k, v in r) + b"\n" for r in recs)


def dec(out):
    recs = []
    for line in out.split(b"\n")[:-1]:
        if line == b"":
            recs.append([])
            continue
        recs.append([tuple(f.partition(IPS)[::2]) for f in line.split(IFS)])
    return recs


def enc_csv(recs):
    hdr = [k for k, _ in recs[0]]
    return IFS.join(hdr) + b"\n" + b"".join(IFS.join(v for _, v in r) + b"\n" for r in recs)


def enc_json(recs):
    return json.dumps([{k.decode("utf-8"): v.decode("utf-8") for k, v in r} for r in recs]).encode("utf-8")


def gen_case(rng, tier):
    n = 1 if rng.random() < 0.65 else 2
    oj = rng.sample([b"j", b"j2", b"id", b"k"], n)
    lj = list(oj) if rng.random() < 0.6 else rng.sample([b"lj", b"a", b"id", b"j"], n)
    rj = list(oj) if rng.random() < 0.6 else rng.sample([b"rj", b"b", b"k", b"j"], n)
    # input names that are the output names in another order / overlapping them (-j a,b -l b,a; -j a,b -r b,c): the renaming
    # of join fields must be simultaneous, not one field after the other
    if n == 2 and rng.random() < 0.25:
        lj = rng.choice([oj[::-1], [oj[1], b"lj"], [b"lj", oj[0]], list(oj)])
        rj = rng.choice([oj[::-1], [oj[1], b"rj"], [b"rj", oj[0]], list(oj)])
    lp = rng.choice([b"", b"", b"", b"L_"])
    rp = rng.choice([b"", b"", b"", b"R_"])
    lk = None
    if rng.random() < 0.2:
        lk = [] if rng.random() < 0.4 else rng.sample(NAMES, rng.randint(1, 3))
    while True:
        np_, ul, ur = rng.random() < 0.25, rng.random() < 0.5, rng.random() < 0.5
        if not np_ or ul or ur:
            break
    ie = rng.random() < 0.35
    sorted_mode = rng.random() < 0.4
    kv = rng.sample(KEYVALS, rng.randint(2, 5))
    if rng.random() < 0.15:
        kv = rng.sample(EDGEVALS, rng.randint(3, 6))
        ie = ie or rng.random() < 0.6

    def side(jn, m, homog):
        other = rng.sample(NAMES, rng.randint(0, 3))
        recs = []
        for _ in range(m):
            r, seen = [], set()
            names = list(jn)
            if not homog:
                other_here = [f for f in other if rng.random() < 0.8] + ([rng.choice(NAMES)] if rng.random() < 0.2 else [])
            else:
                other_here = other
            fields = [(f, True) for f in names if homog or rng.random() < 0.88] + [(f, False) for f in other_here]
            if not homog:
                rng.shuffle(fields)
            for f, isj in fields:
                if f in seen:
                    continue
                seen.add(f)
                r.append((f, rng.choice(kv) if (isj or f in lj or f in rj) else rng.choice(VALS)))
            if r:
                recs.append(r)
        return recs
    fmt = rng.choice(["dkvp"] * 6 + ["csv", "json"])
    left = side(lj, rng.choice([0, 1, 2, 3, 5, 8]), fmt != "dkvp")
    right = side(rj, rng.choice([0, 1, 2, 3, 5, 8]), False)
    if fmt != "dkvp" and (not left or any(b"\xff" in k for r in left for k, _ in r)):
        fmt = "dkvp"
    presorted = False
    if sorted_mode and rng.random() < 0.75:
        presorted = True
        # "sorted by the join keys" = the records that HAVE the keys are in order; key-less ones (missing field, or empty
        # value under --ignore-empty) stay wherever they are -- beginning, middle, end
        def presort(recs, names, keep):
            kvs = [keyvals(keep(r), names, ie) for r in recs]
            keyed = sorted((kv, i) for i, kv in enumerate(kvs) if kv is not None)
            it = iter(keyed)
            return [recs[next(it)[1]] if kv is not None else recs[i] for i, kv in enumerate(kvs)]
        keepf = (lambda r: r) if lk is None else (lambda r: [(k, v) for k, v in r if k in set(lk) | set(lj)])
        left = presort(left, lj, keepf); right = presort(right, rj, lambda r: r)
    return dict(lj=lj, rj=rj, oj=oj, lp=lp, rp=rp, lk=lk, np=np_, ul=ul, ur=ur, ie=ie, sorted=sorted_mode, presorted=presorted,
                fmt=fmt, left=left, right=right)


def tagged(c, sorted_mode):
    """the same case with every record carrying a unique tag (lid / rid), --ul --ur and pairs on: the output then says
    which input record each output record came from, whatever the duplicates"""
    d = dict(c)
    d["left"] = [list(r) + [(b"lid", b"%d" % i)] for i, r in enumerate(c["left"])]
    d["right"] = [list(r) + [(b"rid", b"%d" % j)] for j, r in enumerate(c["right"])]
    d["lk"] = None if c["lk"] is None else list(c["lk"]) + [b"lid"]
    d["np"], d["ul"], d["ur"], d["sorted"], d["tagged"] = False, True, True, sorted_mode, True
    return d


def exactly_once(c, out):
    """with --ul --ur every input record appears exactly once, as paired or as unpaired -- in either mode, on ANY input
    (sorted or not); pairs are genuine matches and have the documented layout"""
    left = [keep_left(c, l) for l in c["left"]]
    ln, rn = c["lp"] + b"lid", c["rp"] + b"rid"
    seenl, seenr, pairs = {}, {}, set()
    for rec in out:
        d = dict(rec)
        i = int(d[ln]) if ln in d and d[ln].isdigit() else None
        j = int(d[rn]) if rn in d and d[rn].isdigit() else None
        if i is None and j is None:
            return ("join-exactly-once", "an output record comes from no input record")
        if i is not None and j is not None:
            if (i, j) in pairs:
                return ("join-exactly-once", "the same (left, right) pair is emitted twice")
            pairs.add((i, j))
            kl, kr = keyvals(left[i], c["lj"], c["ie"]), keyvals(c["right"][j], c["rj"], c["ie"])
            if kl is None or kl != kr:
                return ("join-exactly-once", "a pair is emitted whose join values differ")
            if rec != compose(c, left[i], c["right"][j]):
                return ("join-layout", "paired record is not join fields, then left, then right non-join fields")
        elif i is not None:
            if rec != unpaired(c, left[i], c["lj"], c["lp"]):
                return ("join-layout", "left-unpaired record is not the input record renamed")
        else:
            if rec != unpaired(c, c["right"][j], c["rj"], c["rp"]):
                return ("join-layout", "right-unpaired record is not the input record renamed")
        for side, idx, other in ((seenl, i, j), (seenr, j, i)):
            if idx is not None:
                side.setdefault(idx, []).append(other)
    for side, n, name in ((seenl, len(left), "left"), (seenr, len(c["right"]), "right")):
        for idx in range(n):
            occ = side.get(idx, [])
            if not occ:
                return ("join-exactly-once", "a %s record appears nowhere in the output (--ul --ur)" % name)
            if None in occ and len(occ) > 1:
                return ("join-exactly-once", "a %s record is emitted as unpaired and also paired / twice as unpaired" % name)
    return None


def fixed_cases():
    """hand-made sorted-mode inputs run through the same pipeline (model correspondence + oracles) on every run"""
    base = dict(lp=b"", rp=b"", lk=None, np=False, ul=True, ur=True, ie=False, sorted=True, presorted=True, fmt="dkvp")
    two = dict(base, lj=[b"j", b"j2"], rj=[b"j", b"j2"], oj=[b"j", b"j2"])
    one = dict(base, lj=[b"id"], rj=[b"id"], oj=[b"id"])
    out = []
    # field-by-field order differs from the order of the comma-joined text ('!' < ','): -s documents the former
    out.append(dict(two, left=[[(b"j", b"a"), (b"j2", b"x"), (b"l", b"1")], [(b"j", b"a!"), (b"j2", b"x"), (b"l", b"2")]],
                    right=[[(b"j", b"a"), (b"j2", b"x"), (b"r", b"3")], [(b"j", b"a!"), (b"j2", b"x"), (b"r", b"4")]]))
    # key-less left records at the beginning, inside a run of equal keys, between runs, at the end
    nk = lambda t: [(b"l", t)]
    L = [nk(b"k0"), [(b"id", b"1"), (b"l", b"a")], nk(b"k1"), [(b"id", b"1"), (b"l", b"b")], nk(b"k2"), [(b"id", b"2"), (b"l", b"c")],
         nk(b"k3"), [(b"id", b"4"), (b"l", b"d")], nk(b"k4")]
    R = [[(b"r", b"nokey")], [(b"id", b"0"), (b"r", b"p")], [(b"id", b"1"), (b"r", b"q")], [(b"id", b"1"), (b"r", b"s")], [(b"id", b"3"), (b"r", b"t")],
         [(b"id", b"4"), (b"r", b"u")], [(b"id", b"5"), (b"r", b"v")]]
    for ul in (True, False):
        for np_ in (False, True):
            out.append(dict(one, left=L, right=R, ul=ul, np=np_))
    # empty keys: key-less under --ignore-empty (never paired), ordinary smallest key without it
    Le = [[(b"id", b""), (b"l", b"e0")], [(b"id", b"1"), (b"l", b"a")], [(b"id", b""), (b"l", b"e1")], [(b"id", b"2"), (b"l", b"b")]]
    Re = [[(b"id", b""), (b"r", b"e")], [(b"id", b"1"), (b"r", b"q")], [(b"id", b"2"), (b"r", b"s")]]
    out.append(dict(one, left=Le, right=Re, ie=True))
    out.append(dict(one, left=sorted(Le, key=lambda r: dict(r)[b"id"]), right=Re, ie=False))
    # -s on unsorted input: key 1 comes back after key 2 (tagged: exactly-once accounting)
    U = dict(one, presorted=False, left=[[(b"id", b"1"), (b"l", b"a")], [(b"id", b"2"), (b"l", b"b")], [(b"id", b"1"), (b"l", b"c")], [(b"l", b"d")]],
             right=[[(b"id", b"1"), (b"r", b"p")], [(b"id", b"2"), (b"r", b"q")], [(b"id", b"1"), (b"r", b"s")], [(b"id", b"0"), (b"r", b"t")]])
    out += [U, tagged(U, True)]
    return out


def csvl(fs):
    return b",".join(fs).decode("latin1")


def mlr_args(c, leftpath, force_unsorted=False):
    a = ["join"]
    if c["fmt"] == "csv":
        a += ["-i", "csv"]
    elif c["fmt"] == "json":
        a += ["-i", "json"]
    a += ["-j", csvl(c["oj"])]
    if c["lj"] != c["oj"]:
        a += ["-l", csvl(c["lj"])]
    if c["rj"] != c["oj"]:
        a += ["-r", csvl(c["rj"])]
    if c["lp"]:
        a += ["--lp", c["lp"].decode()]
    if c["rp"]:
        a += ["--rp", c["rp"].decode()]
    if c["lk"] is not None:
        a += ["--lk", csvl(c["lk"])]
    for f, n in (("np", "--np"), ("ul", "--ul"), ("ur", "--ur"), ("ie", "--ignore-empty")):
        if c[f]:
            a.append(n)
    if c["sorted"] and not force_unsorted:
        a.append("-s")
    elif force_unsorted or c.get("dash_u"):
        a.append("-u")
    a += ["-f", leftpath]
    return a


def write_left(c, tmpdir, idx):
    p = os.path.join(tmpdir, "left%d" % idx)
    data = enc(c["left"]) if c["fmt"] == "dkvp" else enc_csv(c["left"]) if c["fmt"] == "csv" else enc_json(c["left"])
    with open(p, "wb") as f:
        f.write(data)
    return p


def run_case_cli(ctx, c, tmpdir, idx, force_unsorted=False, prepipe=None):
    """end-to-end through the mlr command line (expensive); prepipe: the left file is gzipped and read through
    join's own --prepipe / --prepipex / --gzin option"""
    p = write_left(c, tmpdir, idx)
    args = mlr_args(c, p, force_unsorted)
    if prepipe:
        import gzip
        with open(p, "rb") as f, open(p + ".gz", "wb") as g:
            g.write(gzip.compress(f.read()))
        args = args[:-2] + prepipe + ["-f", p + ".gz"]
    st, out, err = mlr_run(ctx, SEPARGS + args, enc(c["right"]), timeout=60)
    return st, (dec(out) if st == 0 else None), err


def run_cases(ctx, cases, tmpdir, idxs=None, force_unsorted=False):
    """through implrun verbrun (the join verb constructed by its own ParseCLIFunc, reading the left file itself)"""
    idxs = list(range(len(cases))) if idxs is None else idxs
    return verbrun(ctx, [(mlr_args(cases[i], write_left(cases[i], tmpdir, i), force_unsorted), cases[i]["right"]) for i in idxs])


def run_case(ctx, c, tmpdir, idx, force_unsorted=False):
    return run_cases(ctx, [c], tmpdir, None, force_unsorted)[0] if idx == 0 else verbrun(
        ctx, [(mlr_args(c, write_left(c, tmpdir, idx), force_unsorted), c["right"])], nproc=1)[0]


# ------------------------------------------------------------------ the property, evaluated independently (nested loop)
def keyvals(r, names, ie):
    d = dict(r)
    if any(n not in d for n in names):
        return None
    vs = tuple(d[n] for n in names)
    if ie and any(v == b"" for v in vs):
        return None
    return vs


def put(out, k, v):
    for i, (k2, _) in enumerate(out):
        if k2 == k:
            out[i] = (k, v)
            return
    out.append((k, v))


def compose(c, l, r):
    out = []
    d = dict(l)
    for a, b in zip(c["lj"], c["oj"]):
        if a in d:
            put(out, b, d[a])
    for k, v in l:
        if k not in c["lj"]:
            put(out, c["lp"] + k, v)
    for k, v in r:
        if k not in c["rj"]:
            put(out, c["rp"] + k, v)
    return out


def unpaired(c, r, names, prefix):
    if names == c["oj"] and prefix == b"":
        return list(r)
    m = dict(zip(names, c["oj"]))
    out = []
    for k, v in r:
        put(out, m[k] if k in m else prefix + k, v)
    return out


def keep_left(c, l):
    if c["lk"] is None:
        return l
    keep = set(c["lk"]) | set(c["lj"])
    return [(k, v) for k, v in l if k in keep]


def spec(c):
    """(in-order part: per right record its pairs or its unpaired form; left-unpaired part as a list)"""
    left = [keep_left(c, l) for l in c["left"]]
    lkeys = [keyvals(l, c["lj"], c["ie"]) for l in left]
    ordered, matched = [], set()
    for r in c["right"]:
        k = keyvals(r, c["rj"], c["ie"])
        hits = [i for i, lk in enumerate(lkeys) if k is not None and lk == k]
        matched.update(hits)
        if hits:
            if not c["np"]:
                ordered += [compose(c, left[i], r) for i in hits]
        elif c["ur"]:
            ordered.append(unpaired(c, r, c["rj"], c["rp"]))
    lun = [unpaired(c, left[i], c["lj"], c["lp"]) for i in range(len(left)) if i not in matched] if c["ul"] else []
    return ordered, lun


def canon(recs):
    return Counter(tuple(r) for r in recs)


def oracle(c, out):
    if c.get("tagged"):
        o = exactly_once(c, out)
        if o:
            return o
    ordered, lun = spec(c)
    if c["sorted"]:
        if not c["presorted"]:
            return None     # -s on unsorted input: "not all records will be paired" (documented); only the model is compared
        if canon(out) != canon(ordered + lun):
            return ("join-sorted", "sorted-input mode does not yield the multiset of the nested-loop join")
        return None
    if canon(out) != canon(ordered + lun):
        return ("join-multiset", "output is not the nested-loop pairs plus the requested unpaired records, each exactly once")
    lunc = canon(lun)
    # right-stream order: removing the left-unpaired records must leave exactly the in-order part
    rest, need = [], Counter(lunc)
    for r in reversed(out):           # left-unpaireds come last in unsorted mode; strip from the end
        if need[tuple(r)] > 0 and len(rest) == 0:
            need[tuple(r)] -= 1
        else:
            rest.append(r)
    rest.reverse()
    if rest != ordered and canon(rest) == canon(ordered):
        return ("join-order", "paired / right-unpaired records are not in right-stream then left-file order")
    return None


def coq_opts(c):
    lkterm = "None" if c["lk"] is None else "(Some %s)" % coq_list([coq_bytes(x) for x in c["lk"]])
    fl = "(%s, %s, %s, %s)" % tuple(coq_bool(c[f]) for f in ("np", "ul", "ur", "ie"))
    L = lambda xs: coq_list([coq_bytes(x) for x in xs])
    return f"(mk {L(c['lj'])} {L(c['rj'])} {L(c['oj'])} {coq_bytes(c['lp'])} {coq_bytes(c['rp'])} {lkterm} {fl})"


def show(c):
    d = dict(c)
    d["left"], d["right"] = repr(c["left"]), repr(c["right"])
    return {k: (repr(v) if isinstance(v, (bytes, list)) and k not in ("left", "right") else v) for k, v in d.items()}


def run(ctx):
    ctx.cov["rule"] = ("left files (0-8 records; dkvp with 0x1f/0x1e separators, csv, json) and right streams (0-8 records) with duplicate keys on both sides, "
                       "missing join fields, empty keys, heterogeneous fields, name collisions between sides and with output names; 1-2 join fields; "
                       "-j/-l/-r/--lp/--rp/--lk/--np/--ul/--ur/--ignore-empty/-s/-u combinations; -s both on key-sorted and on unsorted inputs; "
                       "compared: the whole output stream of mlr against the Coq model (join_unsorted / join_sorted) under vm_compute; "
                       "plus a nested-loop oracle on mlr's output (multiset + right-stream order) and sorted-vs-unsorted agreement on sorted inputs")
    ctx.cov["trusted_base"] = ["Coq 8.16.1 kernel + vm_compute", "no axioms (Print Assumptions: closed under the global context)",
                               "python harness; mlr's DKVP/CSV/JSON readers and DKVP writer as transport"]
    ctx.assumptions = ["the left-file reader goroutine/channel and --prepipe are not modelled (the left file is a list of records)",
                       "the heterogeneity of contexts (NR, FILENAME) on emitted records is not observed"]
    forbidden_gate(ctx, ["Base", "C13"])
    ok, why = check_props(ctx, "C13/Props.v", ["C13/Harness.vo", "C13/Proofs.vo", "C13/ProofsSorted.vo", "C13/ProofsMerge.vo", "C13/ProofsOrder.vo"])
    rng = ctx.rng
    n = 420 if ctx.tier == "quick" else 5000
    cases = [gen_case(rng, ctx.tier) for _ in range(n)]
    # tagged twins (unique lid / rid per record, --ul --ur): exactly-once accounting in BOTH modes, -s on unsorted inputs included
    nt = 50 if ctx.tier == "quick" else 600
    base = [c for c in cases if c["left"] and c["right"]][:nt]
    cases += [tagged(c, True) for c in base] + [tagged(c, False) for c in base]
    cases += fixed_cases()
    tmpdir = tempfile.mkdtemp(prefix="verif-c13-")
    try:
        with ctx.timed("impl"):
            res = run_cases(ctx, cases, tmpdir)
            # sorted-input cases on sorted input: also run the default mode on the same input
            twin_idx = [i for i, c in enumerate(cases) if c["sorted"] and c["presorted"]]
            twins = dict(zip(twin_idx, run_cases(ctx, cases, tmpdir, twin_idx, force_unsorted=True)))
        terms, meta, oracle_bad = [], [], []
        for i, (c, (st, out, err)) in enumerate(zip(cases, res)):
            ctx.dist("mode:" + ("sorted" if c["sorted"] else "unsorted") + ("/presorted" if c["presorted"] else "") + ("/tagged" if c.get("tagged") else ""))
            if c["sorted"] and c["presorted"]:
                lk_ = [keyvals(keep_left(c, l), c["lj"], c["ie"]) for l in c["left"]]
                if None in lk_ and any(k is not None for k in lk_[:len(lk_) - 1 - lk_[::-1].index(None)]):
                    ctx.dist("sorted-left-with-keyless-record-after-a-keyed-one")
            ctx.dist("leftfmt:" + c["fmt"])
            ctx.dist("flags:" + "".join(f for f in ("np", "ul", "ur", "ie") if c[f]))
            ctx.count(repr(sorted(c.items(), key=lambda kv: kv[0])))
            if st != 0:
                oracle_bad.append((c, None, ("mlr-failed", err.decode("latin1")[-300:])))
                continue
            o = oracle(c, out)
            if not o and i in twins:
                st2, out2, _ = twins[i]
                if st2 != 0 or canon(out2) != canon(out):
                    o = ("join-sorted-vs-unsorted", "on key-sorted inputs -s and the default mode give different multisets of records")
            if o:
                oracle_bad.append((c, out, o))
            terms.append(f"({coq_bool(c['sorted'])}, {coq_opts(c)}, {coq_records(c['left'])}, {coq_records(c['right'])}, {coq_records(out)})")
            meta.append((c, out))
        for i in (0, len(meta) // 3, len(meta) // 2, len(meta) - 1):
            ctx.sample({"case": show(meta[i][0]), "observed": repr(meta[i][1])})

        def report_oracle():
            seen = set()
            for c, out, (cls, msg) in oracle_bad:
                if cls in seen:
                    continue
                seen.add(cls)
                ctx.violation({"broken": "property oracle: " + msg, "case": show(c), "args": mlr_args(c, "<left file>"), "left_hex": enc(c["left"]).hex(),
                               "right_hex": enc(c["right"]).hex(), "observed": repr(out), "expected": repr(spec(c)), "class": cls})
        if not ok:
            if oracle_bad:
                report_oracle()
            else:
                ctx.violation({"broken": why}, found_input=False)
            return
        with ctx.timed("coq_cases"):
            bad, err = eval_batched(ctx, "C13", "Base.Record C13.Model C13.Harness", "bool * opts * list record * list record * list record", terms, shard=150)
        ctx.cov["correspondence"] = {"cases": len(terms), "mismatches": len(bad)}
        if err:
            ctx.violation({"broken": "correspondence-evaluation", "detail": err[-2000:]}, found_input=False)
            return
        report_oracle()
        flagged = set(id(c) for c, _, _ in oracle_bad)
        rep = 0
        for i in bad:
            c, out = meta[i]
            if id(c) in flagged:
                continue
            ctx.violation({"broken": "correspondence C13.Harness.chk (model and implementation differ; the nested-loop oracle accepts the implementation's output)",
                           "case": show(c), "args": mlr_args(c, "<left file>"), "observed": repr(out)}, found_input=False)
            rep += 1
            if rep >= 3:
                break
        with ctx.timed("cli_tie"):
            ok_ = [i for i, c in enumerate(cases) if c["left"] and c["right"]]
            picks = ok_[:6]
            for want, m in ((lambda c: c["fmt"] == "csv", 3), (lambda c: c["fmt"] == "json", 3),
                            (lambda c: c["lj"] != c["rj"] and c["lj"] != c["oj"], 2), (lambda c: c["sorted"] and c["fmt"] != "dkvp", 2)):
                picks += [i for i in ok_ if want(cases[i]) and i not in picks][:m]
            # the left file gzipped and read through join's own --prepipe / --prepipex / --gzin, both modes
            PP = [["--prepipe", "gunzip <"], ["--prepipex", "gunzip -c"], ["--gzin"]]
            pp_picks = [i for i in ok_ if cases[i]["sorted"]][:2] + [i for i in ok_ if not cases[i]["sorted"] and cases[i]["fmt"] != "dkvp"][:2]
            jobs = [(i, None) for i in picks] + [(i, PP[n % 3]) for n, i in enumerate(pp_picks)]
            with ThreadPoolExecutor(3) as ex:
                cli = list(ex.map(lambda j: run_case_cli(ctx, cases[j[0]], tmpdir, j[0], prepipe=j[1]), jobs))
            for (i, pp), (st, o, err) in zip(jobs, cli):
                ctx.count(("cli", i, repr(pp)))
                ctx.dist("cli-tie" + ("/left-file-" + pp[0] if pp else "") + "/left-" + cases[i]["fmt"])
                if (st, o) != (res[i][0], res[i][1]):
                    ctx.violation({"broken": "command line and in-process driver disagree", "case": show(cases[i]), "args": mlr_args(cases[i], "<left file>"), "prepipe": pp,
                                   "observed_cli": repr(o) if st == 0 else err.decode("latin1")[-300:], "observed_driver": repr(res[i][1])}, found_input=False)
                    break
        defect_probes(ctx, tmpdir)
    finally:
        shutil.rmtree(tmpdir, ignore_errors=True)


def defect_probes(ctx, tmpdir):
    # two join fields whose values contain the internal "," joiner: equal as joined text, different as values
    c = dict(lj=[b"j", b"j2"], rj=[b"j", b"j2"], oj=[b"j", b"j2"], lp=b"", rp=b"", lk=None, np=False, ul=True, ur=True, ie=False, sorted=False,
             presorted=False, fmt="dkvp", left=[[(b"j", b"x,y"), (b"j2", b"z"), (b"l", b"1")]], right=[[(b"j", b"x"), (b"j2", b"y,z"), (b"r", b"2")]])
    st, out, err = run_case(ctx, c, tmpdir, 999999)
    ctx.count(("probe", "comma"))
    ctx.dist("defect-probe")
    if st != 0 or oracle(c, out):
        ctx.violation({"class": "join-key-comma-collision", "case": show(c), "args": mlr_args(c, "<left file>"), "observed": repr(out),
                       "expected": repr(spec(c)), "note": "unsorted join buckets by the values joined with ','"})


def replay(ctx, path):
    import ast
    obj = json.loads(Path(path).read_text())
    c = obj["case"]
    for k in ("lj", "rj", "oj", "lp", "rp", "lk", "left", "right"):
        if isinstance(c[k], str):
            c[k] = ast.literal_eval(c[k])
    tmpdir = tempfile.mkdtemp(prefix="verif-c13-")
    try:
        st, out, err = run_case(ctx, c, tmpdir, 0)
        o = oracle(c, out) if st == 0 else ("mlr-failed", "")
        print("replay: args=%r observed=%r oracle=%r" % (mlr_args(c, "<left>"), out, o))
        ctx.count(("replay", repr(c)))
        if o:
            ctx.violation(dict(obj, replayed=True, observed=repr(out)))
    finally:
        shutil.rmtree(tmpdir, ignore_errors=True)
