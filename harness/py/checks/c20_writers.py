"""C20, per-writer part: the writer-generic model of the repaired manager (coq/C20/Generic.v over coq/C20/Writers.v).

Histories with HETEROGENEOUS records (schema changes inside one target, shorter / empty records, empty values, CSV cells
needing quotes) are run through the REAL MultiOutputHandlerManager with the REAL record writer and writer options
(implrun lru-ops with "opts") and every file is compared byte-for-byte with Generic.finalG (HarnessG.writer_of ...) under
vm_compute.  Oracle (implementation vs implementation, independent of the Coq model): a target file must be exactly
base ++ what `mlr --ijsonl --o<fmt> <flags> cat` -- ONE main-stream writer, never suspended -- prints for the records routed
to that target.
"""
import json, os
from vlib import *

FCODE = {"dkvp": 0, "nidx": 1, "jsonl": 2, "csv": 3, "json": 4, "tsv": 5, "xtab": 6, "pprint": 7, "markdown": 8, "csvlite": 9}
FLAGBIT = {"headerless": 0, "barred": 1, "right": 2, "nojlistwrap": 3, "nojvstack": 4, "mdaligned": 5, "quoteall": 6, "crlf": 7}
OPTS_FOR = {
    "dkvp": ["crlf"], "nidx": ["crlf"], "jsonl": [], "csv": ["headerless", "quoteall", "crlf"], "json": ["nojlistwrap", "nojvstack"],
    "tsv": ["headerless", "crlf"], "xtab": ["right"], "pprint": ["headerless", "barred", "right", "crlf"],
    "markdown": ["mdaligned", "crlf"], "csvlite": ["headerless", "crlf"], "yaml": [],
}
MLRFLAG = {"headerless": {"csv": "--headerless-csv-output", "tsv": "--headerless-tsv-output", "pprint": "--headerless-pprint-output",
                          "csvlite": "--headerless-csv-output"},
           "barred": "--barred-output", "right": {"pprint": "--right", "xtab": "--right-align-xtab"}, "nojlistwrap": "--no-jlistwrap", "nojvstack": "--no-jvstack",
           "mdaligned": "--omd-aligned", "quoteall": "--quote-all", "crlf": ["--ors", "crlf"]}
MODEN = {"write": 0, "append": 1, "pipe": 2}
VAL = "abcdefghijklmnopqrstuvwxyzABCDEFGHIJKLMNOPQRSTUVWXYZ0123456789_.-"
CASETY = "Z * Z * Z * Z * list (bytes * Z * record * bytes) * list (bytes * bytes) * list (bytes * bytes) * Z"
OPTY = "bytes * Z * record * bytes"


def flags_of(opts):
    return sum(1 << FLAGBIT[k] for k, v in opts.items() if v)


def rval(rng, fmt):
    r = rng.random()
    if r < 0.12 and fmt in ("pprint", "csv", "tsv", "csvlite", "json", "jsonl", "dkvp", "markdown"):
        return ""                                   # PPRINT writes "-" (not when barred); CSV writes nothing between the commas
    s = "".join(rng.choice(VAL) for _ in range(rng.randint(1, 5)))
    if fmt == "csv" and r > 0.9:
        s = rng.choice(['a,b', 'say "hi"', ' lead', 'x y', 'trail '])      # quoting decision of the CSV writer (C01's model)
    if fmt == "markdown" and r > 0.92:
        s = "a|b"
    return s


def gen_case(rng, fmt, ntargets, order, cap):
    """records per target drawn from 2-3 schemas; CSV/TSV: records are prefixes of the first schema ("unset fill") unless a schema
    change is wanted (the writer reports an error: the case is then checked for the error only)"""
    schemas = {}
    ops = []
    want_error = fmt in ("csv", "tsv") and rng.random() < 0.08
    for i, t in enumerate(order):
        if t not in schemas:
            base = ["a", "b", "c"][:rng.randint(1, 3)] if rng.random() < 0.6 else ["k%d" % j for j in range(rng.randint(1, 4))]
            alts = [base, base[::-1] if len(base) > 1 else ["z"], base + ["x"]]
            schemas[t] = alts
        alts = schemas[t]
        if fmt in ("csv", "tsv"):
            ks = alts[0]
            r = rng.random()
            if r < 0.2 and len(ks) > 1:
                ks = ks[:rng.randint(1, len(ks) - 1)]                       # fewer fields: filled with empties
            elif r < 0.3:
                ks = alts[2]                                                 # one more field: written at its own length ("data length" change)
            elif want_error and r > 0.8:
                ks = alts[1]
        else:
            ks = alts[0] if rng.random() < 0.6 else rng.choice(alts)
            if fmt in ("csvlite", "pprint", "json", "jsonl", "dkvp") and rng.random() < 0.04:
                ks = []                                                      # a record without fields
        ops.append((t, 0, [(k, (str(i) if j == 0 else rval(rng, fmt))) for j, k in enumerate(ks)]))
    return ops


def mlr_single_doc(ctx, fmt, opts, recs):
    """what ONE main-stream writer prints for these records"""
    args = ["--ijsonl", "--o" + {"markdown": "md"}.get(fmt, fmt)]
    for k, v in opts.items():
        if not v:
            continue
        f = MLRFLAG[k]
        if isinstance(f, dict):
            f = f[fmt]
        args += f if isinstance(f, list) else [f]
    inp = "".join(json.dumps(dict(r)) + "\n" for r in recs)
    st, out, err = mlr_run(ctx, args + ["cat"], inp.encode(), timeout=60)
    return st, out.decode("latin1")


def term(name, c, cap, chunk=40):
    def cbs(b):
        if isinstance(b, str):
            b = b.encode("latin1")
        if all((32 <= x < 127) or x == 10 for x in b):
            return '(B "%s")' % b.decode("ascii").replace('"', '""')
        return coq_bytes(b)

    def op_t(o):
        t, kind, x = o
        if kind == 0:
            return "(%s, 0, [%s], [])" % (coq_bytes(t), "; ".join("(%s, %s)" % (cbs(k), cbs(v)) for k, v in x))
        return "(%s, 1, [], %s)" % (coq_bytes(t), cbs(x))
    out, onames, anames = [], [], []
    ops = c["ops"]
    for j in range(0, len(ops), chunk):
        n = "%s_o%d" % (name, j // chunk)
        onames.append(n)
        out.append("Definition %s : list (%s) := [%s]." % (n, OPTY, ";\n ".join(op_t(o) for o in ops[j:j + chunk])))
    fl = sorted(c["after"].items())
    for j in range(0, len(fl), chunk):
        n = "%s_a%d" % (name, j // chunk)
        anames.append(n)
        out.append("Definition %s : list (bytes * bytes) := [%s]." % (n, "; ".join("(%s, %s)" % (coq_bytes(t), cbs(x)) for t, x in fl[j:j + chunk])))
    before = c["before"] if c["mode"] != "pipe" else {}
    bf = "[" + "; ".join("(%s, %s)" % (coq_bytes(t), cbs(x)) for t, x in sorted(before.items())) + "]"
    out.append("Definition %s : %s := (%d, %d, %d, %d, List.concat [%s], %s, List.concat [%s], %d)." % (
        name, CASETY, MODEN[c["mode"]], FCODE[c["fmt"]], flags_of(c["opts"]), cap, "; ".join(onames), bf, "; ".join(anames),
        1 if c.get("errors") else 0))
    return "\n".join(out)


def build(ctx, cap):
    rng = ctx.rng
    cases = []
    fmts = list(FCODE)
    nsmall = 160 if ctx.tier == "quick" else 2500
    for i in range(nsmall):
        fmt = fmts[i % len(fmts)]
        opts = {k: rng.random() < 0.4 for k in OPTS_FOR[fmt]}
        mode = rng.choice(["write", "write", "append", "pipe"] if i % 9 == 0 else ["write", "append"])
        nt = rng.randint(1, 4)
        names = ["w%d" % j for j in range(nt)]
        order = [rng.choice(names) for _ in range(rng.randint(1, 18))]
        ops = gen_case(rng, fmt, nt, order, cap)
        before = {}
        if mode == "append":
            before = {t: "old-" + t + "\n" for t in names if rng.random() < 0.4}
        cases.append({"mode": mode, "fmt": fmt, "opts": opts, "ops": ops, "before": before, "pattern": "writers-small"})
        ctx.dist("writers:small:" + fmt)
    # beyond the capacity: every target visited, then revisited (after its eviction) with a DIFFERENT schema where the format allows it
    # writers that owe their file something at END OF STREAM (retained batch, closing bracket, the whole YAML sequence) are in every
    # run: a target evicted and never revisited gets that text only if Close() finishes suspended handlers
    always = [("pprint", {}), ("markdown", {"mdaligned": True}), ("json", {}), ("yaml", {})]
    big = [("pprint", {"barred": True}), ("markdown", {}), ("csvlite", {}), ("json", {"nojlistwrap": True}), ("json", {"nojvstack": True}),
           ("csv", {"headerless": True}), ("xtab", {"right": True}), ("tsv", {})]
    if ctx.tier == "quick":
        rng.shuffle(big)
        big = big[:2]
    big = always + big
    for fmt, o in big:
        opts = {k: bool(o.get(k)) for k in OPTS_FOR[fmt]}
        nt = cap + rng.randint(2, 12)
        names = ["w%d" % j for j in range(nt)]
        order = names + names[:40] + [rng.choice(names) for _ in range(60)]
        mode = rng.choice(["write", "append"])
        ops = gen_case(rng, fmt, nt, order, cap)
        before = {t: "old\n" for t in names[:5]} if mode == "append" else {}
        cases.append({"mode": mode, "fmt": fmt, "opts": opts, "ops": ops, "before": before, "pattern": "writers-beyond-capacity", "cap": cap})
        ctx.dist("writers:beyond-capacity:" + fmt)
    return cases


def oracle(ctx, c, budget):
    """file == base ++ the document ONE never-suspended writer (mlr's main writer) prints for the routed records"""
    if c.get("driver", "ok") != "ok" or c.get("errors"):
        return 0
    routed = {}
    for t, k, x in c["ops"]:
        routed.setdefault(t, []).append(x)
    n = 0
    targets = sorted(routed)
    if len(targets) > 6:
        # beyond the capacity: look first at targets whose handler is SUSPENDED when Close() is called (evicted and not used again --
        # LRU simulated here), they get their end-of-stream text only from Close(); plus one open and one random target
        from collections import OrderedDict
        lru, cap = OrderedDict(), c.get("cap", 256)
        for t, _, _ in c["ops"]:
            if t in lru:
                lru.move_to_end(t)
            else:
                if len(lru) >= cap and c["mode"] != "pipe":
                    lru.popitem(last=False)
                lru[t] = 1
        susp = [t for t in targets if t not in lru]
        targets = susp[:1] + (ctx.rng.sample(susp[1:], min(2, len(susp) - 1)) if len(susp) > 1 else []) + [next(iter(lru))] + [ctx.rng.choice(targets)]
    elif ctx.tier == "quick":
        targets = [ctx.rng.choice(targets)]           # one target per small history (each comparison is one mlr run)
    for t in targets:
        recs = routed[t]
        if any(len({k for k, _ in r}) != len(r) for r in recs):
            continue
        st, doc = mlr_single_doc(ctx, c["fmt"], c["opts"], recs)
        if st != 0:
            continue                      # the main writer refuses this stream (CSV schema change): nothing to compare with
        base = c["before"].get(t, "") if c["mode"] == "append" else ""
        got = c["after"].get(t, "")
        ctx.count(("writers-oracle", c["fmt"], flags_of(c["opts"]), t, len(recs)))
        if got != base + doc:
            if budget[0] > 0:
                budget[0] -= 1
                ctx.violation({"class": "fanout-content", "what": "a fan-out target is not the ONE document the same writer prints for the records routed to it",
                               "fmt": c["fmt"], "opts": c["opts"], "mode": c["mode"], "pattern": c["pattern"], "target": t,
                               "distinct_targets": len(routed), "observed": got[:500], "expected": (base + doc)[:500],
                               "input": {"order": [o[0] for o in c["ops"]][:700], "records_of_target": recs[:12]}})
            n += 1
    return n


def statements_sharing_a_file(ctx, scratch):
    """two redirected statements naming ONE file: the target must receive the lines of both, in stream order (awk semantics, which
    the documentation refers to); also > in one statement and the same name in another statement of a second put in the chain"""
    rng = ctx.rng
    tried = 0
    for kind in ("print", "tee", "print-two-puts"):
        l1 = ["".join(rng.choice(VAL) for _ in range(rng.randint(3, 9))) for _ in range(rng.randint(1, 3))]
        l2 = ["".join(rng.choice(VAL) for _ in range(rng.randint(1, 2))) for _ in range(rng.randint(1, 2))]
        d = os.path.join(scratch, "share_%s_%d" % (kind.replace("-", "_"), len(os.listdir(scratch))))
        os.mkdir(d)
        if kind == "print":
            prog = "end{" + "".join('print > "f.txt", "%s";' % x for x in l1) + "".join('print > "f.txt", "%s";' % x for x in l2) + "}"
            args, stdin, want = ["-n", "put", prog], b"", "".join(x + "\n" for x in l1 + l2)
        elif kind == "tee":
            prog = 'tee > "f.txt", $*; $y = "%s"; tee > "f.txt", $*' % l1[0]
            stdin = "".join("x=%s\n" % x for x in l1 + l2).encode()
            args = ["put", "-q", prog]
            want = "".join("x=%s\nx=%s,y=%s\n" % (x, x, l1[0]) for x in l1 + l2)
        else:
            args = ["-n", "put", 'end{print > "f.txt", "%s"}' % l1[0], "then", "put", 'end{print >> "f.txt", "%s"}' % l2[0]]
            stdin, want = b"", None            # two expressions, two managers by design: only recorded
        st, out, err = mlr_run(ctx, args, stdin, timeout=60, cwd=d)
        pth = os.path.join(d, "f.txt")
        got = open(pth, "rb").read().decode("latin1") if os.path.exists(pth) else None
        ctx.count(("statements-sharing-a-file", kind, tuple(l1), tuple(l2)))
        tried += 1
        if want is not None and (st != 0 or got != want):
            ctx.violation({"class": "fanout-two-statements-same-file", "what": "two redirected statements naming one file: the file is not the lines routed to it in stream order",
                           "input": {"args": args, "stdin": stdin.decode()}, "status": st, "observed": got, "expected": want})
            break                          # one witness per run
    return tried


def fanouts_before_early_exit(ctx, scratch):
    """fan-out stages upstream of an early-exit verb on MULTI-BATCH input (records arrive in batches of 500): the tee verb first, then
    tee verbs / put 'tee > ...' / split, then head -n k.  Every fan-out file must hold EVERY input record in order, the main output the
    first k.  Returns Coq terms for HarnessChain.chk_chain_n."""
    rng = ctx.rng
    terms = []
    shapes = [("tee-verb,put-tee", ["tee", "A.out", "then", "put", 'tee > "B.out", $*', "then", "head", "-n", "K"], ["A.out", "B.out"]),
              ("tee-verb,tee-verb", ["tee", "A.out", "then", "tee", "B.out", "then", "head", "-n", "K"], ["A.out", "B.out"]),
              ("tee-verb,put-tee,put-tee", ["tee", "A.out", "then", "put", 'tee > "B.out", $*', "then", "put", 'tee > "C.out", $*', "then", "head", "-n", "K"],
               ["A.out", "B.out", "C.out"]),
              ("tee-verb,split", ["tee", "A.out", "then", "put", 'tee > "S".($i % 3).".out", $*', "then", "head", "-n", "K"], None)]
    for name, args, fans in shapes:
        n = rng.choice([1700, 2600, 5200] if ctx.tier == "quick" else [1700, 5200, 20000, 60000])
        k = rng.randint(1, 4)
        lines = ["i=%d,v=%s\n" % (i, "".join(rng.choice(VAL) for _ in range(3))) for i in range(n)]
        d = os.path.join(scratch, "chain_%d" % len(os.listdir(scratch)))
        os.mkdir(d)
        a = [x if x != "K" else str(k) for x in args]
        st, out, err = mlr_run(ctx, a, "".join(lines).encode(), timeout=240, cwd=d)
        got = {f: (open(os.path.join(d, f), "rb").read().decode("latin1") if os.path.exists(os.path.join(d, f)) else None) for f in sorted(os.listdir(d))}
        ctx.count(("fanouts-before-early-exit", name, n, k))
        ctx.dist("chain:" + name)
        main = out.decode("latin1")
        if fans is None:                                  # computed names: the union of the three files is the input, each in order
            want = {"A.out": "".join(lines)}
            for j in range(3):
                want["S%d.out" % j] = "".join(l for i, l in enumerate(lines) if i % 3 == j)
        else:
            want = {f: "".join(lines) for f in fans}
        wrong = [f for f in want if got.get(f) != want[f]]
        main_ok = st == 0 and main == "".join(lines[:k])
        if wrong or not main_ok:
            f = wrong[0] if wrong else None
            ctx.violation({"class": "fanout-content", "what": "a fan-out stage upstream of head did not receive every record (or the main output is not the first k records)",
                           "shape": name, "input": {"args": a, "records": n, "first_lines": lines[:3]}, "status": st, "wrong_files": wrong,
                           "records_in_file": (got[f].count("\n") if f and got.get(f) is not None else None), "records_expected": n,
                           "main_output": main[:200], "stderr": err.decode("latin1")[-300:]})
            break
        if fans is not None:
            terms.append("(%d, %d, %d, [%s], %d)" % (k, k, n, "; ".join(str(got[f].count("\n")) for f in fans), main.count("\n")))
    return terms


def run_writers(ctx, scratch, cap, drive, coq_eval_defs):
    statements_sharing_a_file(ctx, scratch)
    chain_terms = fanouts_before_early_exit(ctx, scratch)
    if chain_terms:
        badc, errc = coq_eval_mismatches(ctx, "C20chainN", "Base.Record C20.Model C20.HarnessChain", "Z * Z * Z * list Z * Z", "chk_chain_n", chain_terms)
        ctx.cov["correspondence_chain_n"] = {"cases": len(chain_terms), "mismatches": len(badc)}
        if errc or badc:
            ctx.violation({"broken": "correspondence C20.HarnessChain.chk_chain_n", "detail": errc[-800:], "cases": [chain_terms[i] for i in badc if i >= 0][:3]}, found_input=False)
    cases = build(ctx, cap)
    with ctx.timed("impl_writers"):
        drive(ctx, scratch, cases)
    budget = [3]
    nbad = 0
    for c in cases:
        ctx.count(("whist", c["mode"], c["fmt"], flags_of(c["opts"]), tuple((o[0], str(o[2])) for o in c["ops"])))
        if c.get("driver", "ok") != "ok":
            if budget[0] > 0:
                budget[0] -= 1
                ctx.violation({"class": "fanout-manager-" + c["driver"], "fmt": c["fmt"], "opts": c["opts"], "mode": c["mode"],
                               "input": {"order": [o[0] for o in c["ops"]][:700]}, "driver_stderr": c.get("driver_stderr", "")[-500:]})
            continue
        if c.get("errors"):
            ctx.dist("writers:writer-error(" + c["fmt"] + ")")
            # CSV / TSV report a schema change ("exiting due to data error", details on stderr): the MODEL must then report an error too
            # (chkG); every other writer is total (ProofsW.*_total), an error there is a defect
            if c["fmt"] not in ("csv", "tsv"):
                if budget[0] > 0:
                    budget[0] -= 1
                    ctx.violation({"class": "manager-error", "fmt": c["fmt"], "errors": c["errors"][:3], "opts": c["opts"],
                                   "input": {"order": [o[0] for o in c["ops"]][:300], "first_ops": [list(o) for o in c["ops"][:8]]}})
        nbad += oracle(ctx, c, budget)
    ok_cases = [c for c in cases if c.get("driver", "ok") == "ok" and c["fmt"] in FCODE]       # yaml: oracle only (marshaller not modelled)
    ctx.cov["writers_oracle_only(yaml)"] = sum(1 for c in cases if c["fmt"] not in FCODE)
    order = sorted(range(len(ok_cases)), key=lambda i: -len(ok_cases[i]["ops"]))
    nshards = max(1, int(os.environ.get("VERIF_JOBS", "2")))
    order = [i for r in range(nshards) for i in order[r::nshards]]
    per = (len(order) + nshards - 1) // nshards
    names = ["g%d" % i for i in order]
    defs = [term("g%d" % i, ok_cases[i], cap) for i in order]
    with ctx.timed("coq_cases_writers"):
        bad, err = coq_eval_defs(ctx, "C20G", defs, names, shard=per,
                                 imports="Base.Bytes Base.Record C20.Model C20.Generic C20.Writers C20.HarnessG", casety=CASETY, chk="chkG")
    ctx.cov["correspondence_writers"] = {"cases": len(names), "mismatches": len(bad), "oracle_mismatches": nbad,
                                         "with_writer_error": sum(1 for c in ok_cases if c.get("errors"))}
    if err:
        ctx.violation({"broken": "correspondence-evaluation (writers)", "detail": err[-2000:]}, found_input=False)
        return
    for j in bad[:3]:
        c = ok_cases[order[j]] if j >= 0 else None
        if c is None:
            continue
        ctx.violation({"broken": "correspondence C20.HarnessG.chkG (writer-generic model and implementation differ)", "fmt": c["fmt"], "opts": c["opts"],
                       "mode": c["mode"], "pattern": c["pattern"], "errors": c.get("errors"), "first_ops": [list(o) for o in c["ops"][:8]],
                       "observed_files_head": dict(list(c["after"].items())[:3])}, found_input=False)
