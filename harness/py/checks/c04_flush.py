"""C04 -- the `tail -f` contract: with --records-per-batch 1 --fflush every chain of fully streaming verbs writes the
output for each input record while the input pipe is still open, before any further input arrives.

Arrival-history driver on the real binary: stdin is a pipe we hold open, one input unit (a line; for XTAB a stanza) is
written at a time, and the NEXT unit is written only after the expected output for this one has become readable on
stdout.  Expected output after unit i = stdout of the same chain run in batch mode (second mlr process, default
flags) on units[:i] -- for a fully streaming chain that is what must be visible (theorem C04_tail_f_streaming_chain).
Verbs: every verb listed under "Fully streaming verbs" in docs/src/streaming-and-memory.md (with the documented flag
restrictions) plus put/filter without end blocks; input formats dkvp/nidx/jsonl/json/csv/tsv/xtab; output formats
dkvp/jsonl/json/csv/tsv/nidx/xtab/markdown; seeded random chains of 2-3 streaming verbs.  Negative controls (not
violations): tac and sort retain; without --fflush nothing arrives on a pipe.  The histories of eight chains are
checked against the Coq model (FlushModel.z_history under vm_compute)."""
import os, select, subprocess, sys, tempfile, time, shutil
from concurrent.futures import ThreadPoolExecutor
from vlib import *

T0 = 1500000000


def dkvp_line(i, rng_x):
    return ('a=k%d,b=pan%d,i=%d,x=%d,y=0.%d,t=%d,s=u%d;v%d,e=%s,j={"u":%d},p.q=%d\n'
            % (i, i % 2, i, rng_x, i, T0 + 86400 * i, i, i, ("" if i % 2 else "w%d" % i), i, i)).encode()


def simple_line(i):
    return ("a=k%d,b=pan,i=%d,x=%d,y=0.5\n" % (i, i, 3 * i)).encode()


def streaming_verbs(tmp):
    """(documented name, argv).  One entry per documented fully streaming verb (several flag variants for some)."""
    t = str(tmp)
    V = [
        ("altkv", ["altkv"]),
        ("bar", ["bar", "-f", "x", "--lo", "0", "--hi", "100"]),
        ("cat", ["cat"]),
        ("cat", ["cat", "-n", "-g", "b"]),
        ("clean-whitespace", ["clean-whitespace"]),
        ("cut", ["cut", "-f", "a,i,x"]),
        ("cut", ["cut", "-x", "-f", "b,s"]),
        ("cut", ["cut", "-r", "-f", "^[aix]$"]),
        ("decimate", ["decimate", "-n", "2"]),
        ("decimate", ["decimate", "-n", "2", "-b"]),
        ("fill-down", ["fill-down", "-f", "e"]),
        ("fill-down", ["fill-down", "--all"]),
        ("fill-down", ["fill-down", "-a", "-f", "e,zz"]),
        ("fill-empty", ["fill-empty", "-v", "X"]),
        ("flatten", ["json-parse", "-f", "j", "then", "flatten"]),
        ("format-values", ["format-values", "-n", "-f", "%.3f"]),
        ("gap", ["gap", "-n", "2"]),
        ("gap", ["gap", "-g", "b"]),
        ("grep", ["grep", "k"]),
        ("grep", ["grep", "-v", "i=2"]),
        ("having-fields", ["having-fields", "--at-least", "a"]),
        ("head", ["head", "-n", "3"]),
        ("head", ["head", "-n", "1", "-g", "b"]),
        ("json-parse", ["json-parse", "-f", "j"]),
        ("json-stringify", ["json-stringify", "-f", "x"]),
        ("label", ["label", "q,r,m"]),
        ("merge-fields", ["merge-fields", "-a", "sum,count", "-f", "x,y", "-o", "xy"]),
        ("merge-fields", ["merge-fields", "-k", "-a", "max", "-c", "x,y", "-o", "xy"]),
        ("nest", ["nest", "--explode", "--values", "--across-records", "-f", "s", "--nested-fs", ";"]),
        ("nest", ["nest", "--explode", "--values", "--across-fields", "-f", "s", "--nested-fs", ";"]),
        ("nest", ["nest", "--explode", "--pairs", "--across-records", "-f", "j", "--nested-fs", ";", "--nested-ps", ":"]),
        ("nothing", ["nothing"]),
        ("rank", ["rank", "-f", "i", "--sorted"]),
        ("regularize", ["regularize"]),
        ("rename", ["rename", "a,aa"]),
        ("rename", ["rename", "-r", "^(.)$,f_\\1"]),
        ("reorder", ["reorder", "-f", "i"]),
        ("reorder", ["reorder", "-e", "-f", "a"]),
        ("repeat", ["repeat", "-n", "2"]),
        ("repeat", ["repeat", "-f", "i"]),
        ("reshape", ["reshape", "-i", "x,y", "-o", "key,value"]),
        ("sec2gmt", ["sec2gmt", "t"]),
        ("sec2gmt", ["sec2gmt", "-3", "t"]),
        ("sec2gmtdate", ["sec2gmtdate", "t"]),
        ("skip-trivial-records", ["skip-trivial-records"]),
        ("sort-within-records", ["sort-within-records"]),
        ("sort-within-records", ["sort-within-records", "-r"]),
        ("step", ["step", "-a", "delta,shift,shift_lag,counter,ratio,rsum,rprod,from-first", "-f", "x"]),
        ("step", ["step", "-a", "ewma", "-d", "0.1,0.9", "-f", "x", "-g", "b"]),
        ("tail", ["tail", "-n", "+2"]),
        ("tee", ["tee", t + "/tee.%d.out"]),
        ("template", ["template", "-f", "i,a,zz"]),
        ("unflatten", ["unflatten"]),
        ("unsparsify", ["unsparsify", "-f", "zz,a"]),
        # "Most simple operations such as mlr put '$z = $x + $y' are fully streaming" (no end blocks, no retention)
        ("put", ["put", "$z = $x + $y"]),
        ("put", ["put", "$z = NR"]),
        ("put", ["put", "@s = @s + $x; $cum = @s"]),
        ("put", ["put", "-q", "print $i . \":\" . $a"]),
        ("put", ["put", "-q", "emit mapsum({\"nr\": NR}, $*)"]),
        ("put", ["put", "-q", "tee > \"" + t + "/puttee.%d.out\", $*; emit {\"i\": $i}"]),
        ("filter", ["filter", "$i % 2 == 1"]),
        ("filter", ["filter", "-x", "$i == 2"]),
        # per-record verbs that postdate the list in streaming-and-memory.md ("operate on each record independently")
        ("case", ["case", "-u", "-k", "-f", "a,b"]),
        ("gsub", ["gsub", "-f", "b", "a", "X"]),
        ("sub", ["sub", "-f", "a,b", "k", "KK"]),
        ("ssub", ["ssub", "-f", "a", "k", "."]),
        ("sparsify", ["sparsify"]),
        ("unspace", ["unspace"]),
        ("utf8-to-latin1", ["utf8-to-latin1"]),
    ]
    return V


def composable(tmp):
    """verbs safe to compose in any order on the DKVP input (all fully streaming)"""
    t = str(tmp)
    return [["cat"], ["cat", "-n"], ["cut", "-x", "-f", "y"], ["put", "$z = NR"], ["put", "$w = $x . \"k\""], ["filter", "$i != 2"],
            ["rename", "b,bb"], ["reorder", "-e", "-f", "a"], ["sec2gmt", "t"], ["fill-down", "-f", "e"], ["fill-empty"],
            ["head", "-n", "3"], ["head", "-n", "4"], ["tail", "-n", "+2"], ["decimate", "-n", "2"], ["regularize"], ["label", "q"],
            ["sort-within-records"], ["step", "-a", "delta,counter", "-f", "x"], ["tee", t + "/tee.%d.out"],
            ["nest", "--explode", "--values", "--across-records", "-f", "s", "--nested-fs", ";"], ["repeat", "-n", "2"],
            ["grep", "pan"], ["unsparsify", "-f", "zz"], ["merge-fields", "-k", "-a", "sum", "-f", "x,y", "-o", "xy"],
            ["put", "-q", "print \"p\" . NR; emit $*"], ["skip-trivial-records"], ["template", "-f", "i,a,x,s,e"], ["gap", "-n", "3"]]


def input_formats(n):
    """(name, main input flags, units)  -- a unit is what is written to the pipe in one go"""
    F = []
    F.append(("dkvp", [], [simple_line(i) for i in range(1, n + 1)]))
    F.append(("nidx", ["--inidx", "--ifs", " "], [("k%d pan %d %d\n" % (i, i, 3 * i)).encode() for i in range(1, n + 1)]))
    F.append(("jsonl", ["--ijsonl"], [('{"a":"k%d","b":"pan","i":%d,"x":%d}\n' % (i, i, 3 * i)).encode() for i in range(1, n + 1)]))
    F.append(("json", ["--ijson"], [('{"a":"k%d","b":"pan","i":%d,"x":{"u":%d}}\n' % (i, i, 3 * i)).encode() for i in range(1, n + 1)]))
    F.append(("json-multiline", ["--ijson"], [('{\n  "a": "k%d",\n  "i": %d\n}\n' % (i, i)).encode() for i in range(1, n + 1)]))
    F.append(("csv", ["--icsv"], [b"a,b,i,x\n"] + [("k%d,pan,%d,%d\n" % (i, i, 3 * i)).encode() for i in range(1, n + 1)]))
    F.append(("csv-quoted", ["--icsv"], [b"a,b,i,x\n"] + [('k%d,"pan, %d",%d,%d\n' % (i, i, i, 3 * i)).encode() for i in range(1, n + 1)]))
    F.append(("csvlite", ["--icsvlite"], [b"a,b,i,x\n"] + [("k%d,pan,%d,%d\n" % (i, i, 3 * i)).encode() for i in range(1, n + 1)]))
    F.append(("tsv", ["--itsv"], [b"a\tb\ti\tx\n"] + [("k%d\tpan\t%d\t%d\n" % (i, i, 3 * i)).encode() for i in range(1, n + 1)]))
    F.append(("csv-implicit-header", ["--icsv", "--implicit-csv-header"], [("k%d,pan,%d,%d\n" % (i, i, 3 * i)).encode() for i in range(1, n + 1)]))
    # XTAB: a record is complete when the blank line after its stanza has arrived
    F.append(("xtab", ["--ixtab"], [("a k%d\nb pan\ni %d\n\n" % (i, i)).encode() for i in range(1, n + 1)]))
    return F


OUTPUT_FORMATS = [("dkvp", []), ("jsonl", ["--ojsonl"]), ("json", ["--ojson"]), ("json-single-line", ["--ojson", "--jvstack", "--no-jvstack"]),
                  ("csv", ["--ocsv"]), ("csvlite", ["--ocsvlite"]), ("tsv", ["--otsv"]), ("nidx", ["--onidx"]), ("xtab", ["--oxtab"]),
                  ("markdown", ["--omd"])]


def _env():
    e = dict(os.environ)
    e["MLRRC"] = "__none__"
    return e


def batch_out(ctx, flags, argv, data):
    st, out, err = mlr_run(ctx, flags + argv, data, timeout=30)
    if st == "hang":
        st, out, err = mlr_run(ctx, flags + argv, data, timeout=150)
    return st, out, err


def visible_part(expected, ojson):
    """With JSON (non-lines) output the closing bracket is written at end of stream only."""
    if ojson:
        if expected.endswith(b"\n]\n"):
            return expected[:-3]
        if expected.rstrip() in (b"[\n]", b"[", b"[\n"):      # no record yet: the opening bracket may or may not be out
            return b""
    return expected


def drive(ctx, flags, argv, units, expected, wait, fflush=True, rpb="1", absent_wait=None):
    """Feed units one at a time.  expected[i] = bytes that must be readable after unit i (cumulative) or None when the
    step is a control (then we just collect what arrives within absent_wait seconds).
    Returns dict(ok, step, what, history (cumulative length after each step), cum, rest, status)."""
    main = ["--records-per-batch", rpb] + (["--fflush"] if fflush else [])
    errf = tempfile.TemporaryFile()
    p = subprocess.Popen([ctx.mlr()] + main + flags + argv, stdin=subprocess.PIPE, stdout=subprocess.PIPE, stderr=errf, env=_env(), bufsize=0)
    fd = p.stdout.fileno()
    cum = b""
    res = {"ok": True, "step": None, "what": None, "history": [], "cuts": []}
    eof = False
    try:
        for i, u in enumerate(units):
            try:
                p.stdin.write(u); p.stdin.flush()
            except (BrokenPipeError, OSError):
                pass          # e.g. head reached its quota and mlr has exited: nothing more is owed
            exp = expected[i]
            if exp is None:
                deadline = time.time() + absent_wait
                while not eof:
                    left = deadline - time.time()
                    if left <= 0:
                        break
                    r, _, _ = select.select([fd], [], [], left)
                    if r:
                        d = os.read(fd, 1 << 16)
                        if not d:
                            eof = True
                        cum += d
            else:
                deadline = time.time() + wait
                while len(cum) < len(exp) and not eof:
                    left = deadline - time.time()
                    if left <= 0:
                        break
                    r, _, _ = select.select([fd], [], [], left)
                    if r:
                        d = os.read(fd, 1 << 16)
                        if not d:
                            eof = True
                        cum += d
                if len(cum) >= len(exp) and not eof:
                    # settle: anything beyond the expected bytes would be wrong too; give stragglers a moment
                    r, _, _ = select.select([fd], [], [], 0.02)
                    if r:
                        d = os.read(fd, 1 << 16)
                        if not d:
                            eof = True
                        cum += d
                if len(cum) < len(exp):
                    res.update(ok=False, step=i, what="missing" if not eof else "exited")
                    break
                if cum != exp and not (eof and cum.startswith(exp)):
                    res.update(ok=False, step=i, what="unexpected-bytes")
                    break
            res["history"].append(len(cum))
            res["cuts"].append(cum)
    finally:
        try:
            p.stdin.close()
        except Exception:
            pass
        rest = b""
        try:
            deadline = time.time() + max(wait, 20)
            while not eof:
                left = deadline - time.time()
                if left <= 0:
                    break
                r, _, _ = select.select([fd], [], [], left)
                if r:
                    d = os.read(fd, 1 << 16)
                    if not d:
                        eof = True
                    rest += d
            p.wait(timeout=10)
        except Exception:
            p.kill()
            try:
                p.wait(timeout=5)
            except Exception:
                pass
        try:
            p.stdout.close()
        except Exception:
            pass
        errf.seek(0)
        res["stderr"] = errf.read(2000).decode("latin1")
        errf.close()
    res["cum"] = cum
    res["rest"] = rest
    res["status"] = p.returncode
    return res


def one_case(ctx, kind, flags, argv, units, ojson=False):
    """returns (verdict, detail): verdict in ok | skip | violation"""
    exps = []
    for i in range(1, len(units) + 1):
        st, out, err = batch_out(ctx, flags, argv, b"".join(units[:i]))
        if st != 0:
            return "skip", {"why": "batch run fails", "status": st, "stderr": err[-300:].decode("latin1"), "prefix": i}
        exps.append(visible_part(out, ojson))
    full = batch_out(ctx, flags, argv, b"".join(units))[1]
    # the oracle needs prefix-monotone batch outputs (true of every fully streaming chain: theorem C04_streaming_chain_visible)
    for a, b in zip(exps, exps[1:]):
        if not b.startswith(a):
            return "skip", {"why": "batch outputs of the input prefixes are not prefixes of each other"}
    if not exps[-1]:
        nonempty = False
    else:
        nonempty = True
    r = drive(ctx, flags, argv, units, exps, wait=20)
    if not r["ok"]:
        r2 = drive(ctx, flags, argv, units, exps, wait=60)       # confirm once with a long wait: the machine may be loaded
        if r2["ok"]:
            ctx.dist("flush:slow-first-attempt")
            r = r2
        else:
            r = r2
            i = r["step"]
            return "violation", {"what": {"missing": "the output for input unit %d does not arrive while the input pipe is open (waited 60 s)" % (i + 1),
                                          "exited": "mlr closed stdout before writing the output for input unit %d" % (i + 1),
                                          "unexpected-bytes": "stdout differs from the batch-mode output of the delivered prefix after input unit %d" % (i + 1)}[r["what"]],
                                 "kind": r["what"], "step": i + 1, "expected_visible": exps[i].decode("latin1")[-600:], "visible": r["cum"].decode("latin1")[-600:],
                                 "arrived_after_eof": r["rest"].decode("latin1")[-600:], "stderr": r["stderr"][-300:]}
    total = r["cum"] + r["rest"]
    if total != full:
        return "violation", {"what": "final stdout differs from the batch-mode output", "kind": "final", "expected": full.decode("latin1")[-600:],
                             "got": total.decode("latin1")[-600:], "stderr": r["stderr"][-300:]}
    return "ok", {"nonempty": nonempty, "history": r["history"], "cuts": r["cuts"], "rest": r["rest"]}


def sh_quote(argv):
    import shlex
    return " ".join(shlex.quote(a) for a in argv)


def report(ctx, name, flags, argv, units, detail):
    ctx.violation({"class": "tail-f-contract:" + name, "what": detail.get("what"), "detail": detail,
                   "how": "mlr --records-per-batch 1 --fflush %s   with stdin a pipe held open, input written one unit at a time: %r"
                          % (sh_quote(flags + argv), [u.decode("latin1") for u in units])})


def parse_iz(chunk):
    out = []
    for line in chunk.decode("latin1").splitlines():
        kv = dict(f.split("=", 1) for f in line.split(",") if "=" in f)
        if "i" in kv:
            out.append((int(kv["i"]), int(kv.get("z", "0"))))
        elif line.startswith("p") and line[1:].isdigit():      # print text: the model's item (i, -1)
            out.append((int(line[1:]), -1))
    return out


COQ_CHAINS = [  # (chain id in FlushModel.zchain, argv, retaining)
    (0, ["cat"], False),
    (1, ["put", "$z = NR"], False),
    (2, ["head", "-n", "3"], False),
    (3, ["filter", "$i % 2 == 1"], False),
    (4, ["cat", "then", "put", "$z = NR", "then", "head", "-n", "3"], False),
    (5, ["put", "$z = NR", "then", "filter", "$i % 2 == 1"], False),
    (6, ["tac"], True),
    (7, ["put", "$z = NR", "then", "tac", "then", "head", "-n", "3"], True),
    # output consisting of print TEXT: the writer's per-item flush must follow strings as well as records
    (8, ["put", "-q", "print \"p\" . $i"], False),
    # chain 9 of FlushModel.zchain (put 'print ...' then head -n 3) is NOT compared delivery by delivery: whether the text of a
    # record fed after head is satisfied still appears depends on how fast the done flag travels upstream (the known
    # finding output-statement-upstream-of-early-exit); comparing it made the check schedule-dependent.
]


def coq_term(fl, cid, markers, hist):
    h = "[" + "; ".join("[" + "; ".join("(%d, %d)" % p for p in step) + "]" for step in hist) + "]"
    return "((%s, %d), ([%s], %s))" % ("true" if fl else "false", cid, "; ".join(str(m) for m in markers), h)


def deltas(cuts, rest):
    prev = b""
    hist = []
    for c in cuts:
        hist.append(parse_iz(c[len(prev):]))
        prev = c
    hist.append(parse_iz(rest))
    return hist


def run_flush(ctx):
    t_start = time.time()
    thorough = ctx.tier == "thorough"
    n = 4 if not thorough else 9
    rng = ctx.rng
    tmp = tempfile.mkdtemp(prefix="c04flush.", dir=str(CACHE))
    pool = ThreadPoolExecutor(max_workers=8)
    jobs = []       # (name, kind, flags, argv, units, ojson)
    uniq = [0]

    def fresh(argv):
        out = []
        for a in argv:
            if "%d" in a and str(tmp) in a:
                uniq[0] += 1
                a = a % uniq[0]
            out.append(a)
        return out
    try:
        rich = [dkvp_line(i, rng.randint(1, 99)) for i in range(1, n + 1)]
        # 1. every documented fully streaming verb, on DKVP
        sv = streaming_verbs(tmp)
        if not thorough:      # quick tier: the first invocation of every verb plus a seeded sample of the other variants
            first, others, seen = [], [], set()
            for name, argv in sv:
                (others if name in seen else first).append((name, argv))
                seen.add(name)
            sv = first + rng.sample(others, 6)
        for name, argv in sv:
            oflags = ["--ojson"] if name in ("unflatten", "json-parse") else []
            jobs.append(("verb:" + " ".join(argv), "verb", oflags, fresh(argv), rich, bool(oflags)))
        # 2. input formats x {cat, put}, output formats x {cat, put}
        for fname, fl, units in input_formats(n):
            for argv in ((["cat"], ["put", "$z = NR"]) if thorough else (rng.choice([["cat"], ["put", "$z = NR"]]),)):
                jobs.append(("in:%s:%s" % (fname, " ".join(argv)), "iformat", fl + ["--ojsonl"], argv, units, False))
        simple = [simple_line(i) for i in range(1, n + 1)]
        for oname, ofl in OUTPUT_FORMATS:
            ochains = (["cat"], ["put", "-q", "print \"p\" . NR; emit $*"], ["nest", "--explode", "--values", "--across-records", "-f", "a", "--nested-fs", "k"])
            for argv in (ochains if thorough else (rng.choice(ochains),)):
                jobs.append(("out:%s:%s" % (oname, argv[0]), "oformat", ofl, argv, simple, oname.startswith("json") and oname != "jsonl"))
        jobs.append(("io:csv-to-csv:cat", "ioformat", ["--csv"], ["cat"], input_formats(n)[5][2], False))
        jobs.append(("io:json-to-json:put", "ioformat", ["--json"], ["put", "$z = NR"], input_formats(n)[3][2], True))
        jobs.append(("io:c2p-is-not-streaming-so-use-c2t:sec2gmt", "ioformat", ["--c2t"], ["sec2gmt", "x"], input_formats(n)[5][2], False))
        # 3. seeded random chains of 2-3 streaming verbs
        comp = composable(tmp)
        for _ in range(6 if not thorough else 60):
            k = rng.choice([2, 2, 3])
            vs = [rng.choice(comp) for _ in range(k)]
            argv = []
            for v in vs:
                argv += (["then"] if argv else []) + fresh(v)
            jobs.append(("chain:" + " ".join(argv), "chain", [], argv, rich, False))
        # 4. chains whose histories are compared with the Coq model (streaming ones; retaining ones below)
        markers = sorted(rng.sample(range(1, 40), n))
        mlines = [("a=k%d,b=pan,i=%d,x=%d,y=0.5\n" % (i, i, 3 * i)).encode() for i in markers]
        for cid, argv, retaining in COQ_CHAINS:
            if not retaining:
                jobs.append(("model:%d:%s" % (cid, " ".join(argv)), "model", [], argv, mlines, False))

        if not thorough:     # quick tier: all model-compared chains plus a seeded sample of the rest (every case is reached over the seeds; the thorough tier runs all)
            keepj = [j for j in jobs if j[1] == "model"]
            others = [j for j in jobs if j[1] != "model"]
            rng.shuffle(others)
            jobs = others[:int(os.environ.get("C04FLUSH_QUICK_CASES", "22"))] + keepj
        futs = [pool.submit(one_case, ctx, kind, fl, argv, units, oj) for (name, kind, fl, argv, units, oj) in jobs]
        cases = []
        n_ok = n_skip = 0
        for (name, kind, fl, argv, units, oj), f in zip(jobs, futs):
            verdict, detail = f.result()
            if os.environ.get("C04FLUSH_DEBUG"):
                print("[flush] %-6s %s %s" % (verdict, name, "" if verdict == "ok" else str({k: v for k, v in detail.items() if k != "cuts"})[:700]), file=sys.stderr, flush=True)
            ctx.count(("flush", name, n))
            ctx.dist("flush:" + kind)
            if verdict == "violation":
                report(ctx, " ".join(fl + argv), fl, argv, units, detail)
            elif verdict == "skip":
                n_skip += 1
                ctx.dist("flush:skipped")
                ctx.cov.setdefault("flush_skipped", []).append({"case": name, "why": detail})
            else:
                n_ok += 1
                if not detail["nonempty"] and argv[0] not in ("nothing",):
                    ctx.dist("flush:empty-output")
                if kind == "model":
                    cid = int(name.split(":")[1])
                    cases.append((coq_term(True, cid, markers, deltas(detail["cuts"], detail["rest"])), name))
        # 5. negative controls: the driver does see retention (never violations)
        ctl = []
        k = 3
        cl = mlines[:k]
        ctl.append(pool.submit(drive, ctx, [], ["tac"], cl, [None] * k, 20, True, "1", 1.2))
        ctl.append(pool.submit(drive, ctx, [], ["put", "$z = NR", "then", "tac", "then", "head", "-n", "3"], cl, [None] * k, 20, True, "1", 1.2))
        ctl.append(pool.submit(drive, ctx, [], ["sort", "-nr", "i"], cl, [None] * k, 20, True, "1", 1.2))
        ctl.append(pool.submit(drive, ctx, [], ["cat"], cl, [None] * k, 20, False, "1", 1.2))          # no --fflush, stdout is a pipe
        ctl.append(pool.submit(drive, ctx, [], ["put", "$z = NR"], cl, [None] * k, 20, False, "1", 1.2))
        ctl.append(pool.submit(drive, ctx, [], ["cat"], cl, [None] * k, 20, True, "500", 1.2))         # --fflush but the reader waits for 500 lines
        names = ["tac", "put-tac-head", "sort", "cat-without-fflush", "put-without-fflush", "cat-batch-500"]
        controls = {}
        for nm, f in zip(names, ctl):
            r = f.result()
            ctx.count(("flush-control", nm))
            ctx.dist("flush:control")
            controls[nm] = {"visible_before_eof": len(r["cum"]), "arrived_after_eof": len(r["rest"])}
        ctx.cov["flush_controls"] = controls
        for nm, cid, fl in (("tac", 6, True), ("put-tac-head", 7, True), ("cat-without-fflush", 0, False), ("put-without-fflush", 1, False)):
            r = ctl[names.index(nm)].result()
            cases.append((coq_term(fl, cid, markers[:k], deltas(r["cuts"], r["rest"])), "control:" + nm))
        ctx.cov["flush"] = {"cases": len(jobs), "ok": n_ok, "skipped": n_skip, "records_per_case": n, "wall_s": round(time.time() - t_start, 1)}
        # 6. the model predicts the same histories
        if cases:
            with ctx.timed("coq_flush_cases"):
                bad, err = coq_eval_mismatches(ctx, "C04flush", "C04.FlushModel", "(bool * Z) * (list Z * list (list (Z * Z)))", "flush_chk",
                                               [c for c, _ in cases])
            ctx.cov["correspondence"]["flush_histories"] = len(cases)
            ctx.cov["correspondence"]["flush_histories_rejected"] = len(bad)
            if err:
                ctx.violation({"broken": "flush-history-evaluation", "detail": err[-1500:]}, found_input=False)
            for i in [b for b in bad if b >= 0][:3]:
                ctx.violation({"broken": "correspondence C04.FlushModel.flush_chk: the arrival history of the real binary differs from the model's",
                               "case": cases[i][1], "term": cases[i][0]}, found_input=False)
    finally:
        pool.shutdown(wait=True)
        shutil.rmtree(tmp, ignore_errors=True)
