"""C04 — output independent of batching and scheduling; every run terminates; tail -f contract (DESIGN 3/C04)."""
import json, os, select, subprocess, tempfile, time, hashlib
from vlib import *
from checks import c04_flush

EVENTS = ["verb.recv", "verb.relay", "verb.own", "verb.send", "verb.send.eos", "verb.err", "verb.sendE", "verb.errsig",
          "reader.poll", "reader.lines", "reader.send", "reader.err", "reader.send.eos",
          "writer.recv", "writer.err", "writer.fin", "main.select", "main.drain1", "main.drain2", "main.exit"]
EVN = {e: i for i, e in enumerate(EVENTS)}


def make_input(rng, n):
    keys = ["pan", "eks", "wye", "zee"]
    return "".join(f"a={rng.choice(keys)},b={rng.choice(keys)},i={i},x={rng.randint(0, 99)}\n" for i in range(1, n + 1)).encode()


def make_wide_input(rng, n, width=14):
    return "".join(",".join(f"f{j}={rng.randint(0, 9)}{i}" for j in range(1, width + 1)) + "\n" for i in range(1, n + 1)).encode()


def chains(tmpdir, n=120):
    """(name, argv-after-main-flags, needs_input (True | "wide"), main_flags, class_if_known)"""
    t = str(tmpdir)
    late = str(max(n - 10, 2))
    return [
        # early-exit verbs whose flags meet when the reader has already reached end of input
        ("head-late-then-head", ["head", "-n", late, "then", "head", "-n", "1"], True, [], None),
        ("head-late-then-cat-head-head", ["head", "-n", late, "then", "cat", "then", "head", "-n", "2", "then", "head", "-n", "1"], True, [], None),
        ("head-late-g-then-head", ["head", "-n", late, "then", "head", "-n", "1", "-g", "a", "then", "head", "-n", "2"], True, [], None),
        # records wide enough for the lazily built key index (hash-records): renames and re-references of old names
        ("wide-rename-cut", ["rename", "f3,g3", "then", "cut", "-x", "-f", "f3"], "wide", [], None),
        ("wide-rename-put-old", ["rename", "f3,g3", "then", "put", "$f3 = \"new\""], "wide", [], None),
        ("wide-rename-swap", ["rename", "f2,tmp", "then", "rename", "f5,f2", "then", "rename", "tmp,f5"], "wide", [], None),
        ("wide-rename-present", ["rename", "f7,g7", "then", "put", "$p = is_present($f7) . \":\" . is_present($g7)"], "wide", [], None),
        ("wide-reorder-unset", ["reorder", "-e", "-f", "f2", "then", "put", "unset $f9; $f9 = $f2 . \"x\""], "wide", [], None),
        ("wide-positional-rename", ["put", "$[[1]] = \"zz\"; $q = is_present($f1)"], "wide", [], None),
        ("wide-sort-within", ["sort-within-records", "-r", "then", "rename", "-r", "^f1(.)$,h\\1", "then", "cut", "-f", "h0,f1,h3"], "wide", [], None),
        ("cat", ["cat"], True, [], None),
        ("head", ["head", "-n", "4"], True, [], None),
        ("head-g", ["head", "-n", "2", "-g", "a"], True, [], None),
        ("head-then-head", ["head", "-n", "6", "then", "head", "-n", "3"], True, [], "head-then-head-blocking-done-relay"),
        ("head-then-put-then-head", ["head", "-n", "8", "then", "put", "$y=$x.\"k\"", "then", "head", "-n", "3"], True, [], "head-then-head-blocking-done-relay"),
        ("cat-then-head", ["cat", "-n", "then", "head", "-n", "7"], True, [], None),
        ("tee-then-head", ["tee", t + "/tee.out", "then", "head", "-n", "2"], True, [], None),
        ("tac", ["tac"], True, [], None),
        ("sort", ["sort", "-f", "a", "-nr", "x"], True, [], None),
        ("put-nr", ["put", "$nr=NR"], True, [], None),
        ("put-print", ["put", "-q", "print $i.\":\".$a"], True, [], None),
        ("put-emit-end", ["put", "-q", "@c[$a]=NR; end{emit @c, \"a\"}"], True, [], None),
        ("count-distinct", ["count-distinct", "-f", "a,b"], True, [], None),
        ("stats1", ["stats1", "-a", "sum,count,max", "-f", "x", "-g", "a"], True, [], None),
        ("nothing", ["nothing"], True, [], None),
        ("tail", ["tail", "-n", "3", "-g", "b"], True, [], None),
        ("decimate", ["decimate", "-n", "4"], True, [], None),
        ("fill-down", ["fill-down", "-a", "-f", "x"], True, [], None),
        ("step", ["step", "-a", "delta,shift", "-f", "x"], True, [], None),
        ("seqgen-head", ["seqgen", "--start", "1", "--stop", "1000000", "then", "head", "-n", "3"], False, ["-n"], None),
        ("seqgen-cat-head", ["seqgen", "--start", "1", "--stop", "1000000", "then", "cat", "then", "head", "-n", "3"], False, ["-n"], None),
        ("shuffle-seed", ["shuffle"], True, ["--seed", "17"], None),
        ("bootstrap-seed", ["bootstrap"], True, ["--seed", "5"], None),
        ("sample-seed", ["sample", "-k", "3", "-g", "a"], True, ["--seed", "9"], None),
        ("urand-seed", ["put", "$r=urandint(1,1000)"], True, ["--seed", "3"], None),
        ("filter-fail", ["put", "if (NR==13) {$z = asserting_null($x)}"], True, [], None),
        # the two chains below are schedule-dependent by design of the early-exit optimisation (KNOWN_FINDINGS.txt)
        ("put-print-then-head", ["put", "print \"p\".NR", "then", "head", "-n", "1"], True, [], "output-statement-upstream-of-early-exit"),
        ("head-then-end-NR", ["head", "-n", "1", "then", "put", "-q", "end{print NR}"], True, [], "end-block-context-downstream-of-early-exit"),
    ]


def configs(ctx):
    rng = ctx.rng
    base = [(["--records-per-batch", str(b)], {"GOMAXPROCS": str(p)}, sched)
            for b, p, sched in [(500, 16, None), (1, 16, None), (2, 1, None), (3, 2, 1), (7, 16, 2), (25, 1, 3), (119, 2, None), (25, 16, 4)]]
    extra = [(["--records-per-batch", "25", "--nr-progress-mod", "7"], {"GOMAXPROCS": "4"}, None),
             (["--records-per-batch", "25", "--hash-records"], {"GOMAXPROCS": "4"}, 5),
             (["--records-per-batch", "25", "--no-hash-records"], {"GOMAXPROCS": "4"}, 6)]
    n_seeds = 3 if ctx.tier == "quick" else 25
    more = [(["--records-per-batch", str(rng.choice([1, 2, 5, 10, 25, 60]))], {"GOMAXPROCS": str(rng.choice([1, 2, 4, 16]))}, rng.randint(10, 10 ** 6))
            for _ in range(n_seeds)]
    return base + extra + more


def run_cfg(ctx, chain, cfg, inp, tmpdir, trace=False, tag=0, wide=b""):
    name, argv, needs_input, mflags, _ = chain
    if needs_input == "wide":
        inp = wide
    flags, env, sched = cfg
    e = dict(env)
    if sched is not None:
        e["MLR_VERIF_SCHED"] = str(sched)
    tracefile = None
    if trace:
        tracefile = os.path.join(tmpdir, "trace.%d" % tag)
        e["MLR_VERIF_TRACE"] = tracefile
    st, out, err = mlr_run(ctx, mflags + flags + argv, inp if needs_input else b"", timeout=20, env=e)
    if st == "hang":
        # confirm: a deadlock persists under any timeout; a slow run on a loaded machine does not
        e2 = dict(e); e2.pop("MLR_VERIF_TRACE", None)
        st2, out2, err2 = mlr_run(ctx, mflags + flags + argv, inp if needs_input else b"", timeout=120, env=e2)
        if st2 != "hang":
            st, out, err = st2, out2, err2
            tracefile = None
    tr = None
    if tracefile and os.path.exists(tracefile):
        tr = open(tracefile).read()
        os.unlink(tracefile)
    return st, out, err, tr


def trace_term(tr):
    gs = {}
    for line in tr.splitlines():
        p = line.split()
        if len(p) != 2 or p[1] not in EVN:
            return None
        gs.setdefault(p[0], []).append(EVN[p[1]])
    return "[" + "; ".join("[" + ";".join(str(x) for x in g) + "]" for g in gs.values()) + "]", len(gs)


def run(ctx):
    ctx.cov["rule"] = ("chains (streaming, non-streaming, early-exit: head, head after head, tee before head, seqgen then head; seeded random verbs; a failing run) "
                       "x configurations (--records-per-batch 1..500, GOMAXPROCS 1/2/4/16, seeded yield/sleep perturbation at every channel site via MLR_VERIF_SCHED, "
                       "--nr-progress-mod, --hash-records/--no-hash-records): stdout bytes and exit status must be identical across configurations and no run may hang; "
                       "a case is non-trivial when (chain, config) is distinct; traces recorded at the VerifPoint sites are validated in Coq against the model's goroutine automata; "
                       "arrival histories: records delivered one at a time on an open pipe with --records-per-batch 1 --fflush")
    ctx.cov["trusted_base"] = ["Coq 8.16.1 kernel + vm_compute", "no axioms", "VerifPoint hooks (site names) and the trace parser",
                               "the transition system is a hand model of stream.go / aaa_chain_transformer.go / channel_writer.go / line_reader.go: "
                               "tied by trace validation of goroutine control flow and by the metamorphic oracle, not by a refinement proof"]
    ctx.assumptions = ["Go scheduler fairness, real pipe buffering and the memory model are not modelled",
                       "stdout determinism across schedules is checked by sampled configurations (metamorphic oracle), not proved"]
    forbidden_gate(ctx, ["C04"])
    ok, why = check_props(ctx, "C04/Props.v", ["C04/Progress.vo", "C04/Batch.vo", "C04/Harness.vo", "C04/Errors.vo"])
    n = 120 if ctx.tier == "quick" else 1500
    inp = make_input(ctx.rng, n)
    tmpdir = tempfile.mkdtemp(prefix="c04.", dir=str(CACHE))
    traces, tmeta = [], []
    found = False
    try:
        cfgs = configs(ctx)
        from concurrent.futures import ThreadPoolExecutor
        pool = ThreadPoolExecutor(max_workers=8)
        wide = make_wide_input(ctx.rng, max(n // 3, 20))
        for chain in chains(tmpdir, n):
            ref = None
            seeds = [ctx.rng.randrange(10 ** 9) for _ in cfgs]
            futs = [pool.submit(run_cfg, ctx, chain, cfg, inp, tmpdir, (ci % 3 == 0), seeds[ci], wide) for ci, cfg in enumerate(cfgs)]
            for ci, cfg in enumerate(cfgs):
                st, out, err, tr = futs[ci].result()
                ctx.count((chain[0], cfg[0], cfg[1], cfg[2]))
                ctx.dist("chain:" + chain[0])
                obs = (st, hashlib.sha1(out).hexdigest())
                if st == "hang" or classify_run(st, err) == "panic":
                    found = True
                    ctx.violation({"class": ("hang:" + chain[0]) if st == "hang" else "panic:" + chain[0],
                                   "what": "run does not terminate" if st == "hang" else "panic", "chain": chain[1], "main_flags": chain[3] + cfg[0],
                                   "env": cfg[1], "sched_seed": cfg[2], "input_records": n if chain[2] else 0,
                                   "stderr_tail": err[-600:].decode("latin1"),
                                   "how": "mlr %s  (input: %d generated DKVP records a=..,b=..,i=..,x=..; timeout 20 s)" % (" ".join(chain[3] + cfg[0] + chain[1]), n)})
                    break
                if ref is None:
                    ref = (obs, cfg, out)
                    ctx.sample({"chain": " ".join(chain[1]), "config": cfg[0], "status": st, "stdout_sha1": obs[1], "stdout_bytes": len(out)})
                elif obs != ref[0]:
                    found = True
                    ctx.violation({"class": chain[4] or ("output-depends-on-config:" + chain[0]), "chain": chain[1], "main_flags": chain[3],
                                   "config_a": [ref[1][0], ref[1][1], ref[1][2]], "config_b": [cfg[0], cfg[1], cfg[2]],
                                   "status_a": ref[0][0], "status_b": st, "stdout_a_head": ref[2][:300].decode("latin1"), "stdout_b_head": out[:300].decode("latin1"),
                                   "input_records": n})
                    break
                if tr:
                    t = trace_term(tr)
                    if t is None:
                        ctx.violation({"broken": "trace-parse", "trace_head": tr[:500]}, found_input=False)
                    else:
                        traces.append(t[0]); tmeta.append((chain[0], cfg, st))
        reader_state_oracle(ctx, tmpdir)
        early_exit_correspondence(ctx, tmpdir)
        context_correspondence(ctx, tmpdir)
        c04_flush.run_flush(ctx)
    finally:
        import shutil
        shutil.rmtree(tmpdir, ignore_errors=True)
    if not ok and not found:
        ctx.violation({"broken": why}, found_input=False)
    if ok and traces:
        with ctx.timed("coq_cases"):
            bad, err = coq_eval_mismatches(ctx, "C04", "C04.Model C04.Harness", "list (list Z)", "chk", traces, shard=200)
        ctx.cov["traces_validated_against_impl"] = len(traces) - len(bad)
        ctx.cov["correspondence"].update({"traces": len(traces), "rejected": len(bad)})
        if err:
            ctx.violation({"broken": "trace-validation-evaluation", "detail": err[-1500:]}, found_input=False)
        for i in bad[:3]:
            ch, cfg, st = tmeta[i]
            ctx.violation({"broken": "correspondence C04.Harness.chk: a goroutine of the real binary left the model's control automaton",
                           "chain": ch, "config": [cfg[0], cfg[1], cfg[2]], "trace": traces[i][:1500]}, found_input=False)


def reader_state_inputs(rng, tmpdir):
    """(name, main flags, verb argv, stdin bytes | None, file list) -- inputs whose READER carries state from one line to
    the next (current header, schema changes after a blank line, implicit header, ragged rows, comment handling,
    multi-line records, several files with per-file headers, NR/FNR/FILENAME), so that a cut into batches at ANY line
    can be observed.  Positions of blank lines / headers / comments are seeded."""
    def csv_blocks(nblocks, sep=",", widths=None):
        lines, i = [], 0
        for b in range(nblocks):
            w = (widths[b] if widths else rng.choice([2, 3, 3, 4]))
            names = ["%s%d" % ("abcdefg"[b % 7], j) for j in range(w)]
            lines.append(sep.join(names))
            for _ in range(rng.randint(1, 6)):
                i += 1
                lines.append(sep.join(str(10 * i + j) for j in range(w)))
            lines.append("")
        return ("\n".join(lines[:-1]) + "\n").encode()
    I = []
    for k in range(3):
        I.append(("csvlite-schema-change-%d" % k, ["--icsvlite", "--ojsonl"], ["cat"], csv_blocks(rng.randint(2, 4)), []))
    I.append(("csvlite-schema-change-same-width", ["--icsvlite", "--ojsonl"], ["put", "$nr = NR"], csv_blocks(3, widths=[3, 3, 3]), []))
    I.append(("csvlite-schema-change-ocsvlite", ["--icsvlite", "--ocsvlite"], ["cat"], csv_blocks(3), []))
    I.append(("csvlite-ragged", ["--icsvlite", "--allow-ragged-csv-input", "--ojsonl"], ["cat"],
              b"a,b,c\n1,2,3\n4,5\n6,7,8,9\n\nx,y\n1\n2,3\n4,5,6\n", []))
    I.append(("csvlite-data-length-error", ["--icsvlite", "--ojsonl"], ["cat"], b"a,b,c\n1,2,3\n4,5,6\n7,8\n9,9,9\n", []))
    I.append(("tsvlite-schema-change", ["--itsvlite", "--ojsonl"], ["cat"], csv_blocks(3, sep="\t"), []))
    I.append(("pprint-schema-change", ["--ipprint", "--ojsonl"], ["cat"],
              b"a   b   c\n1   2   3\n4   5   6\n\nx y\n7 8\n9 10\n11 12\n\np\n13\n", []))
    I.append(("pprint-barred", ["--ipprint", "--barred-input", "--ojsonl"], ["cat"],
              b"+---+---+\n| a | b |\n+---+---+\n| 1 | 2 |\n| 3 | 4 |\n| 5 | 6 |\n+---+---+\n", []))
    I.append(("csv-implicit-header", ["--icsv", "--implicit-csv-header", "--ojsonl"], ["put", "$nr = NR"],
              b"".join(b"%d,%d,%d\n" % (i, 2 * i, 3 * i) for i in range(1, 12)), []))
    I.append(("csv-headerless-output", ["--csv", "--headerless-csv-output"], ["cat"], b"a,b\n" + b"".join(b"%d,%d\n" % (i, i) for i in range(1, 9)), []))
    I.append(("csv-quoted-newlines", ["--icsv", "--ojsonl"], ["cat"],
              b'a,b\n1,"x\ny"\n2,"p\nq\nr"\n3,plain\n4,"u,v"\n5,"w""z"\n', []))
    I.append(("csv-ragged", ["--icsv", "--allow-ragged-csv-input", "--ojsonl"], ["cat"], b"a,b,c\n1,2,3\n4,5\n6,7,8,9\n10\n", []))
    I.append(("csv-data-length-error", ["--icsv", "--ojsonl"], ["cat"], b"a,b,c\n1,2,3\n4,5,6\n7,8\n9,9,9\n", []))
    I.append(("csv-unsparsify-keys-change", ["--icsv", "--ocsv"], ["put", "if (NR % 3 == 0) {$extra = NR}"],
              b"a,b\n" + b"".join(b"%d,%d\n" % (i, i) for i in range(1, 10)), []))
    I.append(("csv-bom-dedupe", ["--icsv", "--ojsonl"], ["cat"], b"\xef\xbb\xbfa,a,b\n1,2,3\n4,5,6\n7,8,9\n", []))
    I.append(("tsv-escapes", ["--itsv", "--ojsonl"], ["cat"], b"a\tb\n1\tx\\ty\n2\tz\n3\tw\\nv\n4\tq\n", []))
    I.append(("xtab-stanzas", ["--ixtab", "--ojsonl"], ["put", "$nr = NR"],
              b"".join(b"a %d\nb %d\nccc %d\n\n" % (i, i, i) for i in range(1, 7)) + b"\n\nx 1\n", []))
    I.append(("json-multiline", ["--ijson", "--ojsonl"], ["put", "$nr = NR"],
              b"".join(b'{\n  "a": %d,\n  "b": {"c": [%d, %d]}\n}\n' % (i, i, i) for i in range(1, 8)), []))
    I.append(("json-array", ["--ijson", "--ojson"], ["cat"], b"[" + b",\n".join(b'{"a":%d}' % i for i in range(1, 9)) + b"]\n", []))
    I.append(("json-malformed-late", ["--ijson", "--ojsonl"], ["cat"], b"".join(b'{"a":%d}\n' % i for i in range(1, 7)) + b'{"a":\n', []))
    I.append(("nidx", ["--inidx", "--ifs", " ", "--ojsonl"], ["cat"], b"".join(b"x%d  y%d z\n" % (i, i) for i in range(1, 10)), []))
    I.append(("markdown-in", ["--imd", "--ojsonl"], ["cat"], b"| a | b |\n| --- | --- |\n| 1 | 2 |\n| 3 | 4 |\n| 5 | 6 |\n", []))
    cpos = sorted(rng.sample(range(0, 10), 3))
    body = []
    for i in range(10):
        if i in cpos:
            body.append(b"# comment %d\n" % i)
        body.append(b"a=%d,b=%d\n" % (i, i * i))
    I.append(("dkvp-pass-comments", ["--pass-comments", "--ojsonl"], ["cat"], b"".join(body), []))
    I.append(("dkvp-skip-comments", ["--skip-comments", "--ojsonl"], ["put", "$nr = NR"], b"".join(body), []))
    I.append(("csv-pass-comments", ["--icsv", "--pass-comments", "--ojsonl"], ["cat"], b"# top\na,b\n1,2\n# mid\n3,4\n5,6\n# end\n", []))
    I.append(("csvlite-pass-comments-schema-change", ["--icsvlite", "--pass-comments", "--ojsonl"], ["cat"],
              b"a,b\n1,2\n# c1\n\nc,d,e\n3,4,5\n# c2\n6,7,8\n", []))
    I.append(("irs-semicolon", ["--irs", ";", "--ojsonl"], ["cat"], b";".join(b"a=%d" % i for i in range(1, 12)) + b";", []))
    I.append(("ifs-multichar-repifs", ["--inidx", "--ifs", ";;", "--repifs", "--ojsonl"], ["cat"], b"".join(b"p%d;;;;q%d;;r\n" % (i, i) for i in range(1, 8)), []))
    # several files: per-file headers, FNR and FILENAME, a header-only file and an empty file in the middle
    fs = []
    for j, (hdr, nrec) in enumerate([("a,b", 4), ("a,b", 0), ("b,a", 3), (None, 0), ("a,b,c", 5)]):
        f = os.path.join(tmpdir, "rs.%d.csv" % j)
        with open(f, "wb") as fh:
            if hdr is not None:
                fh.write((hdr + "\n").encode())
                w = hdr.count(",") + 1
                for i in range(nrec):
                    fh.write((",".join(str(100 * j + 10 * i + c) for c in range(w)) + "\n").encode())
        fs.append(f)
    ctxput = ["put", "$nr = NR; $fnr = FNR; $f = sub(FILENAME, \".*/\", \"\")"]
    I.append(("csv-multi-file", ["--icsv", "--ojsonl"], ctxput, None, fs))
    I.append(("csvlite-multi-file", ["--icsvlite", "--ojsonl"], ctxput, None, fs))
    I.append(("csvlite-multi-file-ocsvlite", ["--icsvlite", "--ocsvlite"], ["cat"], None, fs))
    I.append(("csv-multi-file-implicit-header", ["--icsv", "--implicit-csv-header", "--allow-ragged-csv-input", "--ojsonl"], ctxput, None, fs))
    I.append(("csv-multi-file-end-block", ["--icsv", "--ojsonl"], ["put", "-q", "@n[FILENAME] = FNR; end { emit @n; print NR }"], None, [fs[0], fs[2], fs[4]]))
    I.append(("nothing-multi-file-end-context", ["--icsv", "--ojsonl"], ["put", "-q", "end { print NR . \":\" . FNR . \":\" . sub(FILENAME, \".*/\", \"\") }"], None, [fs[0], fs[2]]))
    return I


def reader_state_oracle(ctx, tmpdir):
    """Batch independence of the READERS: for every input above, stdout bytes and exit status with
    --records-per-batch 1, 2, 3, 5, 7 (with 1 every line is at a batch boundary) must equal those at the default 500."""
    rng = ctx.rng
    inputs = reader_state_inputs(rng, tmpdir)
    sizes = [500, 1, 2, 3, 5, 7]
    jobs = [(inp, b) for inp in inputs for b in sizes]

    def one(j):
        (name, mflags, argv, data, files), b = j
        return mlr_run(ctx, ["--records-per-batch", str(b)] + mflags + argv + files, data or b"", timeout=60)
    from concurrent.futures import ThreadPoolExecutor
    with ThreadPoolExecutor(max_workers=8) as ex:
        res = list(ex.map(one, jobs))
    ref = {}
    reported = set()
    for ((name, mflags, argv, data, files), b), (st, out, err) in zip(jobs, res):
        ctx.count(("reader-state", name, b)); ctx.dist("reader-state:" + name.split("-")[0])
        if st == "hang":
            ctx.violation({"class": "hang:reader-state:" + name, "what": "run does not terminate", "main_flags": ["--records-per-batch", str(b)] + mflags, "chain": argv,
                           "stdin": (data or b"").decode("latin1"), "files": [open(f, "rb").read().decode("latin1") for f in files]})
            continue
        if b == 500:
            ref[name] = (st, out, err)
            continue
        rst, rout, rerr = ref[name]
        # "a run that fails under one setting fails under all": failing runs need only agree on failing (what was
        # written before the failure is not pinned down by the statement); successful runs agree byte for byte
        both_fail = (st != 0 and rst != 0)
        if not both_fail and (st, out) != (rst, rout) and name not in reported:
            reported.add(name)
            ctx.violation({"class": "output-depends-on-batch-size:reader:" + name,
                           "what": "stdout/exit status differ between --records-per-batch 500 and %d" % b,
                           "main_flags": mflags, "chain": argv, "stdin": (data or b"").decode("latin1"),
                           "files": [open(f, "rb").read().decode("latin1") for f in files],
                           "status_500": rst, "status_b": st, "records_per_batch": b,
                           "stdout_500": rout[:600].decode("latin1"), "stdout_b": out[:600].decode("latin1"),
                           "stderr_500": rerr[-300:].decode("latin1"), "stderr_b": err[-300:].decode("latin1"),
                           "how": "mlr --records-per-batch %d %s  <the stdin/files above>  vs the same with --records-per-batch 500" % (b, " ".join(mflags + argv))})
    ctx.cov["reader_state_inputs"] = len(inputs)


CDESC = {"cat": 0, "printnr": 1, "endnr": 2, "tac": 3}


def context_correspondence(ctx, tmpdir):
    """The data model WITH RECORD CONTEXT (coq/C04/CtxModel.v) against the binary: chains of cat / tac / head -n k /
    put 'print "p".NR' (the record's own NR) / put -q 'end{print "e".NR}' (the end-of-stream marker's NR): stdout must be
    an outcome the model allows (CtxModel.ctx_chk under vm_compute): without a head exactly the sequential result with
    NR = the number of input records (C04_context_determinism_without_early_exit); with a head, the result on some
    truncation of the input at a batch boundary with NR = the records of that truncation."""
    rng = ctx.rng
    fixed = [["endnr"], ["printnr", "endnr"], ["tac", "endnr"], ["printnr", "tac", "endnr"], ["cat", "printnr", "endnr"],
             ["endnr", "endnr"], [11, "endnr"], [12, "printnr", "endnr"], ["printnr", 12, "endnr"], ["printnr", "tac", 12]]
    pool_ = ["cat", "printnr", "tac", "endnr", 11, 13]
    chains = fixed + [[rng.choice(pool_) for _ in range(rng.choice([1, 2, 3]))] + ["endnr"] for _ in range(4 if ctx.tier == "quick" else 60)]
    jobs = []
    for ch in chains:
        for rep in range(2 if ctx.tier == "quick" else 4):
            jobs.append((ch, rng.choice([5, 9, 14, 22]), rng.choice([1, 2, 3, 5]), None if rep == 0 else rng.randint(1, 10 ** 6)))

    def argv_of(ch):
        argv = []
        for v in ch:
            if argv:
                argv.append("then")
            argv += {"cat": ["cat"], "tac": ["tac"], "printnr": ["put", 'print "p".NR'], "endnr": ["put", "-q", 'end{print "e".NR}']}.get(v) or ["head", "-n", str(v - 10)]
        return argv

    def one(j):
        ch, n, b, sched = j
        inp = "".join("i=%d\n" % k for k in range(1, n + 1)).encode()
        env = {"MLR_VERIF_SCHED": str(sched)} if sched is not None else {}
        st, out, err = mlr_run(ctx, ["--records-per-batch", str(b)] + argv_of(ch), inp, timeout=60, env=env)
        if st == "hang":
            st, out, err = mlr_run(ctx, ["--records-per-batch", str(b)] + argv_of(ch), inp, timeout=300, env=env)
        return st, out, err
    from concurrent.futures import ThreadPoolExecutor
    with ThreadPoolExecutor(max_workers=8) as ex:
        res = list(ex.map(one, jobs))
    terms, meta = [], []
    for (ch, n, b, sched), (st, out, err) in zip(jobs, res):
        argv = argv_of(ch)
        ctx.count(("context", tuple(ch), n, b, sched)); ctx.dist("context-model")
        if st != 0:
            ctx.violation({"class": ("hang:context:" if st == "hang" else "context-run-failed:") + " ".join(argv), "chain": argv, "status": st,
                           "stderr_tail": err[-300:].decode("latin1"), "input_records": n, "main_flags": ["--records-per-batch", str(b)]})
            continue
        obs, okparse = [], True
        for line in out.decode("latin1").splitlines():
            if line.startswith("i=") and line[2:].isdigit():
                obs.append((0, int(line[2:])))
            elif line[:1] == "p" and line[1:].isdigit():
                obs.append((1, int(line[1:])))
            elif line[:1] == "e" and line[1:].isdigit():
                obs.append((2, int(line[1:])))
            else:
                okparse = False
        if not okparse:
            ctx.violation({"class": "context-unexpected-output", "chain": argv, "stdout_head": out[:300].decode("latin1")})
            continue
        terms.append("([%s], (%d, %d), [%s])" % ("; ".join(str(CDESC.get(v, v)) for v in ch), n, b, "; ".join("(%d, %d)" % p for p in obs)))
        meta.append((argv, n, b, sched, out))
    if terms:
        with ctx.timed("coq_context_cases"):
            bad, err = coq_eval_mismatches(ctx, "C04ctx", "C04.CtxModel", "list Z * (Z * Z) * list (Z * Z)", "ctx_chk", terms)
        ctx.cov["correspondence"]["context_runs"] = len(terms)
        ctx.cov["correspondence"]["context_rejected"] = len(bad)
        if err:
            ctx.violation({"broken": "context-evaluation", "detail": err[-1500:]}, found_input=False)
        for i in [x for x in bad if x >= 0][:3]:
            argv, n, b, sched, out = meta[i]
            ctx.violation({"class": "context-model:" + " ".join(argv), "what": "stdout (record NR / end-block NR) is not an outcome of the data model with record context (C04.CtxModel.ctx_chk)",
                           "chain": argv, "main_flags": ["--records-per-batch", str(b)], "input_records": n, "sched_seed": sched,
                           "stdout_head": out[:400].decode("latin1"),
                           "how": "seq 1 %d | sed s/^/i=/ | mlr --records-per-batch %d %s" % (n, b, " ".join(argv))})


DESC = {"cat": 0, "tee": 1, "print": 2, "tac": 3}


def early_exit_correspondence(ctx, tmpdir):
    """The data-carrying model with done flags (coq/C04/DataFlags.v, instances in EarlyInst.v) against the binary:
    for chains of cat / tee / head -n k / tac / put 'print' the stdout of every run (batch sizes, seeded perturbation)
    must be an outcome the model allows: the sequential result on the whole input when no printing verb is upstream
    of a head (C04_early_exit_determinism_head_tee_tac_chains), else the sequential result on some truncation."""
    rng = ctx.rng
    fixed = [["cat", 13], [13, 12], ["cat", 13, "tee", 12, "tac"], ["tee", 12], ["tac", 12], [12, "print"], ["print", 11],
             ["print", "cat", 12], [15, "tac", 11], ["tee", 11, 11], ["cat", "tee", "cat", 14, 13, 12]]
    pool_ = ["cat", "tee", "print", "tac", 11, 12, 13, 15]
    chains = fixed + [[rng.choice(pool_) for _ in range(rng.choice([2, 3, 4]))] for _ in range(10 if ctx.tier == "quick" else 150)]
    jobs = []
    for ci, ch in enumerate(chains):
        for rep in range(2 if ctx.tier == "quick" else 5):
            n = rng.choice([7, 12, 23, 40])
            b = rng.choice([1, 2, 3, 5])
            sched = None if rep == 0 else rng.randint(1, 10 ** 6)
            jobs.append((ci, ch, n, b, sched))

    def argv_of(ch, tag):
        argv, tees = [], []
        for v in ch:
            if argv:
                argv.append("then")
            if v == "cat":
                argv += ["cat"]
            elif v == "tee":
                f = os.path.join(tmpdir, "early-tee.%s.%d" % (tag, len(tees))); tees.append(f)
                argv += ["tee", f]
            elif v == "print":
                argv += ["put", 'print "p".$i']
            elif v == "tac":
                argv += ["tac"]
            else:
                argv += ["head", "-n", str(v - 10)]
        return argv, tees

    def one(j):
        ci, ch, n, b, sched = j
        argv, tees = argv_of(ch, "%d.%d.%d.%s" % (ci, n, b, sched))
        inp = "".join("i=%d\n" % k for k in range(1, n + 1)).encode()
        env = {"MLR_VERIF_SCHED": str(sched)} if sched is not None else {}
        st, out, err = mlr_run(ctx, ["--records-per-batch", str(b)] + argv, inp, timeout=60, env=env)
        teelines = None
        if ch[0] == "tee" and tees and os.path.exists(tees[0]):
            teelines = open(tees[0], "rb").read().count(b"\n")
        return st, out, err, argv, teelines
    from concurrent.futures import ThreadPoolExecutor
    with ThreadPoolExecutor(max_workers=8) as ex:
        res = list(ex.map(one, jobs))
    terms, meta = [], []
    for j, (st, out, err, argv, teelines) in zip(jobs, res):
        ci, ch, n, b, sched = j
        ctx.count(("early", tuple(ch), n, b, sched)); ctx.dist("early-exit-model")
        if st == "harness-error":   # the binary could not be started (e.g. build cache evicted mid-run): not an observation of mlr
            ctx.dist("early-exit-harness-error")
            continue
        if st == "hang":            # confirm with a long timeout before calling it a hang (loaded machine)
            env2 = {"MLR_VERIF_SCHED": str(sched)} if sched is not None else {}
            inp2 = "".join("i=%d\n" % k for k in range(1, n + 1)).encode()
            st, out, err = mlr_run(ctx, ["--records-per-batch", str(b)] + argv, inp2, timeout=240, env=env2)
        if st != 0:
            ctx.violation({"class": "early-exit-run-failed", "chain": argv, "status": st, "stderr_tail": err[-300:].decode("latin1"), "input_records": n,
                           "main_flags": ["--records-per-batch", str(b)]})
            continue
        obs, okparse = [], True
        for line in out.decode("latin1").splitlines():
            if line.startswith("i="):
                obs.append(2 * int(line[2:]))
            elif line.startswith("p"):
                obs.append(2 * int(line[1:]) + 1)
            else:
                okparse = False
        if not okparse:
            ctx.violation({"class": "early-exit-unexpected-output", "chain": argv, "stdout_head": out[:300].decode("latin1")})
            continue
        if teelines is not None and teelines != n:
            ctx.violation({"class": "tee-file-truncated", "what": "tee upstream of head must see every record (tee swallows the done flag): %d of %d lines" % (teelines, n),
                           "chain": argv, "main_flags": ["--records-per-batch", str(b)], "input_records": n, "sched_seed": sched,
                           "how": "seq 1 %d | sed s/^/i=/ | mlr --records-per-batch %d %s" % (n, b, " ".join(argv))})
        terms.append("([%s], (%d, %d), [%s])" % ("; ".join(str(DESC.get(v, v)) for v in ch), n, b, "; ".join(str(x) for x in obs)))
        meta.append((argv, n, b, sched, out))
    if terms:
        with ctx.timed("coq_early_cases"):
            bad, err = coq_eval_mismatches(ctx, "C04early", "C04.EarlyInst", "list Z * (Z * Z) * list Z", "early_chk", terms)
        ctx.cov["correspondence"]["early_exit_runs"] = len(terms)
        ctx.cov["correspondence"]["early_exit_rejected"] = len(bad)
        if err:
            ctx.violation({"broken": "early-exit-evaluation", "detail": err[-1500:]}, found_input=False)
        for i in [x for x in bad if x >= 0][:3]:
            argv, n, b, sched, out = meta[i]
            ctx.violation({"class": "early-exit-model:" + " ".join(argv), "what": "stdout is not an outcome of the data model with done flags (C04.EarlyInst.early_chk)",
                           "chain": argv, "main_flags": ["--records-per-batch", str(b)], "input_records": n, "sched_seed": sched,
                           "stdout_head": out[:400].decode("latin1"),
                           "how": "seq 1 %d | sed s/^/i=/ | mlr --records-per-batch %d %s" % (n, b, " ".join(argv))})


def arrival_histories(ctx):
    """tail -f contract: with --records-per-batch 1 --fflush each record's output is written before any further input arrives."""
    for verbs in (["cat"], ["put", "$y=$x+1"], ["cat", "then", "put", "$z=NR"], ["sec2gmt", "x", "then", "rename", "a,aa"]):
        p = subprocess.Popen([ctx.mlr(), "--records-per-batch", "1", "--fflush"] + verbs, stdin=subprocess.PIPE, stdout=subprocess.PIPE, stderr=subprocess.PIPE)
        ok = True
        try:
            for i in range(1, 6):
                p.stdin.write(f"a=k{i},x={i}\n".encode()); p.stdin.flush()
                r, _, _ = select.select([p.stdout], [], [], 8.0)
                if not r:   # confirm with a long wait before calling it a violation (loaded machine)
                    r, _, _ = select.select([p.stdout], [], [], 90.0)
                if not r:
                    ok = False
                    ctx.violation({"class": "tail-f-contract:" + " ".join(verbs), "what": "no output for record %d while the input pipe is still open" % i,
                                   "how": "mlr --records-per-batch 1 --fflush %s  fed one line at a time" % " ".join(verbs)})
                    break
                line = os.read(p.stdout.fileno(), 65536)
                if f"k{i}".encode() not in line:
                    ok = False
                    ctx.violation({"class": "tail-f-contract:" + " ".join(verbs), "what": "unexpected output", "got": line.decode("latin1")})
                    break
            ctx.count(("arrival", tuple(verbs)))
            ctx.dist("arrival_history")
        finally:
            try:
                p.stdin.close()
            except Exception:
                pass
            try:
                p.wait(timeout=5)
            except Exception:
                p.kill()


def replay(ctx, path):
    obj = json.loads(Path(path).read_text())
    if "chain" not in obj or "input_records" not in obj:
        print("replay: nothing to run for this replay file"); return
    import random
    inp = make_input(random.Random(1), obj.get("input_records", 350))
    flags = obj.get("main_flags", [])
    st, out, err = mlr_run(ctx, flags + obj["chain"], inp, timeout=20, env=obj.get("env", {}))
    ctx.count(("replay", 1)); ctx.count(("replay", 2))
    print("replay:", st, len(out))
    if st == "hang":
        ctx.violation(dict(obj, replayed=True))
