"""C01 — every file format round-trips its own output and speaks the standard dialect (DESIGN 3/C01)."""
import csv as pycsv, io, json
from concurrent.futures import ThreadPoolExecutor
from vlib import *

FMT = {"tsv": 0, "dkvp": 1, "nidx": 2, "csv": 3, "json": 4, "xtab": 5, "csvlite": 6, "pprint": 7, "markdown": 8, "dkvpx": 9}
WIDTH_FMTS = ("xtab", "pprint", "markdown")

# strings.TrimSpace: the Unicode White_Space runes, UTF-8 encoded (barred PPRINT and markdown readers trim every cell)
WS_SEQS = [b"\t", b"\n", b"\x0b", b"\x0c", b"\r", b" ", b"\xc2\x85", b"\xc2\xa0", b"\xe1\x9a\x80"] \
    + [b"\xe2\x80" + bytes([c]) for c in list(range(0x80, 0x8b)) + [0xa8, 0xa9, 0xaf]] + [b"\xe2\x81\x9f", b"\xe3\x80\x80"]


def trim_stable(x):
    return not any(x.startswith(q) or x.endswith(q) for q in WS_SEQS)


def md_escape(v):
    return v.replace(b"|", b"\\|")

# separators: (command-line spelling, bytes)
SEPS1 = [(",", b","), (";", b";"), ("|", b"|"), (":", b":"), ("semicolon", b";"), ("pipe", b"|"), ("comma", b","),
         ("colon", b":"), ("equals", b"="), ("space", b" "), ("tab", b"\t"), ("slash", b"/"), ("ascii_us", b"\x1f")]
SEPS_MULTI = [(";;", b";;"), ("::", b"::"), ("=>", b"=>"), (", ", b", "), ("usv_fs", b"\xe2\x90\x9f"), ("<sep>", b"<sep>")]

# custom record separators (command-line spelling, bytes): single bytes, multi-byte, last byte repeated inside, named aliases
RSEPS = [(";", b";"), ("pipe", b"|"), ("ascii_rs", b"\x1e"), (";;", b";;"), ("||", b"||"), ("usv_rs", b"\xe2\x90\x9e"), ("<rs>", b"<rs>"), ("abab", b"abab"), ("aab", b"aab")]

ALPHA_WEIGHTED = (
    [b"a", b"b", b"c", b"x", b"y", b"1", b"2", b"0"] * 6 +
    [b",", b";", b"\t", b" ", b"=", b":", b"|", b'"', b"\\", b"\r", b"\n", b"\r\n", b"-", b".", b"_", b"#", b"'"] * 3 +
    [b"\xc3\xa9", b"\xe2\x82\xac", b"\xf0\x9f\x98\x80", b"\xef\xbf\xbd", b"\x00", b"\x01", b"\x7f", b"\x1f", b"\\n", b"\\t", b"\\\\", b'""', b"\\."] * 2 +
    [b"\xff", b"\xc3", b"\x80", b"\xed\xa0\x80", b"\xef\xbb\xbf"]
)


# ------------------------------------------------------------------ generation
def gen_cell(rng, alpha, maxlen=6, empty_p=0.12):
    if rng.random() < empty_p:
        return b""
    r = rng.random()
    if r < 0.06:
        return rng.choice([b"-", b" ", b" x", b"x ", b"0x10", b"-0.0", b"1e5", b"\\.", b"a\\b", b"#c", b"\xef\xbb\xbfz"])
    return b"".join(rng.choice(alpha) for _ in range(rng.randint(1, maxlen)))


def alpha_without(excl):
    """weighted alphabet without pieces containing any of the excluded bytes"""
    ex = set(excl)
    return [p for p in ALPHA_WEIGHTED if not (set(p) & ex)]


def gen_keys(rng, n, alpha):
    keys, seen = [], set()
    while len(keys) < n:
        k = gen_cell(rng, alpha, maxlen=4, empty_p=0.03)
        if rng.random() < 0.6:
            k = b"k%d" % len(keys) + k
        if k in seen:
            continue
        seen.add(k); keys.append(k)
    return keys


def gen_nfields(rng, big=False):
    if big:
        return rng.randint(12, 40)
    r = rng.random() * 0.9
    if r < 0.08:
        return 1
    if r < 0.7:
        return rng.randint(2, 6)
    if r < 0.92:
        return rng.randint(7, 15)
    return rng.randint(16, 40)


def gen_write_case(ctx, fmt):
    """returns dict(fmt, args, flags, seps, recs, indomain, tags)"""
    rng = ctx.rng
    c = {"fmt": fmt, "tags": []}
    nrec = rng.choice([0, 1, 1, 2, 2, 3, 3, 4, 6])
    big = rng.random() < 0.12       # a share of the cases is wide (>= 12 fields crosses Mlrmap's hashing threshold)
    if fmt in ("tsv", "csv"):
        crlf = rng.random() < 0.25
        headerless = rng.random() < 0.15
        args = ["--o" + fmt]
        if fmt == "csv":
            quote_all = rng.random() < 0.25
            name, comma = rng.choice(SEPS1[:9]) if rng.random() < 0.4 else (None, b",")
            if name:
                args += ["--ofs", name]
            if quote_all:
                args += ["--quote-all"]
            c["flags"] = [headerless, quote_all, crlf]; c["seps"] = [comma]
        else:
            c["flags"] = [headerless, crlf]; c["seps"] = []
        if headerless:
            args += ["--headerless-%s-output" % fmt]
        if crlf:
            args += ["--ors", "crlf"]
        n = gen_nfields(rng, big)
        if big:
            nrec = min(nrec, 2)
        alpha = ALPHA_WEIGHTED
        shape = rng.random()
        keys = [b"%d" % (i + 1) for i in range(n)] if headerless and rng.random() < 0.8 else gen_keys(rng, n, alpha)
        recs = []
        for i in range(nrec):
            ks = keys
            if shape < 0.08 and i > 0:      # unset-fill: fewer keys
                ks = keys[:rng.randint(0, n)]; c["tags"].append("short-record")
            elif shape < 0.14 and i > 0:    # data longer than header
                ks = keys + [b"extra%d" % j for j in range(rng.randint(1, 3))]; c["tags"].append("long-record")
            elif shape < 0.20 and i > 0:    # schema change
                ks = list(keys); ks[rng.randrange(n)] = b"other"; c["tags"].append("schema-change")
            recs.append([(k, gen_cell(rng, alpha)) for k in ks])
        c["args"], c["recs"] = args, recs
    elif fmt == "dkvp":
        crlf = rng.random() < 0.2
        args = ["--odkvp"]
        if rng.random() < 0.5:
            fs, ps = (None, b","), (None, b"=")
        else:
            fs = rng.choice(SEPS1 + SEPS_MULTI)
            ps = rng.choice([s for s in SEPS1 + SEPS_MULTI if not (set(s[1]) & set(fs[1]))])
            args += ["--ofs", fs[0], "--ops", ps[0]]
        rs = None
        if rng.random() < 0.25:       # custom record separator (single- and multi-character line readers)
            rs = rng.choice([r for r in RSEPS if not (set(r[1]) & set(fs[1] + ps[1]))])
            crlf = False
            args += ["--ors", rs[0]]
        if crlf:
            args += ["--ors", "crlf"]
        c["flags"] = [crlf]; c["seps"] = [fs[1], ps[1]] + ([rs[1]] if rs else [])
        in_dom = rng.random() < 0.85
        valpha = alpha_without(fs[1] + b"\n" + (rs[1] if rs else b"")) if in_dom else ALPHA_WEIGHTED
        kalpha = alpha_without(fs[1] + ps[1] + b"\n" + (rs[1] if rs else b"")) if in_dom else ALPHA_WEIGHTED
        recs = []
        for i in range(nrec):
            n = gen_nfields(rng, big and i < 2) if rng.random() > 0.07 else 0
            keys = gen_keys(rng, n, kalpha)
            recs.append([(k, gen_cell(rng, valpha)) for k in keys])
        c["args"], c["recs"] = args, recs
    elif fmt == "dkvpx":
        crlf = rng.random() < 0.25
        args = ["-o", "dkvpx"]
        one = [s for s in SEPS1 if len(s[1]) == 1]
        if rng.random() < 0.6:
            fs, ps = (None, b","), (None, b"=")
        else:
            fs = rng.choice(one)
            ps = rng.choice([s for s in one if s[1] != fs[1]])
            args += ["--ofs", fs[0], "--ops", ps[0]]
        if crlf:
            args += ["--ors", "crlf"]
        c["flags"] = [crlf]; c["seps"] = [fs[1], ps[1]]
        alpha = ALPHA_WEIGHTED + [fs[1], ps[1], b'"', b"\n", b"\n\n", b'"\n', b"\r"] * 2     # everything is representable through quoting
        recs = []
        for i in range(nrec):
            n = gen_nfields(rng, big and i < 2) if rng.random() > 0.07 else 0
            keys = gen_keys(rng, n, alpha)
            if rng.random() < 0.9:
                keys = [k or b"k" for k in keys]
            recs.append([(k, gen_cell(rng, alpha)) for k in keys])
        c["args"], c["recs"] = args, recs
    elif fmt in ("csvlite", "pprint"):
        crlf = rng.random() < 0.2
        headerless = rng.random() < 0.1
        if fmt == "csvlite":
            fs = rng.choice([(None, b",")] * 3 + [("semicolon", b";"), ("tab", b"\t"), ("pipe", b"|"), (";;", b";;")])
            args = ["--ocsvlite"] + (["--ofs", fs[0]] if fs[0] else [])
            c["seps"] = [fs[1]]
            excl = fs[1] + b"\n"
        else:
            right = rng.random() < 0.25
            barred = rng.random() < 0.35
            headerless = rng.random() < 0.2
            args = ["--opprint"] + (["--right"] if right else []) + ([rng.choice(["--barred", "--barred-output"])] if barred else [])
            c["seps"] = []
            excl = b"|\n" if barred else b" \n\r"
        args += (["--headerless-csv-output"] if headerless else []) + (["--ors", "crlf"] if crlf else [])
        c["flags"] = [headerless, crlf] + ([right, barred] if fmt == "pprint" else [])
        in_dom = rng.random() < 0.85
        alpha = alpha_without(excl if fmt == "pprint" else excl + b"\r") if in_dom else ALPHA_WEIGHTED
        if fmt == "pprint" and barred:
            alpha = alpha + [b" ", b"\xc2\xa0", b"\xe2\x80\x83", b"\xe3\x80\x80", b"\xe2\x80"] * 2
        positional = headerless and rng.random() < 0.8
        recs, keys = [], None
        for i in range(nrec):
            if keys is None or rng.random() < 0.35:      # schema change (heterogeneity)
                n = gen_nfields(rng, big and i < 2) if rng.random() > 0.05 else 0
                keys = gen_keys(rng, n, alpha)
                if fmt == "pprint" and in_dom and not c["flags"][3]:
                    keys = [k or b"k" for k in keys]
                if positional:
                    keys = [b"%d" % (q + 1) for q in range(n)]
            recs.append([(k, gen_cell(rng, alpha, empty_p=0.12)) for k in keys])
        c["args"], c["recs"] = args, recs
    elif fmt == "markdown":
        crlf = rng.random() < 0.2
        aligned = rng.random() < 0.4
        args = [rng.choice(["--omd-aligned", "--omarkdown-aligned"])] if aligned else [rng.choice(["--omd", "--omarkdown"])]
        args += ["--ors", "crlf"] if crlf else []
        c["flags"] = [aligned, crlf]; c["seps"] = []
        in_dom = rng.random() < 0.85
        extra = [b" ", b"\xc2\xa0", b"\xe2\x80\x83", b"-", b"--"] * 2
        alpha = (alpha_without(b"|\n") if in_dom else ALPHA_WEIGHTED) + extra
        valpha = (alpha_without(b"\n") if in_dom else ALPHA_WEIGHTED) + extra + [b"|", b"\\|", b"\\", b":"] * 2    # "|" in a value is written "\|"
        recs, keys = [], None
        for i in range(nrec):
            if keys is None or rng.random() < 0.35:
                n = gen_nfields(rng, big and i < 2) if rng.random() > 0.05 else 0
                keys = gen_keys(rng, n, alpha)
            recs.append([(k, gen_cell(rng, valpha, empty_p=0.12)) for k in keys])
        c["args"], c["recs"] = args, recs
    elif fmt == "xtab":
        right = rng.random() < 0.2
        ps = rng.choice([(None, b" ")] * 3 + [("colon", b":"), ("tab", b"\t"), ("::", b"::"), ("equals", b"=")])
        args = ["--oxtab"] + (["--ops", ps[0]] if ps[0] else []) + (["--xvright"] if right else [])
        c["flags"] = [right]; c["seps"] = [ps[1]]
        in_dom = rng.random() < 0.85
        kalpha = alpha_without(ps[1] + b"\n") if in_dom else ALPHA_WEIGHTED
        valpha = alpha_without(b"\n") if in_dom else ALPHA_WEIGHTED
        recs = []
        for i in range(nrec):
            n = gen_nfields(rng, big and i < 2) if rng.random() > 0.05 else 0
            keys = gen_keys(rng, n, kalpha)
            recs.append([(k, gen_cell(rng, valpha)) for k in keys])
        c["args"], c["recs"] = args, recs
    elif fmt == "json":
        ml, wrap = rng.choice([(True, True), (False, True), (True, False), (False, False)])
        args = {(True, True): ["--ojson"], (False, True): ["--ojson", "--no-jvstack"], (True, False): ["--ojson", "--no-jlistwrap"],
                (False, False): ["--ojsonl"]}[(ml, wrap)]
        c["flags"] = [ml, wrap]; c["seps"] = []
        recs = []
        for i in range(nrec):
            n = gen_nfields(rng, big and i < 2) if rng.random() > 0.07 else 0
            keys = gen_keys(rng, n, ALPHA_WEIGHTED)
            recs.append([(k, gen_cell(rng, ALPHA_WEIGHTED)) for k in keys])
        c["args"], c["recs"] = args, recs
    elif fmt == "nidx":
        crlf = rng.random() < 0.2
        args = ["--onidx"]
        fs = (None, b" ")
        if rng.random() < 0.4:
            fs = rng.choice(SEPS1 + SEPS_MULTI)
            args += ["--ofs", fs[0]]
        rs = None
        if fs[0] and rng.random() < 0.4:
            rs = rng.choice([r for r in RSEPS if not (set(r[1]) & set(fs[1]))])
            crlf = False
            args += ["--ors", rs[0]]
        if crlf:
            args += ["--ors", "crlf"]
        c["flags"] = [crlf]; c["seps"] = [fs[1]] + ([rs[1]] if rs else [])
        in_dom = rng.random() < 0.85
        valpha = alpha_without(fs[1] + b"\n \t" + (rs[1] if rs else b"")) if in_dom else ALPHA_WEIGHTED
        recs = []
        for i in range(nrec):
            n = gen_nfields(rng, big and i < 2) if rng.random() > 0.07 else 0
            recs.append([(b"%d" % (j + 1), gen_cell(rng, valpha, empty_p=0.0 if in_dom else 0.1)) for j in range(n)])
        c["args"], c["recs"] = args, recs
    return c


def gen_boundary_case(ctx):
    """a record line whose length sits at a multiple of the 4096-byte bufio buffer, give or take two bytes (the line readers and
    go-csv gather longer lines piece by piece), LF or -- mostly -- CRLF; plain cells, so the length is known in advance"""
    rng = ctx.rng
    fmt = rng.choice(["tsv", "dkvp", "nidx", "csvlite", "csv", "dkvp", "tsv"])
    want_crlf = rng.random() < 0.7
    while True:
        c = gen_write_case(ctx, fmt)
        if ("crlf" in c["args"]) == want_crlf and ("--ors" in c["args"]) == want_crlf:      # no custom ORS here
            break
    n, nrec = rng.randint(1, 4), rng.randint(1, 3)
    headerless = fmt in ("tsv", "csv", "csvlite") and c["flags"][0]
    keys = [b"%d" % (q + 1) for q in range(n)] if fmt == "nidx" or headerless else [b"K%d" % q for q in range(n)]
    recs = [[(k, bytes(rng.choice(b"0123456789XYZ") for _ in range(rng.randint(1, 5)))) for k in keys] for _ in range(nrec)]
    fs = b"\t" if fmt == "tsv" else c["seps"][0]
    i, j = rng.randrange(nrec), rng.randrange(n)
    cur = sum(len(v) for _, v in recs[i]) + len(fs) * (n - 1)
    if fmt == "dkvp":
        cur += sum(len(k) + len(c["seps"][1]) for k, _ in recs[i])
    target = 4096 * rng.choice([1, 1, 2]) + rng.choice([-2, -1, -1, 0, 1])
    k, v = recs[i][j]
    recs[i][j] = (k, v + bytes(48 + q % 10 for q in range(target - cur)))
    c["recs"], c["tags"] = recs, ["buffer-boundary-line"]
    return c



# ------------------------------------------------------------------ representable domains (Python side, for the oracle)
def utf8_ok(b):
    try:
        b.decode("utf-8"); return True
    except UnicodeDecodeError:
        return False


def rect_unique(recs):
    if not recs:
        return True
    k0 = [k for k, _ in recs[0]]
    return len(set(k0)) == len(k0) and all([k for k, _ in r] == k0 for r in recs)


def in_domain(c):
    """is the record stream inside the format's representable domain (property statement), for the writer options used?"""
    recs, fmt = c["recs"], c["fmt"]
    if fmt in ("tsv", "csv"):
        if not rect_unique(recs):
            return False
        if recs and len(recs[0]) == 0:
            return False
        headerless = c["flags"][0]
        if headerless and recs and [k for k, _ in recs[0]] != [b"%d" % (i + 1) for i in range(len(recs[0]))]:
            return False
        if fmt == "csv":
            if recs and recs[0][0][0].startswith(b"\xef\xbb\xbf") and not c["flags"][1]:
                return False    # an unquoted first key starting with the BOM bytes is, by definition, a BOM
            if headerless and recs and recs[0][0][1].startswith(b"\xef\xbb\xbf") and not c["flags"][1]:
                return False
        return True
    if fmt == "dkvp":
        fs, ps = c["seps"][:2]; crlf = c["flags"][0]
        rs = c["seps"][2] if len(c["seps"]) > 2 else b""
        for r in recs:
            ks = [k for k, _ in r]
            if len(set(ks)) != len(ks):
                return False
            for k, v in r:
                if set(k) & (set(fs) | set(ps) | set(rs) | {10}) or set(v) & (set(fs) | set(rs) | {10}):
                    return False
            if r and not crlf and r[-1][1].endswith(b"\r"):
                return False
        return True
    if fmt == "dkvpx":
        for i, r in enumerate(recs):
            ks = [k for k, _ in r]
            if len(set(ks)) != len(ks) or any(k == b"" for k in ks):
                return False        # an empty key is written "=v" and read as a positional key
            if any(b"\r\n" in x for kv in r for x in kv):
                return False        # known finding dkvpx-reader-crlf-in-quoted-field-to-lf (as for CSV)
        if recs and recs[0] and recs[0][0][0].startswith(b"\xef\xbb\xbf") and not (set(recs[0][0][0]) & (set(b'\r\n"') | set(c["seps"][0] + c["seps"][1]))):
            return False            # an unquoted first key starting with the BOM bytes is a BOM
        return True
    if fmt in ("pprint", "markdown") and (fmt == "markdown" or c["flags"][3]):
        # barred PPRINT / markdown: cells are trimmed by the reader; "" and "-" are ordinary values (barred)
        headerless = fmt == "pprint" and c["flags"][0]
        for r in recs:
            ks = [k for k, _ in r]
            vs = [v for _, v in r]
            if not r or len(set(ks)) != len(ks) or any(44 in k for k in ks):
                return False
            if any(set(x) & {10} or not trim_stable(x) for x in ks + vs) or any(124 in k for k in ks):
                return False
            if fmt != "markdown" and any(124 in v for v in vs):
                return False    # barred PPRINT has no escape for "|"; the markdown writer writes it as "\|" (values only)
            if fmt == "markdown" and ks == [b""]:
                return False    # the joined keys "" mean "no header written yet": every such record gets its own header
            if headerless and ks != [b"%d" % (q + 1) for q in range(len(r))]:
                return False
        return True
    if fmt in ("csvlite", "pprint"):
        headerless = c["flags"][0]    # headerless output is read back with --implicit-csv-header: keys 1..n
        fs = c["seps"][0] if fmt == "csvlite" else b" "
        for i, r in enumerate(recs):
            ks = [k for k, _ in r]
            if not r or len(set(ks)) != len(ks):
                return False
            cells = ks + [v for _, v in r]
            if any(set(x) & (set(fs) | {10, 13}) for x in cells) or any(44 in k for k in ks):
                return False
            if fmt == "pprint" and (any(x == b"" for x in ks) or any(v == b"-" for _, v in r)):
                return False
            if fmt == "csvlite" and len(r) == 1 and (ks[0] == b"" or r[0][1] == b""):
                return False    # a single empty field is an empty line, which means schema change
            if headerless and ks != [b"%d" % (q + 1) for q in range(len(r))]:
                return False
            if i == 0 and ks[0].startswith(b"\xef") and not headerless:
                return False
        return True
    if fmt == "xtab":
        ps = c["seps"][0]
        if c["flags"][0] and ps != b" ":
            return False        # --xvright pads values with spaces: only representable when IPS is the space
        for r in recs:
            ks = [k for k, _ in r]
            if not r or len(set(ks)) != len(ks):
                return False
            for k, v in r:
                if set(k) & (set(ps) | {10}) or 10 in v or v.startswith(ps[:1]) or v.endswith(b"\r"):
                    return False
                if c["flags"][0] and v.startswith(b" "):
                    return False
        return True
    if fmt == "json":      # JSON text is Unicode: strings of valid UTF-8, distinct member names
        for r in recs:
            ks = [k for k, _ in r]
            if len(set(ks)) != len(ks) or not all(utf8_ok(k) and utf8_ok(v) for k, v in r):
                return False
        return True
    if fmt == "nidx":
        fs = c["seps"][0]; crlf = c["flags"][0]
        rs = c["seps"][1] if len(c["seps"]) > 1 else b""
        for r in recs:
            if [k for k, _ in r] != [b"%d" % (i + 1) for i in range(len(r))]:
                return False
            for k, v in r:
                if v == b"" or set(v) & (set(fs) | set(rs) | {10, 32, 9}):
                    return False
            if r and not crlf and r[-1][1].endswith(b"\r"):
                return False
        return True
    return False


def witness_class(c, got):
    """stable class of a round-trip failure, from the features of the input"""
    recs, fmt = c["recs"], c["fmt"]
    keys = [k for r in recs[:1] for k, _ in r]
    vals = [v for r in recs for _, v in r]
    if fmt == "tsv":
        if recs and len(recs[0]) == 1 and (keys[0] == b"" or any(v == b"" for v in vals)):
            return "tsv-single-column-empty-cell"
    if fmt == "dkvpx" and any(b"\r\n" in x for x in keys + vals):
        return "dkvpx-reader-crlf-in-quoted-field-to-lf"
    if fmt == "csv":
        crlf = c["flags"][2]
        if crlf and any(b"\r" in x for x in keys + vals):
            return "csv-ors-crlf-writer-drops-cr"
        if any(b"\r\n" in x for x in keys + vals):
            return "csv-reader-crlf-in-quoted-field-to-lf"
    return "other-" + fmt


# ------------------------------------------------------------------ running the implementation
def impl_write(ctx, cases):
    lines = []
    for c in cases:
        lines.append(json.dumps({"args": c["args"], "recs": [[[k.hex(), v.hex()] for k, v in r] for r in c["recs"]]}))
    rc, out, err = sh([ctx.implrun(), "c01-write"], inp="\n".join(lines) + "\n", timeout=300)
    rows = out.splitlines()
    if rc != 0 or len(rows) != len(cases):
        raise RuntimeError(f"implrun c01-write failed rc={rc}: {err[-800:]}")
    res = []
    for row in rows:
        o = json.loads(row)
        res.append((bytes.fromhex(o["out"]), o["err"]))
    return res


def parse_jsonl_bytes(out):
    """byte-exact parser for `mlr --ojsonl --jvquoteall` output (millerJSONEncodeString is byte-wise). None if malformed."""
    recs = []
    for line in out.split(b"\n"):
        if line == b"":
            continue
        i, n = 0, len(line)
        if line[i:i + 1] != b"{":
            return None
        i += 1
        rec = []

        def parse_str(i):
            if line[i:i + 1] != b'"':
                return None, i
            i += 1
            buf = bytearray()
            while i < n:
                ch = line[i]
                if ch == 0x22:
                    return bytes(buf), i + 1
                if ch == 0x5c:
                    e = line[i + 1:i + 2]
                    m = {b"\\": 0x5c, b'"': 0x22, b"n": 10, b"r": 13, b"t": 9, b"b": 8, b"f": 12, b"/": 0x2f}
                    if e in m:
                        buf.append(m[e]); i += 2
                    elif e == b"u":
                        buf.append(int(line[i + 2:i + 6], 16) & 0xff); i += 6
                    else:
                        return None, i
                else:
                    buf.append(ch); i += 1
            return None, i
        if line[i:i + 1] == b"}":
            recs.append(rec); continue
        while True:
            k, i = parse_str(i)
            if k is None or line[i:i + 2] != b": ":
                return None
            v, i = parse_str(i + 2)
            if v is None:
                return None
            rec.append((k, v))
            if line[i:i + 2] == b", ":
                i += 2; continue
            if line[i:i + 1] == b"}":
                break
            return None
        recs.append(rec)
    return recs


def impl_read(ctx, args, text):
    st, out, err = mlr_run(ctx, list(args) + ["--ojsonl", "--jvquoteall", "--no-auto-unflatten", "cat"], text, timeout=20)
    kind = classify_run(st, err)
    if kind == "ok":
        recs = parse_jsonl_bytes(out)
        return kind, recs, err
    return kind, None, err


def impl_read_many(ctx, jobs):
    """jobs: list of (args, text).  The real readers, in-process (implrun c01-read), 4 driver processes."""
    def chunk(js):
        inp = "\n".join(json.dumps({"args": a, "text": t.hex()}) for a, t in js) + "\n"
        rc, out, err = sh([ctx.implrun(), "c01-read"], inp=inp, timeout=900)
        rows = out.splitlines()
        if rc != 0 or len(rows) != len(js):
            raise RuntimeError(f"implrun c01-read failed rc={rc}: {err[-800:]}")
        res = []
        for row in rows:
            o = json.loads(row)
            if o["err"]:
                kind = "panic" if o["err"].startswith(("panic", "read: panic")) else "hang" if o["err"] == "hang" else "mlr_error"
                res.append((kind, None, re.sub(r"/\S*verif-c01-\S*/in", "(input)", o["err"]).encode()))
            else:
                res.append(("ok", [[(bytes.fromhex(k), bytes.fromhex(v)) for k, v in r] for r in o["recs"]], b""))
        return res
    n = 2
    parts = [jobs[i::n] for i in range(n)]
    with ThreadPoolExecutor(max_workers=n) as ex:
        outs = list(ex.map(chunk, parts))
    res = [None] * len(jobs)
    for p, part in enumerate(outs):
        for k, r in enumerate(part):
            res[p + k * n] = r
    return res


def cli_crosscheck(ctx, rjobs, n):
    """the same reads through the real command line (mlr --iF ... --ojsonl --jvquoteall): must equal the in-process route"""
    idx = sorted(ctx.rng.sample(range(len(rjobs)), min(n, len(rjobs))))
    with ThreadPoolExecutor(max_workers=2) as ex:
        res = list(ex.map(lambda i: impl_read(ctx, rjobs[i]["args"], rjobs[i]["text"]), idx))
    diff = timeouts = 0
    for i, (kind, recs, err) in zip(idx, res):
        j = rjobs[i]
        if kind == "hang":      # a loaded machine, not a verdict: one retry with a long limit, else inconclusive
            st, out, err = mlr_run(ctx, list(j["args"]) + ["--ojsonl", "--jvquoteall", "--no-auto-unflatten", "cat"], j["text"], timeout=120)
            kind = classify_run(st, err)
            recs = parse_jsonl_bytes(out) if kind == "ok" else None
            if kind == "hang":
                timeouts += 1
                continue
        if kind == "ok" and recs is None:      # nested values in the JSON-lines rendering: outside the byte-level parser
            timeouts += 1
            continue
        ctx.count(("cli", j["fmt"], tuple(j["args"]), j["text"]))
        if (kind, recs) != (j["status"], j["obs"]):
            diff += 1
            if diff <= 2:
                ctx.violation({"broken": "mlr command line and in-process reader disagree", "args": j["args"], "input_hex": j["text"].hex(),
                               "cli": [kind, repr(recs)[:600], err.decode("latin1")[-300:]], "driver": [j["status"], repr(j["obs"])[:600]]}, found_input=False)
    ctx.cov["cli_crosscheck"] = {"cases": len(idx), "different": diff, "inconclusive(timeouts or nested output)": timeouts}


# ------------------------------------------------------------------ read-side option sets
def read_variants(ctx, c):
    """reader option sets compatible with the writer options of case c: list of (args, flags, seps, same_domain)"""
    rng = ctx.rng
    fmt = c["fmt"]
    out = []
    if fmt == "tsv":
        headerless = c["flags"][0]
        dd = rng.random() < 0.85
        rg = rng.random() < 0.2
        args = ["--itsv"] + (["--implicit-tsv-header"] if headerless else []) + ([] if dd else ["--no-dedupe-field-names"]) + (["--allow-ragged-csv-input"] if rg else [])
        out.append((args, [headerless, dd, rg], []))
    elif fmt == "csv":
        headerless = c["flags"][0]
        comma = c["seps"][0]
        dd = rng.random() < 0.85
        rg = rng.random() < 0.2
        lazy = rng.random() < 0.15
        args = ["--icsv"] + (["--ifs", sepname(comma)] if comma != b"," else []) + (["--implicit-csv-header"] if headerless else []) \
            + ([] if dd else ["--no-dedupe-field-names"]) + (["--allow-ragged-csv-input"] if rg else []) + (["--lazy-quotes"] if lazy else [])
        out.append((args, [headerless, lazy, dd, rg], [comma]))
    elif fmt == "dkvp":
        fs, ps = c["seps"][:2]
        rs = c["seps"][2:]
        dd = rng.random() < 0.85
        args = ["--idkvp"] + (["--ifs", sepname(fs), "--ips", sepname(ps)] if (fs, ps) != (b",", b"=") else []) + ([] if dd else ["--no-dedupe-field-names"]) \
            + (["--irs", rsname(rs[0])] if rs else [])
        out.append((args, [False, dd], [fs, ps] + rs))
    elif fmt == "dkvpx":
        fs, ps = c["seps"]
        dd = rng.random() < 0.85
        args = ["-i", "dkvpx"] + (["--ifs", sepname(fs), "--ips", sepname(ps)] if (fs, ps) != (b",", b"=") else []) + ([] if dd else ["--no-dedupe-field-names"])
        out.append((args, [dd], [fs, ps]))
    elif fmt in ("csvlite", "pprint"):
        dd = rng.random() < 0.85
        rg = rng.random() < 0.15
        imp = c["flags"][0]
        common = ([] if dd else ["--no-dedupe-field-names"]) + (["--allow-ragged-csv-input"] if rg else []) \
            + ([rng.choice(["--implicit-csv-header", "--hi", "--headerless-csv-input"])] if imp else [])
        if fmt == "csvlite":
            fs = c["seps"][0]
            out.append((["--icsvlite"] + (["--ifs", sepname(fs)] if fs != b"," else []) + common, [dd, rg, imp], [fs]))
        else:
            barred = c["flags"][3]
            out.append((["--ipprint"] + (["--barred-input"] if barred else []) + common, [dd, rg, barred, imp], []))
    elif fmt == "markdown":
        dd = rng.random() < 0.85
        rg = rng.random() < 0.15
        out.append(([rng.choice(["--imd", "--imarkdown"])] + ([] if dd else ["--no-dedupe-field-names"]) + (["--allow-ragged-csv-input"] if rg else []),
                    [dd, rg, False, False], []))
    elif fmt == "xtab":
        ps = c["seps"][0]
        dd = rng.random() < 0.85
        out.append((["--ixtab"] + (["--ips", sepname(ps)] if ps != b" " else []) + ([] if dd else ["--no-dedupe-field-names"]), [dd], [ps]))
    elif fmt == "json":
        if all(utf8_ok(k) and utf8_ok(v) for r in c["recs"] for k, v in r):   # encoding/json replaces invalid UTF-8: outside the reference
            out.append((["--ijson"] if rng.random() < 0.7 else ["--ijsonl"], [], []))
    elif fmt == "nidx":
        fs = c["seps"][0]
        rs = c["seps"][1:]
        if fs == b" " and not rs and rng.random() < 0.6:
            out.append((["--inidx"], [False, True], [fs]))          # default: whitespace regex
        else:
            out.append((["--inidx", "--ifs", sepname(fs), "--repifs"] + (["--irs", rsname(rs[0])] if rs else []), [True, False], [fs] + rs))
    return out


def rsname(b):
    return {v: k for k, v in RSEPS}[b]


def sepname(b):
    return {b"\t": "tab", b" ": "space", b"\x1f": "ascii_us", b"\xe2\x90\x9f": "usv_fs"}.get(b, b.decode("latin1"))


# ------------------------------------------------------------------ extra reader inputs (not produced by Miller's writers)
def rfc4180_text(rng, rows, comma, style, eol):
    """any legal RFC-4180 rendering: style 0 minimal, 1 all quoted, 2 random extra quoting"""
    out = bytearray()
    for row in rows:
        cells = []
        for f in row:
            need = any(ch in f for ch in (comma, b'"', b"\r", b"\n"))
            q = need or style == 1 or (style == 2 and rng.random() < 0.5)
            cells.append(b'"' + f.replace(b'"', b'""') + b'"' if q else f)
        out += comma.join(cells) + eol
    return bytes(out)


def gen_json_text(rng):
    """RFC-8259 text: stream of flat objects with string members, any legal escape spelling and whitespace; sometimes other constructs"""
    def ws():
        return b"".join(rng.choice([b" ", b"\n", b"\t", b"\r"]) for _ in range(rng.choice([0, 0, 0, 1, 1, 2])))

    def jstr(b):
        out = bytearray(b'"')
        for ch in b.decode("utf-8"):
            o = ord(ch)
            r = rng.random()
            if ch in '"\\':
                out += b"\\" + ch.encode() if r < 0.8 else b"\\u%04x" % o
            elif o < 0x20:
                short = {8: b"\\b", 12: b"\\f", 10: b"\\n", 13: b"\\r", 9: b"\\t"}
                out += short[o] if o in short and r < 0.6 else (b"\\u%04X" % o if r < 0.8 else b"\\u%04x" % o)
            elif ch == "/" and r < 0.5:
                out += b"\\/"
            elif o < 0x10000 and not (0xD800 <= o <= 0xDFFF) and r < 0.15:
                out += b"\\u%04x" % o
            else:
                out += ch.encode("utf-8")
        return bytes(out) + b'"'
    alpha = [p for p in ALPHA_WEIGHTED if utf8_ok(p)] + [b"/", b"\x08", b"\x0c"]
    objs = []
    for _ in range(rng.randint(0, 4)):
        members = []
        for _ in range(rng.choice([0, 1, 2, 3, 5])):
            k = rng.choice([b"a", b"b", b"c", gen_cell(rng, alpha, maxlen=3)])
            v = jstr(gen_cell(rng, alpha)) if rng.random() < 0.93 else rng.choice([b"1", b"true", b"null", b"[1]", b'{"x": "y"}', b"0x1F"])
            members.append(ws() + jstr(k) + ws() + b":" + ws() + v + ws())
        objs.append(b"{" + (b",".join(members) if members else ws()) + b"}")
    if rng.random() < 0.5:
        return ws() + b"[" + ws() + (b"," + ws()).join(o + ws() for o in objs) + b"]" + ws()
    return ws() + b"".join(o + ws() + rng.choice([b"\n", b"", b" "]) for o in objs)


EXTRA_KINDS = [k for k in os.environ.get("C01_EXTRA", "").split(",") if k]      # development aid


def gen_extra_read_cases(ctx, n):
    rng = ctx.rng
    jobs = []
    for _ in range(n):
        kind = rng.choice(EXTRA_KINDS if EXTRA_KINDS else ["lite-hand", "pprint-hand", "lite-implicit-hand", "pprint-implicit-hand", "barred-hand", "barred-hand", "md-hand", "md-hand", "xtab-hand", "json-hand", "json-hand", "csv-legal", "csv-legal", "csv-legal", "csv-bom", "csv-noeol", "csv-ragged", "csv-implicit", "csv-lazy", "csv-dupkeys",
                           "tsv-hand", "tsv-ragged", "tsv-implicit", "dkvp-hand", "dkvp-repifs", "nidx-ws", "nidx-hand", "dkvpx-hand", "dkvpx-hand"])
        ctx.dist("read-extra:" + kind)
        if kind in ("barred-hand", "md-hand"):
            md = kind == "md-hand"
            alpha = [p for p in ALPHA_WEIGHTED if b"\n" not in p and b"\r" not in p] + [b" ", b"  ", b"-", b"\xc2\xa0", b"\xe2\x80\x83"] * 4 + [b"|", b"+"] * 3 \
                + ([b"\\|", b"\\", b"\\\\|", b"|"] * 3 if md else [])
            ncol = rng.randint(1, 5)
            lines = []
            for _ in range(rng.randint(1, 8)):
                r = rng.random()
                n = ncol if rng.random() < 0.8 else max(0, ncol + rng.randint(-2, 2))
                if r < 0.55:
                    cells = [b"".join(rng.choice(alpha) for _ in range(rng.randint(0, 4))) for _ in range(n)]
                    lines.append(b"|" + b"".join(b" " * rng.randint(0, 2) + x + b" " * rng.randint(0, 3) + b"|" for x in cells))
                elif r < 0.75:
                    lines.append((b"| " + b" | ".join(rng.choice([b"---", b"---", b"-", b"--:", b":--", b"---:", b":-:", b"", b"x"]) for _ in range(n)) + b" |") if md
                                 else (b"+-" + b"-+-".join(b"-" * rng.randint(0, 4) for _ in range(n)) + b"-+"))
                elif r < 0.85:
                    lines.append(b"")
                else:
                    lines.append(b"".join(rng.choice(alpha) for _ in range(rng.randint(1, 8))))
            eol = rng.choice([b"\n", b"\n", b"\r\n"])
            text = eol.join(lines) + (eol if rng.random() < 0.85 else b"")
            dd = rng.random() < 0.7
            rg = rng.random() < 0.4
            imp = rng.random() < 0.3
            jobs.append({"fmt": "markdown" if md else "pprint",
                         "args": (["--imd"] if md else ["--ipprint", "--barred-input"]) + ([] if dd else ["--no-dedupe-field-names"])
                         + (["--allow-ragged-csv-input"] if rg else []) + (["--implicit-csv-header"] if imp else []),
                         "flags": [dd, rg, not md, imp], "seps": [], "text": text, "kind": kind})
        elif kind in ("lite-hand", "pprint-hand", "lite-implicit-hand", "pprint-implicit-hand"):
            imp = "implicit" in kind
            kind0 = kind
            kind = kind.replace("-implicit", "")
            fs = b"," if kind == "lite-hand" else b" "
            alpha = [p for p in ALPHA_WEIGHTED if b"\n" not in p and b"\r" not in p] + [fs, fs, fs + fs, b"-"] * 8
            lines = [b"".join(rng.choice(alpha) for _ in range(rng.randint(1, 10))) if rng.random() < 0.85 else b"" for _ in range(rng.randint(1, 7))]
            if rng.random() < 0.15:
                lines[0] = b"\xef\xbb\xbf" + lines[0]
            eol = rng.choice([b"\n", b"\n", b"\r\n"])
            text = eol.join(lines) + (eol if rng.random() < 0.85 else b"")
            dd = rng.random() < 0.7
            rg = rng.random() < 0.4
            base = ["--icsvlite"] if kind == "lite-hand" else ["--ipprint"]
            jobs.append({"fmt": "csvlite" if kind == "lite-hand" else "pprint",
                         "args": base + ([] if dd else ["--no-dedupe-field-names"]) + (["--allow-ragged-csv-input"] if rg else []) + (["--implicit-csv-header"] if imp else []),
                         "flags": [dd, rg, imp] if kind == "lite-hand" else [dd, rg, False, imp], "seps": [fs] if kind == "lite-hand" else [], "text": text, "kind": kind0})
        elif kind == "xtab-hand":
            ps = rng.choice([b" ", b" ", b":", b"::"])
            alpha = [p for p in ALPHA_WEIGHTED if b"\n" not in p] + [ps, ps + ps, b" "] * 8
            lines = [b"".join(rng.choice(alpha) for _ in range(rng.randint(0, 10))) if rng.random() < 0.8 else b"" for _ in range(rng.randint(1, 7))]
            eol = rng.choice([b"\n", b"\n", b"\r\n"])
            text = eol.join(lines) + (eol if rng.random() < 0.85 else b"")
            dd = rng.random() < 0.7
            jobs.append({"fmt": "xtab", "args": ["--ixtab"] + (["--ips", sepname(ps)] if ps != b" " else []) + ([] if dd else ["--no-dedupe-field-names"]),
                         "flags": [dd], "seps": [ps], "text": text, "kind": kind})
        elif kind == "json-hand":
            jobs.append({"fmt": "json", "args": ["--ijson"], "flags": [], "seps": [], "text": gen_json_text(rng), "kind": kind})
        elif kind.startswith("csv"):
            comma = rng.choice([b",", b",", b";", b"|"])
            ncol = rng.randint(1, 8)
            alpha = ALPHA_WEIGHTED if kind != "csv-lazy" else ALPHA_WEIGHTED
            nrows = rng.randint(1, 4)
            rows = [[gen_cell(rng, alpha) for _ in range(ncol)] for _ in range(nrows)]
            if kind != "csv-implicit" and kind != "csv-dupkeys":
                rows[0] = gen_keys(rng, ncol, alpha)
            if kind == "csv-dupkeys":
                rows[0] = [rng.choice([b"a", b"b", b"a_2", b"c"]) for _ in range(ncol)]
            if rows[0][0].startswith(b"\xef\xbb\xbf"):
                rows[0][0] = b"k" + rows[0][0]
            if kind == "csv-ragged":
                for r in rows[1:]:
                    if rng.random() < 0.7:
                        d = rng.randint(-2, 2)
                        if d < 0:
                            del r[max(1, len(r) + d):]
                        else:
                            r += [gen_cell(rng, alpha) for _ in range(d)]
            eol = rng.choice([b"\n", b"\n", b"\r\n"])
            text = rfc4180_text(rng, rows, comma, rng.randrange(3), eol)
            if kind == "csv-lazy":
                # bare quotes inside unquoted fields / stray quotes after closing quote
                text = text.replace(b"a", b'a"', 1) if rng.random() < 0.5 else text.replace(b'",', b'"x,', 1)
            if kind == "csv-bom":
                text = b"\xef\xbb\xbf" + text
            if kind == "csv-noeol" and text.endswith(eol):
                text = text[:-len(eol)] + rng.choice([b"", b"\r"])
            implicit = kind == "csv-implicit"
            lazy = kind == "csv-lazy" or rng.random() < 0.1
            rg = kind == "csv-ragged" and rng.random() < 0.8
            dd = rng.random() < 0.8
            args = ["--icsv"] + (["--ifs", sepname(comma)] if comma != b"," else []) + (["--implicit-csv-header"] if implicit else []) \
                + ([] if dd else ["--no-dedupe-field-names"]) + (["--allow-ragged-csv-input"] if rg else []) + (["--lazy-quotes"] if lazy else [])
            jobs.append({"fmt": "csv", "args": args, "flags": [implicit, lazy, dd, rg], "seps": [comma], "text": text, "kind": kind,
                         "rows": rows if kind in ("csv-legal", "csv-bom") else None})
        elif kind.startswith("tsv"):
            ncol = rng.randint(1, 6)
            alpha = [p for p in ALPHA_WEIGHTED if b"\t" not in p and b"\n" not in p]
            lines = [b"\t".join(gen_cell(rng, alpha, empty_p=0.05) for _ in range(ncol if kind != "tsv-ragged" or i == 0 else max(0, ncol + rng.randint(-2, 2))))
                     for i in range(rng.randint(1, 4))]
            if kind == "tsv-implicit" and rng.random() < 0.5:
                lines.insert(rng.randrange(len(lines) + 1), b"")
            eol = rng.choice([b"\n", b"\n", b"\r\n"])
            text = eol.join(lines) + (eol if rng.random() < 0.85 else b"")
            implicit = kind == "tsv-implicit"
            rg = kind == "tsv-ragged" and rng.random() < 0.8
            dd = rng.random() < 0.8
            args = ["--itsv"] + (["--implicit-tsv-header"] if implicit else []) + ([] if dd else ["--no-dedupe-field-names"]) + (["--allow-ragged-csv-input"] if rg else [])
            jobs.append({"fmt": "tsv", "args": args, "flags": [implicit, dd, rg], "seps": [], "text": text, "kind": kind})
        elif kind == "dkvpx-hand":
            fs, ps = rng.choice([(b",", b"="), (b",", b"="), (b";", b":"), (b" ", b"=")])
            alpha = [p for p in ALPHA_WEIGHTED if len(p) == 1 or rng.random() < 0.3] + [fs, ps, b'"', b'""', b"\n", b"\r\n", b'"\n', b"\n\n"] * 6
            text = b"".join(rng.choice(alpha) for _ in range(rng.randint(0, 24))) + rng.choice([b"\n", b"\n", b"", b"\r", b"\r\n"])
            if rng.random() < 0.1:
                text = b"\xef\xbb\xbf" + text
            dd = rng.random() < 0.7
            args = ["-i", "dkvpx"] + (["--ifs", sepname(fs), "--ips", sepname(ps)] if (fs, ps) != (b",", b"=") else []) + ([] if dd else ["--no-dedupe-field-names"])
            jobs.append({"fmt": "dkvpx", "args": args, "flags": [dd], "seps": [fs, ps], "text": text, "kind": kind})
        elif kind.startswith("dkvp"):
            fs, ps = rng.choice([((None, b","), (None, b"=")), (("semicolon", b";"), ("colon", b":")), ((";;", b";;"), ("=>", b"=>")), (("space", b" "), ("equals", b"="))])
            alpha = [p for p in ALPHA_WEIGHTED if b"\n" not in p] + [fs[1], ps[1], fs[1], ps[1]] * 8
            lines = [b"".join(rng.choice(alpha) for _ in range(rng.randint(0, 14))) for _ in range(rng.randint(1, 4))]
            eol = rng.choice([b"\n", b"\n", b"\r\n"])
            text = eol.join(lines) + (eol if rng.random() < 0.85 else b"")
            rep = kind == "dkvp-repifs"
            dd = rng.random() < 0.7
            args = ["--idkvp"] + (["--ifs", fs[0], "--ips", ps[0]] if fs[0] else []) + (["--repifs"] if rep else []) + ([] if dd else ["--no-dedupe-field-names"])
            rs = []
            if rng.random() < 0.4:      # custom IRS on hand-made text: pieces of the IRS, unterminated last lines
                r = rng.choice(RSEPS)
                rs = [r[1]]
                parts = [b"".join(rng.choice(alpha + [r[1][-1:], r[1][:1], r[1][:-1]] * 3) for _ in range(rng.randint(0, 8))) for _ in range(rng.randint(1, 4))]
                text = r[1].join(parts) + rng.choice([r[1], r[1], b"", r[1][-1:], r[1][:-1]])
                args += ["--irs", r[0]]
            jobs.append({"fmt": "dkvp", "args": args, "flags": [rep, dd], "seps": [fs[1], ps[1]] + rs, "text": text, "kind": kind})
        else:
            alpha = [p for p in ALPHA_WEIGHTED if b"\n" not in p] + [b" ", b" ", b"  ", b"\t", b" \t "] * 6
            lines = [b"".join(rng.choice(alpha) for _ in range(rng.randint(0, 14))) for _ in range(rng.randint(1, 4))]
            eol = rng.choice([b"\n", b"\n", b"\r\n"])
            text = eol.join(lines) + (eol if rng.random() < 0.85 else b"")
            if kind == "nidx-ws":
                jobs.append({"fmt": "nidx", "args": ["--inidx"], "flags": [False, True], "seps": [b" "], "text": text, "kind": kind})
            else:
                rep = rng.random() < 0.5
                jobs.append({"fmt": "nidx", "args": ["--inidx", "--ifs", "space"] + (["--repifs"] if rep else []), "flags": [rep, False], "seps": [b" "], "text": text, "kind": kind})
    return jobs


# ------------------------------------------------------------------ Coq terms
def coq_bytes(b):   # overrides vlib.coq_bytes: hex string literal, decoded inside Coq (Harness.H)
    return '(H "%s")' % b.hex()


def coq_record(rec):
    return "[" + "; ".join(f"({coq_bytes(k)}, {coq_bytes(v)})" for k, v in rec) + "]"


def coq_records(recs):
    return "[" + ";\n  ".join(coq_record(r) for r in recs) + "]"


def coq_eval2(ctx, name, terms, shard, timeout=3000, workers=2):
    """one coqc per shard evaluating BOTH `mismatches chk` and `mismatches compared` (own variant of vlib.coq_eval_mismatches:
    two results per run, bounded parallelism).  Returns (bad indices, not-compared indices, error text)."""
    GEN.mkdir(exist_ok=True)

    def one(k):
        part = terms[k:k + shard]
        f = GEN / f"cases_{name}_{k // shard}.v"
        f.write_text("\n".join(["From Miller Require Import Base.Bytes Base.Record C01.Model C01.Harness.",
                                "Definition cases : list case := [", ";\n".join(part), "].",
                                "Definition M := Eval vm_compute in mismatches chk cases.", "Print M.",
                                "Definition K := Eval vm_compute in mismatches compared cases.", "Print K."]) + "\n")
        rc, out, err = sh(["timeout", str(timeout), "coqc", "-Q", ".", "Miller", str(f)], cwd=COQ, timeout=timeout + 30)
        for ext in (".vo", ".vok", ".vos", ".glob"):
            f.with_suffix(ext).unlink(missing_ok=True)
        (f.parent / ("." + f.stem + ".aux")).unlink(missing_ok=True)
        res = []
        for nm in ("M", "K"):
            m = re.search(nm + r"\s*=\s*\[(.*?)\]\s*:\s*list N", out, re.S)
            if rc != 0 or not m:
                return k, None, f"{f.name}: rc={rc} {err[-1500:]}"
            res.append([k + int(t.strip().replace("%N", "")) for t in m.group(1).split(";") if t.strip()])
        f.unlink(missing_ok=True)
        return k, res, ""
    bad, notcmp, errs = [], [], ""
    with ThreadPoolExecutor(max_workers=workers) as ex:
        for k, res, e in ex.map(one, range(0, len(terms), shard)):
            if res is None:
                errs += e + "\n"; bad.append(-1 - k)
            else:
                bad += res[0]; notcmp += res[1]
    return bad, notcmp, errs


def t_flags(fl):
    return coq_list([coq_bool(x) for x in fl])


def t_seps(seps):
    return coq_list([coq_bytes(s) for s in seps])


def impl_widths(ctx, strings):
    strings = sorted(set(strings))
    if not strings:
        return {}
    rc, out, err = sh([ctx.implrun(), "c01-width"], inp="\n".join(x.hex() for x in strings) + "\n", timeout=300)
    rows = out.splitlines()
    if rc != 0 or len(rows) != len(strings):
        raise RuntimeError(f"implrun c01-width failed rc={rc}: {err[-500:]}")
    return {x: int(r) for x, r in zip(strings, rows)}


def t_write(c, obs):
    if c["fmt"] in WIDTH_FMTS:
        tab = coq_list([f"({coq_bytes(x)}, {n}%N)" for x, n in sorted(c["widths"].items()) if n != len(x)])
        return f"CWriteW {FMT[c['fmt']]}%N {t_flags(c['flags'])} {t_seps(c['seps'])} {tab} {coq_records(c['recs'])} {coq_option(obs, coq_bytes)}"
    return f"CWrite {FMT[c['fmt']]}%N {t_flags(c['flags'])} {t_seps(c['seps'])} {coq_records(c['recs'])} {coq_option(obs, coq_bytes)}"


def t_read(fmt, flags, seps, text, obs):
    return f"CRead {FMT[fmt]}%N {t_flags(flags)} {t_seps(seps)} {coq_bytes(text)} {coq_option(obs, coq_records)}"


# ------------------------------------------------------------------ standard-dialect oracles (search only)
def py_csv_read(text, comma):
    rdr = pycsv.reader(io.StringIO(text.decode("latin1"), newline=""), delimiter=comma.decode("latin1"), quotechar='"', doublequote=True, strict=True)
    return [[f.encode("latin1") for f in row] for row in rdr]


def run(ctx):
    quick = ctx.tier == "quick"
    ctx.cov["rule"] = ("record streams per format (TSV, DKVP, NIDX, CSV, JSON/JSON Lines, XTAB, csvlite, PPRINT): 0-6 records, 1-40 fields, cells from a weighted alphabet (separators, quotes, "
                       "backslash, CR, LF, CRLF, TAB, NUL, multi-byte and invalid UTF-8, BOM, '-', empty, leading/trailing space) x writer options "
                       "(headerless, --quote-all, --ors crlf, --ofs/--ops custom incl. multi-char and named aliases) x reader options "
                       "(implicit header, ragged, lazy quotes, no-dedupe, repifs, NIDX whitespace regex); plus reader-only texts (any legal RFC-4180 quoting, "
                       "BOM, missing final EOL, ragged, duplicate keys, hand-made TSV/DKVP/NIDX lines). Compared: bytes written by the real writers (implrun c01-write) "
                       "vs write_F; records read by `mlr --iF --ojsonl --jvquoteall` vs read_F; a case is non-trivial when distinct (format, options, data)")
    ctx.cov["trusted_base"] = ["Coq 8.16.1 kernel + vm_compute", "no axioms (Print Assumptions: closed under the global context)",
                               "python harness (generator, byte-level JSON-lines parser) and implrun c01-write driver",
                               "bufio / os pipes below the line and CSV readers are not modelled (whole-input functions)"]
    ctx.assumptions = ["models are whole-text functions: batching and buffering are not modelled here (C04)",
                       "go-csv behaviour after a quoting error inside a record is not modelled (cases skipped and counted)",
                       "comma/IFS bytes below 0x80"]
    forbidden_gate(ctx, ["Base", "C01"])
    ok, why = check_props(ctx, "C01/Props.v", ["C01/Harness.vo", "C01/ProofsDkvp.vo", "C01/ProofsTsv.vo", "C01/ProofsCsv.vo", "C01/ProofsCsv2.vo", "C01/ProofsJson.vo", "C01/ProofsXtab.vo", "C01/ProofsLite.vo", "C01/ProofsPprint.vo", "C01/ProofsBarred.vo", "C01/ProofsMd.vo", "C01/ProofsDkvpx.vo", "C01/ProofsIrs.vo"])

    # ---- generate and run the writers
    per_fmt = {"tsv": 180, "csv": 240, "dkvp": 120, "nidx": 70, "json": 120, "xtab": 120, "csvlite": 140, "pprint": 220, "markdown": 120, "dkvpx": 150} if quick else {"tsv": 4000, "csv": 5000, "dkvp": 3000, "nidx": 1500, "json": 3000, "xtab": 2500, "csvlite": 2500, "pprint": 4000, "markdown": 2500, "dkvpx": 3000}
    only = os.environ.get("C01_ONLY")      # development aid: restrict the generated formats
    if only:
        per_fmt = {k: v for k, v in per_fmt.items() if k in only.split(",")}
    wcases = []
    for fmt, n in per_fmt.items():
        for _ in range(n):
            c = gen_write_case(ctx, fmt)
            wcases.append(c)
            ctx.dist("write:" + fmt)
            for t in set(c["tags"]):
                ctx.dist("write-shape:" + t)
            nf = max([len(r) for r in c["recs"]] + [0])
            ctx.dist("fields>=12" if nf >= 12 else "fields<12")
    for _ in range(0 if (only and "boundary" not in only) else 24 if quick else 300):
        c = gen_boundary_case(ctx)
        wcases.append(c)
        ctx.dist("write-boundary:" + c["fmt"])
    with ctx.timed("impl_write"):
        wres = impl_write(ctx, wcases)
    def wstrings(c):
        return [y for r in c["recs"] for kv in r for x in kv for y in ((x, md_escape(x)) if c["fmt"] == "markdown" else (x,))]
    wtab = impl_widths(ctx, [x for c in wcases if c["fmt"] in WIDTH_FMTS for x in wstrings(c)])
    for c in wcases:
        if c["fmt"] in WIDTH_FMTS:
            c["widths"] = {x: wtab[x] for x in wstrings(c)}
    terms, meta = [], []
    for c, (out, err) in zip(wcases, wres):
        obs = None if err else out
        c["out"], c["err"] = out, err
        terms.append(t_write(c, obs)); meta.append(("write", c))
        ctx.count(("w", c["fmt"], tuple(c["args"]), tuple(map(tuple, c["recs"]))))
    # ---- read back what the writers produced (both the correspondence input and the round-trip oracle)
    rjobs = []
    for c in wcases:
        if c["err"]:
            continue
        for (args, flags, seps) in read_variants(ctx, c):
            rjobs.append({"fmt": c["fmt"], "args": args, "flags": flags, "seps": seps, "text": c["out"], "kind": "writer-output", "wcase": c})
    extra = gen_extra_read_cases(ctx, 380 if quick else 8000)
    rjobs += extra
    with ctx.timed("impl_read"):
        rres = impl_read_many(ctx, [(j["args"], j["text"]) for j in rjobs])
    for j, (kind, recs, err) in zip(rjobs, rres):
        j["status"], j["obs"], j["stderr"] = kind, recs, err
        ctx.dist("read:" + j["fmt"] + ":" + kind)
        if kind in ("panic", "hang") or (kind == "ok" and recs is None):
            ctx.violation({"broken": "reader " + kind, "args": j["args"], "input_hex": j["text"].hex(), "stderr": err.decode("latin1")[-500:],
                           "class": "reader-" + kind})
            continue
        terms.append(t_read(j["fmt"], j["flags"], j["seps"], j["text"], recs if kind == "ok" else None)); meta.append(("read", j))
        ctx.count(("r", j["fmt"], tuple(j["args"]), j["text"]))
    with ctx.timed("cli_crosscheck"):
        cli_crosscheck(ctx, [j for j in rjobs if "status" in j and j["status"] in ("ok", "mlr_error")], 60 if quick else 1500)
    # ---- codec / utf8 cases
    codec_inputs = [gen_cell(ctx.rng, ALPHA_WEIGHTED, maxlen=8) for _ in range(200 if quick else 5000)]
    rc, out, err = sh([ctx.implrun(), "c01-tsv-codec"], inp="\n".join(s.hex() for s in codec_inputs) + "\n")
    for s, line in zip(codec_inputs, out.splitlines()):
        e, d = (bytes.fromhex(x) for x in (line.split(" ") + [""])[:2])
        terms.append(f"CTsvCodec {coq_bytes(s)} {coq_bytes(e)} {coq_bytes(d)}"); meta.append(("codec", s))
        ctx.count(("codec", s))
    ctx.dist("tsv-codec", len(codec_inputs))
    for i in (0, len(wcases) // 2, len(wcases) + 5, len(terms) - 3):
        if 0 <= i < len(meta) and meta[i][0] in ("write", "read"):
            m = meta[i][1]
            ctx.sample({"dir": meta[i][0], "fmt": m["fmt"], "args": m["args"], "text_or_out_hex": (m.get("text") or m.get("out") or b"")[:120].hex()})

    # ---- correspondence in Coq
    bad, cerr = [], ""
    if ok:
        with ctx.timed("coq_cases"):
            bad, skipped, cerr = coq_eval2(ctx, "C01", terms, shard=len(terms) // 2 + 1)   # two coqc processes
        ctx.cov["correspondence"] = {"cases": len(terms), "mismatches": len(bad), "read_cases_not_compared(csv quoting error / json outside the reference)": len(skipped)}
        if cerr:
            ctx.violation({"broken": "correspondence-evaluation", "detail": cerr[-2000:]}, found_input=False)
    # ---- the property itself on the implementation's outputs (failing-input search)
    failing = probe_witnesses(ctx)
    found = len(failing) + oracle(ctx, wcases, rjobs, failing)
    if not ok:
        if not found:
            ctx.violation({"broken": why}, found_input=False)
        return
    nrep = 0
    for i in bad[:40]:
        if i < 0:
            continue
        kind, m = meta[i]
        if kind in ("write", "read"):
            d = {"broken": "correspondence C01.Harness.chk (%s %s): model and implementation differ" % (kind, m["fmt"]), "args": m["args"]}
            if kind == "write":
                d.update({"recs_hex": [[(k.hex(), v.hex()) for k, v in r] for r in m["recs"]], "observed_hex": m["out"].hex(), "observed_err": m["err"]})
            else:
                d.update({"input_hex": m["text"].hex(), "status": m["status"], "observed": repr(m["obs"])[:2000]})
            # is there a property-level failure on the same input?  (then it was reported by the oracle already)
            nrep += ctx.violation(d, found_input=False) and 1 or 0
        else:
            nrep += ctx.violation({"broken": "correspondence C01.Harness.chk (%s)" % kind, "input_hex": m.hex()}, found_input=False) and 1 or 0
        if nrep >= 3:
            break


def oracle(ctx, wcases, rjobs, already=()):
    """read(write(x)) = x for every in-domain stream; independent CSV reader/writer agree with Miller. Returns #violations found."""
    found = 0
    seen_classes = set(already)
    n_rt = n_std = 0
    for j in rjobs:
        c = j.get("wcase")
        if c is not None and in_domain(c):
            n_rt += 1
            want = c["recs"]
            if j["fmt"] == "csv" and j["flags"][1]:
                pass  # lazy quotes accept the same well-formed text
            got = j["obs"]
            if j["status"] != "ok" or got != want:
                cls = witness_class(c, got)
                if cls in seen_classes:
                    continue
                seen_classes.add(cls)
                found += 1
                ctx.violation({"broken": "round trip read_F(write_F(recs)) = recs", "class": cls, "fmt": c["fmt"], "write_args": c["args"], "read_args": j["args"],
                               "recs_hex": [[(k.hex(), v.hex()) for k, v in r] for r in want], "written_hex": c["out"].hex(),
                               "observed": None if got is None else [[(k.hex(), v.hex()) for k, v in r] for r in got],
                               "status": j["status"], "stderr": j["stderr"].decode("latin1")[-300:],
                               "expected": "the records written", "input": repr(want)[:600]})
        # standard dialect, CSV: an independent RFC-4180 reader recovers the cells Miller wrote
        if c is not None and c["fmt"] == "csv" and not c["err"] and in_domain(c) and c["recs"]:
            n_std += 1
            try:
                cells = py_csv_read(c["out"], c["seps"][0])
            except Exception as ex:
                cells = "python csv: %r" % ex
            if isinstance(cells, list) and len(c["recs"][0]) == 1:
                cells = [r if r else [b""] for r in cells]      # python's csv returns [] for a blank line: the single empty cell
            hdr = [] if c["flags"][0] else [[k for k, _ in c["recs"][0]]]
            want_cells = hdr + [[v for _, v in r] for r in c["recs"]]
            if c["flags"][2]:
                continue_ok = True  # CRLF mode: judged by the round-trip class above
            if cells != want_cells:
                cls = "csv-writer-not-rfc4180"
                if c["flags"][2] and any(b"\r" in f for row in want_cells for f in row):
                    cls = "csv-ors-crlf-writer-drops-cr"
                elif c["flags"][2] and any(b"\n" in f for row in want_cells for f in row):
                    cls = "csv-ors-crlf-writer-lf-to-crlf-in-quoted-field"
                if cls not in seen_classes:
                    seen_classes.add(cls); found += 1
                    ctx.violation({"broken": "RFC-4180 reader (python csv) recovers Miller's cells", "class": cls, "write_args": c["args"],
                                   "written_hex": c["out"].hex(), "expected_cells": repr(want_cells)[:800], "observed_cells": repr(cells)[:800], "input": repr(c["recs"])[:600]})
        # Miller recovers the cells of any legal RFC-4180 text
        if j.get("rows") is not None and j["kind"] in ("csv-legal", "csv-bom") and not j["flags"][0]:
            rows = j["rows"]
            if len(set(rows[0])) == len(rows[0]) and all(len(r) == len(rows[0]) for r in rows):
                n_std += 1
                want = [list(zip(rows[0], r)) for r in rows[1:]]
                if j["status"] != "ok" or j["obs"] != want:
                    cls = "csv-reader-crlf-in-quoted-field-to-lf" if any(b"\r\n" in f for r in rows for f in r) else "csv-reader-not-rfc4180"
                    if cls not in seen_classes:
                        seen_classes.add(cls); found += 1
                        ctx.violation({"broken": "Miller reads legal RFC-4180 text", "class": cls, "read_args": j["args"], "input_hex": j["text"].hex(),
                                       "expected": repr(want)[:800], "observed": repr(j["obs"])[:800], "status": j["status"], "input": repr(j["text"])[:600]})
    ctx.cov["oracle"] = {"roundtrip_checked": n_rt, "standard_dialect_checked": n_std, "classes_found": sorted(seen_classes)}
    return found


WITNESSES = [
    # (class, write args, read args, records)
    # repaired in /repo (d7dac80b0, 6c1ca4524): not known findings any more, a regression is a plain VIOLATION
    ("regression-of-d7dac80b0-tsv-header-key-not-decoded", ["--otsv"], ["--itsv"], [[(b"a\\b", b"1"), (b"c\td\r\n", b"2")]]),
    ("regression-of-6c1ca4524-tsv-encoder-invalid-utf8-to-fffd", ["--otsv"], ["--itsv"], [[(b"a\xff", b"\xff\xc3")]]),
    ("tsv-single-column-empty-cell", ["--otsv"], ["--itsv"], [[(b"a", b"")]]),
    ("csv-reader-crlf-in-quoted-field-to-lf", ["--ocsv"], ["--icsv"], [[(b"a", b"x\r\ny")]]),
    ("csv-ors-crlf-writer-drops-cr", ["--ocsv", "--ors", "crlf"], ["--icsv"], [[(b"a", b"x\ry")]]),
    ("regression-of-567ffc2e0-dkvpx-newline-in-quotes-dropped", ["-o", "dkvpx"], ["-i", "dkvpx"], [[(b"a", b"x\n\ny"), (b"b", b"\nz"), (b"c\"\n", b"\"\n\n")]]),
    ("dkvpx-reader-crlf-in-quoted-field-to-lf", ["-o", "dkvpx"], ["-i", "dkvpx"], [[(b"a", b"x\r\ny")]]),
    ("regression-of-80287c7ad-markdown-escaped-bar-not-unescaped", ["--omd"], ["--imd"], [[(b"a", b"x|y"), (b"b", b"2\\|"), (b"c", b"|")]]),
    ("regression-of-75f65c604-markdown-dash-only-row-dropped", ["--omd"], ["--imd"], [[(b"a", b"-"), (b"b", b"")], [(b"a", b"---"), (b"b", b"--")]]),
    ("regression-of-75f65c604-markdown-aligned-dash-only-row-dropped", ["--omd-aligned"], ["--imd"], [[(b"a", b"-"), (b"b", b"")]]),
    # representational limits of PPRINT (theorems C01_pprint_*_refuted): must stay as modelled
]
# reader-only regression probes of repaired defects: (name, read args, text, expected records)
READ_PROBES = [
    ("regression-of-ff74c4ac8-barred-implicit-header-panic", ["--ipprint", "--barred-input", "--implicit-csv-header"], b"abc\n| x | y |\n", [[(b"1", b"x"), (b"2", b"y")]]),
    ("regression-of-6be21e050-markdown-alignment-colons", ["--imd"], b"| a | b |\n| ---: | :--- |\n| 1 | x |\n", [[(b"a", b"1"), (b"b", b"x")]]),
    ("regression-of-3c48708b5-multi-char-irs-repeated-last-byte", ["--idkvp", "--irs", ";;"], b"a=1;;b=2;;c=3;", [[(b"a", b"1")], [(b"b", b"2")], [(b"c", b"3;")]]),
    ("regression-of-a96f6ff95-multi-char-irs-drops-chunk", ["--idkvp", "--irs", "usv_rs"], b"a=x\xc3\x9ey\xe2\x90\x9eb=2\xe2\x90\x9e", [[(b"a", b"x\xc3\x9ey")], [(b"b", b"2")]]),
]


def probe_witnesses(ctx):
    """the minimal witness of every finding class, every run (classes do not depend on the seed); also tells when one was repaired"""
    outs = impl_write(ctx, [{"args": w[1], "recs": w[3]} for w in WITNESSES])
    reads = impl_read_many(ctx, [(w[2], o[0]) for w, o in zip(WITNESSES, outs)])
    status = {}
    for (cls, wargs, rargs, recs), (out, err), (kind, got, rerr) in zip(WITNESSES, outs, reads):
        ctx.count(("witness", cls))
        holds = (not err) and kind == "ok" and got == recs
        status[cls] = "round-trips (repaired)" if holds else "fails"
        if not holds:
            ctx.violation({"broken": "round trip read_F(write_F(recs)) = recs (minimal witness)", "class": cls, "write_args": wargs, "read_args": rargs,
                           "recs_hex": [[(k.hex(), v.hex()) for k, v in r] for r in recs], "written_hex": out.hex(), "status": kind,
                           "observed": None if got is None else [[(k.hex(), v.hex()) for k, v in r] for r in got],
                           "stderr": rerr.decode("latin1")[-300:], "expected": "the records written", "input": repr(recs)})
    for (name, rargs, text, want), (kind, got, rerr) in zip(READ_PROBES, impl_read_many(ctx, [(p[1], p[2]) for p in READ_PROBES])):
        ctx.count(("read-probe", name))
        status[name] = "holds" if (kind == "ok" and got == want) else "fails"
        if status[name] == "fails":
            ctx.violation({"broken": "reader regression probe", "class": name, "read_args": rargs, "input_hex": text.hex(), "status": kind,
                           "observed": repr(got)[:800], "expected": repr(want)[:800], "stderr": rerr.decode("latin1")[-300:], "input": repr(text)})
    # python csv on --ors crlf output with an LF inside a cell
    out, err = impl_write(ctx, [{"args": ["--ocsv", "--ors", "crlf"], "recs": [[(b"a", b"p\nq")]]}])[0]
    cells = py_csv_read(out, b",")
    cls = "csv-ors-crlf-writer-lf-to-crlf-in-quoted-field"
    status[cls] = "fails" if cells != [[b"a"], [b"p\nq"]] else "holds (repaired)"
    if cells != [[b"a"], [b"p\nq"]]:
        ctx.violation({"broken": "RFC-4180 reader (python csv) recovers Miller's cells (minimal witness)", "class": cls, "write_args": ["--ocsv", "--ors", "crlf"],
                       "recs_hex": [[("61", "700a71")]], "written_hex": out.hex(), "observed_cells": repr(cells), "expected_cells": "[[b'a'], [b'p\\nq']]", "input": "a = p<LF>q"})
    ctx.cov["finding_witnesses"] = status
    return {c for c, v in status.items() if v == "fails"}


def replay(ctx, path):
    obj = json.loads(Path(path).read_text())
    if "recs_hex" in obj and "write_args" in obj:
        recs = [[(bytes.fromhex(k), bytes.fromhex(v)) for k, v in r] for r in obj["recs_hex"]]
        c = {"args": obj["write_args"], "recs": recs}
        out, err = impl_write(ctx, [c])[0]
        kind, got, stderr = impl_read(ctx, obj["read_args"], out) if "read_args" in obj else ("ok", None, b"")
        ctx.count(("replay", path)); ctx.count(("replay2", path))
        print("replay: wrote %r err=%r; read back status=%s equal=%s" % (out[:200], err, kind, got == recs))
        if "read_args" in obj and (kind != "ok" or got != recs):
            ctx.violation(dict(obj, replayed=True))
        elif "read_args" not in obj:
            cells = py_csv_read(out, b",")
            print("replay: python csv cells", cells)
    elif "input_hex" in obj and "read_args" in obj:
        text = bytes.fromhex(obj["input_hex"])
        kind, got, stderr = impl_read(ctx, obj["read_args"], text)
        ctx.count(("replay", path)); ctx.count(("replay2", path))
        print("replay: status=%s observed=%r expected=%s" % (kind, got, obj.get("expected")))
        if repr(got)[:800] != obj.get("expected"):
            ctx.violation(dict(obj, replayed=True))
    else:
        print("replay: nothing replayable in", path)
