"""C11 -- record-selecting verbs only select (DESIGN 3/C11).

Pipeline: Coq theorems over coq/C11/Model.v (Props.v) ; correspondence: the real mlr and the model under vm_compute on
the same generated streams/options ; oracle: the documented behaviour restated with Python list operations, evaluated on
mlr's own output (this is the failing-input search)."""
import json, os
from concurrent.futures import ThreadPoolExecutor
from vlib import *

SCALE = float(os.environ.get("VERIF_SCALE", "1") or 1)     # development knob: fraction of the case volume
PAR = int(os.environ.get("VERIF_PAR", "2") or 2)           # number of coqc processes / mlr runs at once
FS, PS = b";", b":"
IOFLAGS = ["--dkvp", "--ifs", ";", "--ofs", ";", "--ips", ":", "--ops", ":"]
KEYS = [b"a", b"b", b"c", b"x", b"y"]
VALS = [b"", b"1", b"2", b"3", b"10", b"x", b"y", b"z", b"pan", b"Pan", b"wye", b"0x1", b"1.0", b"-4", b"x,y", b"y,z", b"a=1", b"true"]


# ------------------------------------------------------------------ streams
def gen_stream(rng, nmax):
    """heterogeneous records: 1..4 distinct keys from a small pool, values from a small pool (duplicates, empties,
    commas, '=' inside values), a few exact duplicate records"""
    n = rng.choice([0, 1, 2, 3, 5, 8, nmax, nmax]) if rng.random() < 0.5 else rng.randint(0, nmax)
    shape = rng.random()
    recs = []
    if rng.random() < 0.04:
        # group-by values containing the joiner: (x,y | z) and (x | y,z) have the same joined text
        for _ in range(max(n, 2)):
            a, b = rng.choice([(b"x,y", b"z"), (b"x", b"y,z"), (b"x", b"z"), (b"x,y", b"y,z")])
            recs.append([(b"a", a), (b"b", b), (b"c", rng.choice(VALS[1:5]))])
        return recs
    if rng.random() < 0.05:
        # records whose "k=v,k=v" rendering (OFS "," OPS "=", whatever the I/O separators are) coincides although the
        # records differ: a value holds the text ",<name>=<value>" that is two fields in another record
        base = [(k, rng.choice([b"1", b"2", b"3", b"x"])) for k in KEYS[:rng.randint(2, 4)]]
        for _ in range(max(n, 2)):
            r, out = list(base), []
            if rng.random() < 0.4:
                j = rng.randrange(len(r))
                r[j] = (r[j][0], rng.choice([b"1", b"2"]))
            i = 0
            while i < len(r):
                k, v = r[i]
                while i + 1 < len(r) and rng.random() < 0.4:
                    i += 1
                    v = v + b"," + r[i][0] + b"=" + r[i][1]
                out.append((k, v))
                i += 1
            recs.append(out)
        return recs
    if rng.random() < 0.05:
        # the same values under different field names (uniq -x / count-distinct -x: the names are part of the group)
        two = rng.sample(VALS[1:8], 2)
        for _ in range(max(n, 2)):
            ks = [b"a"] + rng.sample([b"x", b"y", b"b", b"c"], rng.randint(1, 2))
            if rng.random() < 0.3:
                ks = ks[::-1]
            recs.append([(k, rng.choice(two)) for k in ks])
        return recs
    nvals = rng.choice([2, 3, 5, len(VALS)])
    vals = rng.sample(VALS, nvals)
    for _ in range(n):
        if recs and rng.random() < 0.12:
            recs.append(list(rng.choice(recs)))
            continue
        if shape < 0.45:
            ks = KEYS[:3]                       # homogeneous a,b,c
        elif shape < 0.8:
            ks = [k for k in KEYS[:4] if rng.random() < 0.7] or [b"a"]
        else:
            ks = rng.sample(KEYS, rng.randint(1, 4))
        recs.append([(k, rng.choice(vals)) for k in ks])
    return recs


def enc(recs):
    return b"".join(FS.join(k + PS + v for k, v in r) + b"\n" for r in recs)


def dec(out):
    recs = []
    if out == b"":
        return recs
    for line in out.split(b"\n")[:-1] if out.endswith(b"\n") else out.split(b"\n"):
        if line == b"":
            recs.append([])
            continue
        r = []
        for f in line.split(FS):
            k, _, v = f.partition(PS)
            r.append((k, v))
        recs.append(r)
    return recs


def gen_nrs(rng, n):
    """context NR (= FNR) values the records carry.  A verb downstream of filter / tac / sort / head -g ... receives records
    whose NR is NOT their arrival index: non-contiguous, out of order, repeated.  None = the arrival index."""
    m = rng.random()
    if m < 0.3 or n == 0:
        return None
    if m < 0.5:                                   # survivors of an upstream filter
        out, c = [], 0
        for _ in range(n):
            c += rng.randint(1, 4)
            out.append(c)
        return out
    if m < 0.65:                                  # after tac
        return list(range(n, 0, -1)) if rng.random() < 0.5 else [x + 7 for x in range(n, 0, -1)]
    if m < 0.85:                                  # after sort / shuffle / group-by
        out = list(range(1, n + 1))
        rng.shuffle(out)
        return out
    if m < 0.95:                                  # repeated (bootstrap, fill-down style copies)
        return [rng.randint(1, max(n // 2, 1)) for _ in range(n)]
    return [1000000 + i for i in range(n)]


def run_verbs(ctx, reqs, seed=7):
    """reqs: list of (args, recs) or (args, recs, nrs).  One implrun process runs them all in-process (real ParseCLI + Transform).
    Returns list of (status, out_records, err) with status 0 / 1 (error) / 'panic'."""
    lines = []
    for req in reqs:
        args, recs = req[0], req[1]
        d = {"seed": seed, "args": args, "recs": [[[k.decode("latin1"), v.decode("latin1")] for k, v in r] for r in recs]}
        if len(req) > 2 and req[2] is not None:
            d["nrs"] = req[2]              # context NR/FNR carried by each record (default: arrival index)
        lines.append(json.dumps(d))
    rc, out, err = sh([ctx.implrun(), "verbs"], inp="\n".join(lines) + "\n", timeout=900)
    outs = out.split("\n")[:len(reqs)]
    if rc != 0 or len(outs) != len(reqs):
        raise RuntimeError("implrun verbs failed rc=%s: %s" % (rc, err[-800:]))
    res = []
    for ln in outs:
        o = json.loads(ln)
        if o.get("ok"):
            res.append((0, [[(k.encode("latin1"), v.encode("latin1")) for k, v in r] for r in (o.get("out") or [])], b""))
        elif "panic" in o:
            res.append(("panic", [], o["panic"].encode()))
        else:
            res.append((1, [], o.get("err", "").encode()))
    return res


def mlr(ctx, args, recs):
    st, out, err = mlr_run(ctx, ["--seed", "7"] + IOFLAGS + args, enc(recs), timeout=120)
    if st == "hang":            # a loaded machine, not a hang, until a long timeout says otherwise (none of these verbs loops)
        st, out, err = mlr_run(ctx, ["--seed", "7"] + IOFLAGS + args, enc(recs), timeout=900)
    return st, dec(out), err


# ------------------------------------------------------------------ reference (documentation restated on Python lists)
def gkey(fs, r):
    d = dict(r)
    if any(f not in d for f in fs):
        return None
    return tuple(d[f] for f in fs)           # the tuple of values: what "group" means in the documentation


def joined(fs, r):
    k = gkey(fs, r)
    return None if k is None else b",".join(k)


def groups(fs, recs, keyf=gkey):
    g = {}
    for r in recs:
        k = keyf(fs, r)
        if k is not None:
            g.setdefault(k, []).append(r)
    return g                                    # dict keeps first-appearance order


def ref(verb, zs, ss, inp, keyf=gkey):
    """expected output, or None when only weaker laws are stated (checked separately)"""
    if verb == 1:
        n, hasg = zs
        fs = ss[0] if hasg else []
        if n >= 0:
            seen, out = {}, []
            for r in inp:
                k = keyf(fs, r)
                if k is None:
                    continue
                seen[k] = seen.get(k, 0) + 1
                if seen[k] <= n:
                    out.append(r)
            return out
        if not hasg:
            return inp[:max(len(inp) + n, 0)]
        return None
    if verb == 2:
        n, plus = zs
        fs = ss[0]
        if plus:
            skip, seen, out = max(n - 1, 0), {}, []
            for r in inp:
                k = keyf(fs, r)
                if k is None:
                    continue
                seen[k] = seen.get(k, 0) + 1
                if seen[k] > skip:
                    out.append(r)
            return out
        n = abs(n)
        return [r for g in groups(fs, inp, keyf).values() for r in (g[-n:] if n > 0 else [])]
    if verb == 3:
        n, b, e = zs
        rem = 0 if (b and not e) else n - 1
        seen, out = {}, []
        for r in inp:
            k = keyf(ss[0], r)
            if k is None:
                continue
            j = seen.get(k, 0)
            seen[k] = j + 1
            if j % n == rem:
                out.append(r)
        return out
    if verb == 7:
        return inp[::-1]
    if verb == 8:
        return [r for g in groups(ss[0], inp, keyf).values() for r in g]
    if verb == 9:
        g = {}
        for r in inp:
            g.setdefault(tuple(k for k, _ in r), []).append(r)
        return [r for x in g.values() for r in x]
    if verb == 10:
        return []
    if verb == 11:
        return [r for r in inp if any(v != b"" for _, v in r)]
    if verb == 12:
        out = []
        for r in inp:
            if r not in out:
                out.append(r)
        return out
    if verb in (17, 18, 19):
        inv, fs, oname = zs[0], ss[0], ss[1][0]
        seen = {}
        for r in inp:
            k = ukey(inv, fs, r)
            if k is None:
                continue
            if k not in seen:
                seen[k] = [0, list(dict(k).items())]
            seen[k][0] += 1
        if verb == 17:
            return [p for _, p in seen.values()]
        if verb == 19:
            return [[(b"count", str(len(seen)).encode())]]
        return [list(dict(p + [(oname, str(c).encode())]).items()) for c, p in seen.values()]
    if verb in (20, 21):
        oname = ss[1][0]
        firsts, counts = [], []
        for r in inp:
            if r in firsts:
                counts[firsts.index(r)] += 1
            else:
                firsts.append(r)
                counts.append(1)
        if verb == 21:
            return [[(oname, str(len(firsts)).encode())]]
        return [([(oname, str(c).encode())] + r) if oname not in dict(r) else [(a, str(c).encode() if a == oname else b) for a, b in r]
                for r, c in zip(firsts, counts)]
    if verb == 22:
        inv, fs = zs[0], ss[0]
        m = {}
        for r in inp:
            d = dict(r)
            for f in ([k for k, _ in r if k not in fs] if inv else fs):
                cm = m.setdefault(f, {})
                if f in d:
                    cm[d[f]] = cm.get(d[f], 0) + 1
        return [[(b"field", f), (b"value", v), (b"count", str(c).encode())] for f, cm in m.items() for v, c in cm.items()]
    return None


def int_norm(v):
    try:
        return str(int(v.decode("latin1"), 0)).encode()
    except ValueError:
        return v


def int_spelling_collision(inp):
    """two different records that differ only in how an integer is spelled (0x1 / 1): uniq -a keys its map by the JSON
    rendering of the record, which prints both as 1"""
    seen = {}
    for r in inp:
        k = tuple((a, int_norm(b)) for a, b in r)
        if k in seen and seen[k] != r:
            return True
        seen.setdefault(k, r)
    return False


def ukey(inv, fs, r):
    """what a group of uniq / count-distinct is in the documentation: the values of the named fields; with -x the
    record's other fields (names and values)"""
    d = dict(r)
    ns = [k for k, _ in r if k not in fs] if inv else fs
    if any(f not in d for f in ns):
        return None
    return tuple((f, d[f]) for f in ns)


def ujoined(inv, fs, r):
    k = ukey(inv, fs, r)
    if k is None:
        return None
    j = b",".join(v for _, v in k)
    return b",".join(f for f, _ in k) + b";" + j if inv else j


def uniq_collision(inv, fs, inp):
    seen = {}
    for r in inp:
        k = ukey(inv, fs, r)
        if k is not None:
            j = ujoined(inv, fs, r)
            k = tuple(v for _, v in k) if not inv else k
            if j in seen and seen[j] != k:
                return True
            seen.setdefault(j, k)
    return False


def is_subseq(a, b):
    it = iter(b)
    return all(any(x == y for y in it) for x in a)


def has_collision(fs, inp):
    seen = {}
    for r in inp:
        k = gkey(fs, r)
        if k is not None:
            j = b",".join(k)
            if j in seen and seen[j] != k:
                return True
            seen.setdefault(j, k)
    return False


# ------------------------------------------------------------------ case generation
def pick_fs(rng):
    return rng.choice([[b"a"], [b"a"], [b"b"], [b"a", b"b"], [b"a", b"b"], [b"b", b"a"], [b"c"], [b"x"], [b"a", b"x"], [b"nosuch"]])


def ks_for(rng, n):
    return rng.choice([0, 1, 2, max(n - 1, 0), n, n + 1, 3, 10])


def fixed_group_cases():
    """run on EVERY seed: every grouped verb on streams mixing records whose group-by field is (a) absent, (b) present
    and empty, (c) present and non-empty, and for two group-by fields one absent / one empty.  An empty value and a missing
    field must not share a group (the joined key of the former is "", the latter has no key)."""
    E = b""
    s1 = [[(b"a", E), (b"v", b"1")], [(b"b", b"q"), (b"v", b"2")], [(b"a", b"x"), (b"v", b"3")], [(b"a", E), (b"v", b"4")],
          [(b"v", b"5")], [(b"a", b"x"), (b"v", b"6")], [(b"a", E), (b"v", b"7")], [(b"b", b"q"), (b"v", b"8")]]
    s2 = [[(b"b", E), (b"v", b"1")], [(b"a", E), (b"v", b"2")], [(b"a", E), (b"b", E), (b"v", b"3")], [(b"a", b"x"), (b"b", E), (b"v", b"4")],
          [(b"a", E), (b"b", b"x"), (b"v", b"5")], [(b"v", b"6")], [(b"a", E), (b"b", E), (b"v", b"7")], [(b"a", b"x"), (b"b", E), (b"v", b"8")],
          [(b"b", E), (b"v", b"9")], [(b"a", E), (b"v", b"10")], [(b"b", E), (b"a", E), (b"v", b"11")]]
    s3 = [[(b"v", b"1")], [(b"a", E), (b"v", b"2")], [(b"v", b"3")], [(b"a", E), (b"v", b"4")], [(b"v", b"5")], [(b"a", E), (b"v", b"6")]]
    out = []
    for inp in (s1, s2, s3):
        for fs in ([b"a"], [b"b"], [b"a", b"b"], [b"b", b"a"]):
            g = b",".join(fs).decode()
            G = ["-g", g]
            for k in (1, 2, -1):
                out.append((1, [k, 1], [fs], ["head", "-n", str(k)] + G, inp))
            out.append((2, [1, 0], [fs], ["tail", "-n", "1"] + G, inp))
            out.append((2, [2, 1], [fs], ["tail", "-n", "+2"] + G, inp))
            out.append((3, [2, 0, 0], [fs], ["decimate", "-n", "2"] + G, inp))
            out.append((3, [2, 1, 0], [fs], ["decimate", "-n", "2", "-b"] + G, inp))
            out.append((8, [], [fs], ["group-by", g], inp))
            out.append((13, [1, 1], [[b"n"], fs], ["cat", "-n"] + G, inp))
            out.append((13, [1, 1], [[b"idx"], fs], ["cat", "-N", "idx"] + G, inp))
            out.append((16, [1], [fs], ["sample", "-k", "1"] + G, inp))
            out.append((17, [0], [fs, [b"count"]], ["uniq", "-g", g], inp))
            out.append((18, [0], [fs, [b"count"]], ["uniq", "-g", g, "-c"], inp))
            out.append((18, [0], [fs, [b"count"]], ["count-distinct", "-f", g], inp))
            out.append((19, [0], [fs, [b"count"]], ["count-distinct", "-f", g, "-n"], inp))
            out.append((22, [0], [fs, [b"count"]], ["count-distinct", "-f", g, "-u"], inp))
            out.append((17, [1], [fs, [b"count"]], ["uniq", "-x", g], inp))
    return out


def gen_cases(ctx):
    rng = ctx.rng
    ncases = int((1450 if ctx.tier == "quick" else 40000) * SCALE)
    nmax = 10 if ctx.tier == "quick" else 24
    cases = []
    for _ in range(ncases):
        inp = gen_stream(rng, nmax)
        n = len(inp)
        v = rng.choice(["head", "head", "head", "tail", "tail", "tail", "decimate", "decimate", "tac", "group-by", "group-by", "group-like",
                        "nothing", "skip", "uniq", "uniq-a", "uniq-g", "uniq-g", "uniq-g", "cat", "cat", "grep", "having", "having", "shuffle", "bootstrap", "sample"])
        c = None
        if v == "head":
            k = ks_for(rng, n) * rng.choice([1, 1, -1])
            hasg = rng.random() < 0.6
            fs = pick_fs(rng) if hasg else []
            c = (1, [k, int(hasg)], [fs], ["head", "-n", str(k)] + (["-g", b",".join(fs).decode()] if hasg else []))
        elif v == "tail":
            k = ks_for(rng, n)
            form = rng.choice(["", "", "+", "+", "-"])
            hasg = rng.random() < 0.6
            fs = pick_fs(rng) if hasg else []
            kz = -k if form == "-" else k
            c = (2, [kz, int(form == "+")], [fs], ["tail", "-n", form + str(k)] + (["-g", b",".join(fs).decode()] if hasg else []))
        elif v == "decimate":
            k = rng.choice([1, 2, 3, 4, max(n, 1), n + 1])
            b, e = rng.random() < 0.5, rng.random() < 0.3
            hasg = rng.random() < 0.6
            fs = pick_fs(rng) if hasg else []
            c = (3, [k, int(b), int(e)], [fs], ["decimate", "-n", str(k)] + (["-b"] if b else []) + (["-e"] if e else [])
                 + (["-g", b",".join(fs).decode()] if hasg else []))
        elif v == "tac":
            c = (7, [], [], ["tac"])
        elif v == "group-by":
            fs = pick_fs(rng)
            c = (8, [], [fs], ["group-by", b",".join(fs).decode()])
        elif v == "group-like":
            c = (9, [], [], ["group-like"])
        elif v == "nothing":
            c = (10, [], [], ["nothing"])
        elif v == "skip":
            c = (11, [], [], ["skip-trivial-records"])
        elif v == "uniq":
            c = (12, [], [], ["uniq", "-a"])
        elif v == "uniq-a":
            mode = rng.choice(["c", "n", "c", "n", "a"])
            oname = rng.choice([b"count", b"count", b"n", b"a", b"b"])
            oargs = [] if oname == b"count" else ["-o", oname.decode()]
            c = {"a": (12, [], [], ["uniq", "-a"]), "c": (20, [0], [[], [oname]], ["uniq", "-a", "-c"] + oargs),
                 "n": (21, [0], [[], [oname]], ["uniq", "-a", "-n"] + oargs)}[mode]
        elif v == "uniq-g":
            inv = rng.random() < 0.5
            fs = rng.choice([[b"a"], [b"b"], [b"a", b"b"], [b"c"], [b"x"], [b"nosuch"], [b"a", b"b", b"c"], [b"b", b"x", b"y"]]) if inv else \
                rng.choice([pick_fs(rng), pick_fs(rng), [b"a", b"a"], [b"b", b"a", b"b"]])
            flag = "-x" if inv else rng.choice(["-g", "-f"])
            g = b",".join(fs).decode()
            mode = rng.choice(["g", "g", "c", "c", "cd", "n", "cdn", "u"])
            oname = rng.choice([b"count", b"count", b"n", b"a", b"b"]) if mode in ("c", "cd", "cdn") else b"count"
            oargs = [] if oname == b"count" else ["-o", oname.decode()]
            if mode == "g":
                c = (17, [int(inv)], [fs, [oname]], ["uniq", flag, g])
            elif mode == "c":
                c = (18, [int(inv)], [fs, [oname]], ["uniq", flag, g, "-c"] + oargs)
            elif mode == "cd":
                c = (18, [int(inv)], [fs, [oname]], ["count-distinct", flag, g] + oargs)
            elif mode == "n":
                c = (19, [int(inv)], [fs, [oname]], ["uniq", flag, g, "-n"] + (["-c"] if rng.random() < 0.3 else []))
            elif mode == "cdn":
                c = (19, [int(inv)], [fs, [oname]], ["count-distinct", flag, g, "-n"] + oargs)
            else:
                c = (22, [int(inv)], [fs, [oname]], ["count-distinct", flag, g, "-u"])
        elif v == "cat":
            mode = rng.choice(["plain", "n", "N", "ng", "Ng"])
            name = b"n" if mode in ("n", "ng") else rng.choice([b"idx", b"a", b"count"])
            hasg = mode in ("ng", "Ng")
            fs = pick_fs(rng) if hasg else []
            args = ["cat"] + ({"plain": [], "n": ["-n"], "ng": ["-n"], "N": ["-N", name.decode()], "Ng": ["-N", name.decode()]}[mode]) \
                + (["-g", b",".join(fs).decode()] if hasg else [])
            c = (13, [int(mode != "plain"), int(hasg)], [[name], fs], args)
        elif v == "grep":
            pat = rng.choice([b"pan", b"PAN", b"x", b"a:1", b"a=1", b"1", b"=x,", b"y,z", b"b=", b"zzz", b"1,2", b"Pan"])
            inv, vo, ci = rng.random() < 0.4, rng.random() < 0.3, rng.random() < 0.4
            c = (5, [int(inv), int(vo), int(ci)], [[pat]], ["grep"] + (["-v"] if inv else []) + (["-a"] if vo else []) + (["-i"] if ci else []) + [pat.decode()])
        elif v == "having":
            mode = rng.randrange(6)
            if mode < 3:
                names = rng.choice([[b"a"], [b"a", b"b"], [b"a", b"b", b"c"], [b"c", b"a", b"b"], [b"x"], [b"a", b"a"], [b"a", b"b", b"c", b"x"], [b"b", b"y"]])
                flag = ["--at-least", "--which-are", "--at-most"][mode]
                c = (6, [mode], [names], ["having-fields", flag, b",".join(names).decode()])
            else:
                pat = rng.choice([b"a", b"b", b"x", b"q", b"c"])
                flag = ["--all-matching", "--any-matching", "--none-matching"][mode - 3]
                c = (6, [mode], [[pat]], ["having-fields", flag, pat.decode()])
        elif v == "shuffle":
            c = (14, [], [], ["shuffle"])
        elif v == "bootstrap":
            if n == 0:
                c = (15, [-1], [], ["bootstrap"])
            else:
                k = rng.choice([-1, 0, 1, n, n + 3])
                c = (15, [k], [], ["bootstrap"] + ([] if k == -1 else ["-n", str(k)]))
        elif v == "sample":
            k = rng.choice([0, 1, 2, 3, n])
            hasg = rng.random() < 0.5
            fs = pick_fs(rng) if hasg else []
            c = (16, [k], [fs], ["sample", "-k", str(k)] + (["-g", b",".join(fs).decode()] if hasg else []))
        ctx.dist("verb:" + v)
        ctx.dist("n=%s" % ("0" if n == 0 else "1" if n == 1 else "2-5" if n <= 5 else ">5"))
        cases.append((c[0], c[1], c[2], c[3], inp))
    fixed = fixed_group_cases()
    for _ in fixed:
        ctx.dist("fixed grouped-verb block (absent / empty / non-empty group-by fields)")
    return fixed + cases


FILTER_EXPRS = ['$a == "x"', '$x > 2', '$a < $b', 'NR % 2 == 0', 'is_present($b)', '$a =~ "^[xp]"', '$nosuch == 1', 'true', 'false',
                'NR <= 3 || $b == "1"', '!is_present($a)', '$c != ""', '$a == 1 && $b >= 1', 'is_present($x) && $x != $y',
                '$x', '$a . "s"', '$b + 1', 'NR', 'is_absent($c) ? true : $c']


def gen_filter_cases(ctx):
    rng = ctx.rng
    n = int((200 if ctx.tier == "quick" else 5000) * SCALE)
    out = []
    for _ in range(n):
        inp = gen_stream(rng, 10)
        e = rng.choice(FILTER_EXPRS)
        out.append((e, inp))
    return out


def filter_requests(e, inp):
    """verdict probe + filter / filter -x / put 'filter' / put -x 'filter'"""
    return [(["put", "$zzt = typeof(%s); $zzv = %s" % (e, e)], inp), (["filter", e], inp), (["filter", "-x", e], inp),
            (["put", "filter " + e], inp), (["put", "-x", "filter " + e], inp)]


def filter_results(e, inp, rs):
    st, outv, err = rs[0]
    if st != 0 or len(outv) != len(inp):
        return None, {"broken": "verdict-probe", "expr": e, "stderr": err.decode("latin1")[-400:]}
    vs = []
    for r in outv:
        d = dict(r)
        t, v = d.get(b"zzt"), d.get(b"zzv")
        vs.append(2 if t == b"absent" else (1 if v == b"true" else 0) if t in (b"boolean", b"bool") else 3)
    res = []
    for (is_filter, invert), (st, out, err) in zip(((1, 0), (1, 1), (0, 0), (0, 1)), rs[1:]):
        res.append((is_filter, invert, st, out, err))
    return (vs, res), None


# ------------------------------------------------------------------ main
def term(verb, zs, ss, inp, out):
    return "(%d, %s, %s,\n  %s,\n  %s)" % (verb, coq_list([coq_z(z) for z in zs]), coq_list([coq_list([coq_bytes(b) for b in s]) for s in ss]),
                                        coq_records(inp), coq_records(out))


def show(recs):
    return [";".join("%s:%s" % (k.decode("latin1"), v.decode("latin1")) for k, v in r) for r in recs]


def oracle(ctx, verb, zs, ss, args, inp, out):
    """property evaluated on the implementation's output; returns a violation dict or None"""
    exp = ref(verb, zs, ss, inp)
    base = {"argv": ["mlr"] + IOFLAGS + args, "input": show(inp), "observed": show(out),
            "case": {"verb": verb, "zs": zs, "ss": [[b.decode("latin1") for b in x] for x in ss], "args": args}}
    fs = ss[0] if ss and verb in (1, 2, 3, 8, 16) else (ss[1] if verb == 13 else [])
    cls = "grouping-key-comma-collision" if fs and has_collision(fs, inp) else "other"
    if verb in (17, 18, 19) and uniq_collision(zs[0], ss[0], inp):
        cls = "grouping-key-comma-collision"
    if verb in (12, 20, 21) and int_spelling_collision(inp):
        cls = "uniq-a-int-spellings-merged"
    if exp is not None:
        if exp != out:
            return dict(base, expected=show(exp), **{"class": cls}, law="documented output")
        return None
    if verb == 1:      # head -n -k -g: order across groups is not documented; per-group content and multiset are
        n, fs = -zs[0], ss[0]
        gi, go = groups(fs, inp), groups(fs, out)
        for k, g in gi.items():
            if go.get(k, []) != g[:max(len(g) - n, 0)]:
                return dict(base, expected_group=show(g[:max(len(g) - n, 0)]), group=repr(k), **{"class": cls}, law="all but the last k of each group")
        if sum(len(g) for g in go.values()) != len(out) or any(k not in gi for k in go):
            return dict(base, law="only records having the group-by fields", **{"class": cls})
        return None
    if verb in (4, 5, 6):
        if not is_subseq(out, inp):
            return dict(base, law="output is a subsequence of the input", **{"class": "other"})
        return None
    if verb == 13:
        hasn, hasg = zs
        name, fs = ss[0][0], ss[1]
        if not hasn:
            return None if out == inp else dict(base, law="cat is the identity", **{"class": "other"})
        if len(out) != len(inp):
            return dict(base, law="cat -n keeps every record", **{"class": "other"})
        seen = {}
        for r, o in zip(inp, out):
            k = gkey(fs, r) if hasg else ()
            if k is None:
                k = "unkeyed"
            seen[k] = seen.get(k, 0) + 1
            want = ([(name, str(seen[k]).encode())] + r) if name not in dict(r) else [(a, str(seen[k]).encode() if a == name else b) for a, b in r]
            if o != want:
                return dict(base, law="cat -n -g numbers each group 1..n", expected_record=show([want]), **{"class": cls})
        return None
    if verb == 14:
        return None if sorted(out) == sorted(inp) else dict(base, law="shuffle is a permutation", **{"class": "other"})
    if verb == 15:
        want = len(inp) if zs[0] == -1 else zs[0]
        if len(out) != want or any(r not in inp for r in out):
            return dict(base, law="bootstrap: n records, all from the input", **{"class": "other"})
        return None
    if verb == 16:
        k, fs = zs[0], ss[0]
        gi, go = groups(fs, inp), groups(fs, out)
        pool = list(inp)
        for r in out:
            if r not in pool:
                return dict(base, law="sample is without replacement from the input", **{"class": cls})
            pool.remove(r)
        for key, g in gi.items():
            if len(go.get(key, [])) != min(k, len(g)):
                return dict(base, law="sample: min(k, group size) per group", group=repr(key), **{"class": cls})
        return None
    return None


def run(ctx):
    ctx.cov["rule"] = ("seeded streams of 0..10 (quick) / 0..24 (thorough) heterogeneous records (duplicates, empties, values with ',' and '=', "
                       "missing group-by fields) x verb options (head/tail counts 0,1,2,N-1,N,N+1 with '-', '+' forms, group-by lists incl. a missing "
                       "field, decimate -b/-e, grep -i/-v/-a literal patterns, having-fields 6 modes, cat -n/-N/-g, filter/filter -x/put filter over "
                       "19 expressions incl. absent and non-boolean); about 2/3 of the in-process cases carry context NR/FNR values that are NOT the arrival index "
                       "(gaps, reversed, shuffled, repeated, offset) and a sample runs downstream of tac / filter / head -g / sort / tail / group-by in a "
                       "then-chain on the command line; deterministic verbs: model output = mlr output (vm_compute); shuffle/bootstrap/"
                       "sample: verified checkers on mlr output; a case is non-trivial when (verb, options, input) is distinct")
    ctx.cov["trusted_base"] = ["Coq 8.16.1 kernel + vm_compute", "no axioms (Print Assumptions: closed under the global context)",
                               "python harness (DKVP encode/decode with IFS ';' IPS ':', case rendering)",
                               "DSL expression evaluation is abstracted to one verdict per record (observed through put -q print)",
                               "regex library abstracted to a matcher parameter; literal patterns in the correspondence"]
    ctx.assumptions = ["uniq -a: the JSON text used as map key determines the record", "random draws are an arbitrary oracle list in the model (at least one draw per record for sample)"]
    forbidden_gate(ctx, ["Base", "C11"])
    ok, why = check_props(ctx, "C11/Props.v", ["C11/Harness.vo", "C11/Proofs.vo", "C11/Proofs2.vo", "C11/CheckerProofs.vo", "C11/SampleProofs.vo", "C11/UniqProofs.vo", "C11/ChainProofs.vo"])
    cases = gen_cases(ctx)
    fcases = gen_filter_cases(ctx)
    case_nrs = [gen_nrs(ctx.rng, len(c[4])) for c in cases]
    fcase_nrs = [gen_nrs(ctx.rng, len(inp)) for _, inp in fcases]
    for nr in case_nrs:
        ctx.dist("context NR: " + ("arrival index" if nr is None else "not the arrival index"))
    with ctx.timed("impl"):
        obs = run_verbs(ctx, [(c[3], c[4], nr) for c, nr in zip(cases, case_nrs)])
        freqs = [[(a, r, nr) for a, r in filter_requests(e, inp)] for (e, inp), nr in zip(fcases, fcase_nrs)]
        flat = run_verbs(ctx, [r for rs in freqs for r in rs])
        fobs = [filter_results(e, inp, flat[5 * i:5 * i + 5]) for i, (e, inp) in enumerate(fcases)]
        cli_tie(ctx, cases, obs)
    terms, meta, oracle_bad, meta_nrs = [], [], [], {}
    for (verb, zs, ss, args, inp), (st, out, err), nr in zip(cases, obs, case_nrs):
        ctx.count((verb, zs, ss, inp, nr))
        if st != 0:
            ctx.violation({"broken": "mlr-failed", "argv": args, "input": show(inp), "status": st, "stderr": err.decode("latin1")[-600:], "context_nr": nr})
            continue
        terms.append(term(verb, zs, ss, inp, out))
        meta.append((verb, zs, ss, args, inp, out))
        meta_nrs[len(meta) - 1] = nr
        v = oracle(ctx, verb, zs, ss, args, inp, out)
        if v:
            if nr is not None:
                v = dict(v, context_nr=nr, how="in-process driver (implrun verbs): the records carry these context NR/FNR values, as downstream of "
                                               "filter / tac / sort / head -g in a then-chain")
            oracle_bad.append(v)
    chain_cases(ctx, terms, meta, oracle_bad)
    # filter family
    for (e, inp), (r, bad) in zip(fcases, fobs):
        if bad:
            ctx.violation(bad, found_input=False)
            continue
        vs, res = r
        ctx.dist("filter:" + ("boolean/absent" if all(v != 3 for v in vs) else "non-boolean"))
        outs = {}
        for is_filter, invert, st, out, err in res:
            ctx.count(("filter", e, is_filter, invert, inp))
            args = (["filter"] if is_filter else ["put"]) + (["-x"] if invert else []) + [e if is_filter else "filter " + e]
            expect_err = is_filter and 3 in vs
            if expect_err:
                if st == 0:
                    oracle_bad.append({"argv": args, "input": show(inp), "law": "non-boolean filter expression is an error", "class": "other"})
                terms.append(term(40, [is_filter, invert] + vs, [], inp, []))
                meta.append((40, [is_filter, invert] + vs, [], args, inp, []))
                continue
            if st != 0:
                oracle_bad.append({"argv": args, "input": show(inp), "law": "boolean/absent filter expression must not fail", "stderr": err.decode("latin1")[-300:], "class": "other"})
                continue
            outs[(is_filter, invert)] = out
            terms.append(term(4, [is_filter, invert] + vs, [], inp, out))
            meta.append((4, [is_filter, invert] + vs, [], args, inp, out))
        if (1, 0) in outs and (1, 1) in outs:
            a, b = outs[(1, 0)], outs[(1, 1)]
            want_a = [r for r, v in zip(inp, vs) if v == 1]
            want_b = [r for r, v in zip(inp, vs) if v != 1]
            if not (is_subseq(a, inp) and is_subseq(b, inp) and sorted(a + b) == sorted(inp) and a == want_a and b == want_b):
                oracle_bad.append({"argv": ["mlr"] + IOFLAGS + ["filter", "[-x]", e], "input": show(inp), "observed": {"filter": show(a), "filter -x": show(b)},
                                   "law": "filter X and filter -x X partition the input", "class": "other"})
    for i in (0, 11, 57, 200):
        if i < len(meta):
            ctx.sample({"argv": meta[i][3], "input": show(meta[i][4]), "observed": show(meta[i][5])})
    count_identities(ctx, oracle_bad)
    finding_probes(ctx, oracle_bad)
    regression_probes(ctx, oracle_bad)
    finding_probe_uniq_a(ctx, oracle_bad)
    # ---- verdict
    if not ok:
        if oracle_bad:
            ctx.violation(dict(oracle_bad[0], broken=why))
        else:
            ctx.violation({"broken": why}, found_input=False)
        return
    with ctx.timed("coq_cases"):
        bad, err = coq_eval_mismatches(ctx, "C11", "Base.Record C11.Model C11.Harness", "case", "chk", terms, shard=len(terms) // PAR + 1)
    ctx.cov["correspondence"] = {"cases": len(terms), "mismatches": len(bad)}
    if err:
        ctx.violation({"broken": "correspondence-evaluation", "detail": err[-2000:]}, found_input=False)
        return
    reported = 0
    for i in bad[:40]:
        verb, zs, ss, args, inp, out = meta[i]
        v = oracle(ctx, verb, zs, ss, args, inp, out) if verb not in (4, 40) else None
        if v and meta_nrs.get(i) is not None:
            v = dict(v, context_nr=meta_nrs[i], how="in-process driver (implrun verbs): the records carry these context NR/FNR values")
        if v:
            reported += 1 if ctx.violation(dict(v, broken="correspondence C11.Harness.chk")) else 0
        else:
            reported += 1 if ctx.violation({"broken": "correspondence C11.Harness.chk (model and implementation differ; python oracle agrees with the implementation)",
                                            "argv": args, "input": show(inp), "observed": show(out), "zargs": zs}, found_input=False) else 0
        if reported >= 3:
            break
    oracle_bad.sort(key=lambda v: len(v.get("input", [])))       # smallest witness of each class first
    seen_cls = {}
    for v in oracle_bad:
        key = (v.get("class"), v.get("law") if v.get("class") == "other" else "")
        seen_cls[key] = seen_cls.get(key, 0) + 1
        if seen_cls[key] > (2 if v.get("class") == "other" else 1):
            continue
        ctx.violation(v)
    ctx.cov["oracle_findings"] = {"%s | %s" % k: n for k, n in seen_cls.items()}


def cli_tie(ctx, cases, obs):
    """the in-process driver and the real command line agree: a sample of the cases is re-run through mlr itself
    (reader, chain, writer) and must print the same records"""
    idx = list(range(len(cases)))
    ctx.rng.shuffle(idx)
    idx = [i for i in idx if cases[i][0] not in (14, 15, 16)][:(24 if ctx.tier == "quick" else 300)]
    with ThreadPoolExecutor(PAR) as ex:
        res = list(ex.map(lambda i: mlr(ctx, cases[i][3], cases[i][4]), idx))
    bad = 0
    for i, (st, out, err) in zip(idx, res):
        ctx.count(("cli", cases[i][3], cases[i][4]))
        if (st, out) != (obs[i][0], obs[i][1]):
            bad += 1
            ctx.violation({"broken": "implrun verbs driver and mlr command line disagree", "argv": ["mlr"] + IOFLAGS + cases[i][3], "input": show(cases[i][4]),
                           "observed": show(out), "driver": show(obs[i][1]), "status": [st, obs[i][0]]}, found_input=False)
            if bad >= 2:
                break
    ctx.cov["cli_tie"] = {"cases": len(idx), "disagreements": bad}


UPSTREAMS = [["tac"], ["filter", "NR % 2 == 1"], ["filter", "-x", "NR % 3 == 1"], ["head", "-n", "1", "-g", "a", "then", "tac"],
             ["sort", "-r", "a"], ["tail", "-n", "4"], ["group-by", "b"]]


def chain_cases(ctx, terms, meta, oracle_bad):
    """every selecting verb downstream of a verb that drops / reorders records, through the real command line:
    `mlr UP then VERB` must equal VERB applied to the output of `mlr UP` (the model gets that output as its input)"""
    rng = ctx.rng
    n = int((26 if ctx.tier == "quick" else 400) * SCALE)
    sel = []
    for _ in range(n):
        inp = gen_stream(rng, 9)
        while len(inp) < 4:
            inp = gen_stream(rng, 9)
        k = ks_for(rng, len(inp) // 2)
        fs = pick_fs(rng)
        g = b",".join(fs).decode()
        verb, zs, ss, args = rng.choice([
            (2, [k + 1, 1], [[]], ["tail", "-n", "+" + str(k + 1)]),
            (2, [k + 1, 1], [[]], ["tail", "-n", "+" + str(k + 1)]),
            (2, [k + 1, 1], [fs], ["tail", "-n", "+" + str(k + 1), "-g", g]),
            (2, [k, 0], [[]], ["tail", "-n", str(k)]),
            (1, [k, 0], [[]], ["head", "-n", str(k)]),
            (1, [k, 1], [fs], ["head", "-n", str(k), "-g", g]),
            (1, [-k - 1, 0], [[]], ["head", "-n", str(-k - 1)]),
            (3, [2, 0, 0], [[]], ["decimate", "-n", "2"]),
            (3, [2, 1, 0], [fs], ["decimate", "-n", "2", "-b", "-g", g]),
            (13, [1, 0], [[b"n"], []], ["cat", "-n"]),
            (13, [1, 1], [[b"n"], fs], ["cat", "-n", "-g", g]),
            (7, [], [], ["tac"]), (8, [], [fs], ["group-by", g]), (12, [], [], ["uniq", "-a"]), (11, [], [], ["skip-trivial-records"]),
        ])
        sel.append((rng.choice(UPSTREAMS), verb, zs, ss, args, inp))
    with ThreadPoolExecutor(PAR) as ex:
        xs = list(ex.map(lambda c: mlr(ctx, c[0], c[5]), sel))
        ys = list(ex.map(lambda c: mlr(ctx, c[0] + ["then"] + c[4], c[5]), sel))
    for (up, verb, zs, ss, args, inp), (sx, x, ex_), (sy, y, ey) in zip(sel, xs, ys):
        ctx.count(("chain", up, args, inp))
        ctx.dist("then-chain downstream of " + up[0])
        if sx != 0 or sy != 0:
            ctx.violation({"broken": "mlr-failed", "argv": ["mlr"] + IOFLAGS + up + ["then"] + args, "input": show(inp), "status": [sx, sy],
                           "stderr": (ex_ + ey).decode("latin1")[-500:]})
            continue
        terms.append(term(verb, zs, ss, x, y))
        meta.append((verb, zs, ss, up + ["then"] + args, x, y))
        v = oracle(ctx, verb, zs, ss, args, x, y)
        if v:
            oracle_bad.append(dict(v, argv=["mlr"] + IOFLAGS + up + ["then"] + args, input=show(inp), upstream_output=show(x), upstream=up,
                                   law=v.get("law", "") + " (downstream of `" + " ".join(up) + "`: the verb's input is upstream_output)"))
    ctx.cov["then_chains"] = {"cases": len(sel)}


def count_identities(ctx, oracle_bad):
    """|head -n k| + |tail -n +(k+1)| = N ; head ++ tail = input ; tac twice ; group sizes sum"""
    rng = ctx.rng
    n = int((150 if ctx.tier == "quick" else 3000) * SCALE)
    trip, reqs = [], []
    for _ in range(n):
        inp = gen_stream(rng, 10)
        k = ks_for(rng, len(inp))
        fs = pick_fs(rng)
        trip.append((inp, k, fs))
        nr = gen_nrs(rng, len(inp))
        reqs += [(["head", "-n", str(k)], inp, nr), (["tail", "-n", "+" + str(k + 1)], inp, nr), (["tac"], inp, nr), (["group-by", b",".join(fs).decode()], inp, nr)]
    res = run_verbs(ctx, reqs)
    tacs = run_verbs(ctx, [(["tac"], res[4 * i + 2][1]) for i in range(n)])
    for i, (inp, k, fs) in enumerate(trip):
        h, t, g, tt = res[4 * i][1], res[4 * i + 1][1], res[4 * i + 3][1], tacs[i][1]
        ctx.count(("head+tail", k, inp))
        if h + t != inp:
            oracle_bad.append({"argv": ["mlr"] + IOFLAGS + ["head", "-n", str(k)], "also": "tail -n +%d" % (k + 1), "input": show(inp), "observed": {"head": show(h), "tail": show(t)},
                               "law": "|head -n k| + |tail -n +(k+1)| = N", "class": "other"})
        ctx.count(("tac-tac", inp))
        if tt != inp:
            oracle_bad.append({"argv": ["mlr"] + IOFLAGS + ["tac", "then", "tac"], "input": show(inp), "observed": show(tt), "law": "tac twice is the identity", "class": "other"})
        ctx.count(("group-sizes", fs, inp))
        if len(g) != sum(1 for r in inp if gkey(fs, r) is not None):
            oracle_bad.append({"argv": ["mlr"] + IOFLAGS + ["group-by", b",".join(fs).decode()], "input": show(inp), "observed": show(g),
                               "law": "group sizes sum to the number of records having the group-by fields", "class": "other"})


def finding_probes(ctx, oracle_bad):
    """fixed witness of the recorded finding class (reported under its class while it reproduces)"""
    recs = [[(b"a", b"x,y"), (b"b", b"z"), (b"c", b"1")], [(b"a", b"x"), (b"b", b"y,z"), (b"c", b"2")]]
    for args, want in ((["head", "-n", "1", "-g", "a,b"], recs), (["tail", "-n", "1", "-g", "a,b"], recs), (["decimate", "-n", "2", "-g", "a,b"], [])):
        st, out, err = run_verbs(ctx, [(args, recs)])[0]
        ctx.count(("finding-probe", args))
        if st != 0 or out != want:
            oracle_bad.append({"argv": ["mlr"] + IOFLAGS + args, "input": show(recs), "observed": show(out), "expected": show(want),
                               "law": "per group: records with different group-by values are in different groups", "class": "grouping-key-comma-collision"})


def finding_probe_uniq_a(ctx, oracle_bad):
    recs = [[(b"a", b"0x1"), (b"b", b"2")], [(b"a", b"1"), (b"b", b"2")]]
    for args, want in ((["uniq", "-a"], recs), (["uniq", "-a", "-n"], [[(b"count", b"2")]])):
        st, out, err = run_verbs(ctx, [(args, recs)])[0]
        ctx.count(("finding-probe", args))
        if st != 0 or out != want:
            oracle_bad.append({"argv": ["mlr"] + IOFLAGS + args, "input": show(recs), "observed": show(out), "expected": show(want),
                               "law": "uniq -a prints the first occurrence of every distinct record", "class": "uniq-a-int-spellings-merged"})


def regression_probes(ctx, oracle_bad):
    """witnesses of repaired defects: a regression is a plain VIOLATION"""
    recs = [[(b"a", b"1"), (b"x", b"3")], [(b"a", b"2"), (b"y", b"3")], [(b"a", b"3"), (b"x", b"3")]]
    x3, y3 = [(b"x", b"3")], [(b"y", b"3")]
    for args, want in ((["uniq", "-x", "a"], [x3, y3]), (["uniq", "-x", "a", "-c"], [x3 + [(b"count", b"2")], y3 + [(b"count", b"1")]]),
                       (["count-distinct", "-x", "a"], [x3 + [(b"count", b"2")], y3 + [(b"count", b"1")]]),
                       (["uniq", "-x", "a", "-n"], [[(b"count", b"2")]]), (["count-distinct", "-x", "a", "-n"], [[(b"count", b"2")]])):
        st, out, err = run_verbs(ctx, [(args, recs)])[0]
        ctx.count(("regression-probe", args))
        if st != 0 or out != want:
            oracle_bad.append({"argv": ["mlr"] + IOFLAGS + args, "input": show(recs), "observed": show(out), "expected": show(want),
                               "law": "uniq/count-distinct -x: records with different remaining field names are different groups (repaired by 30bef5caa)",
                               "class": "uniq-x-field-names-merged"})


def replay(ctx, path):
    obj = json.loads(Path(path).read_text())
    argv = obj.get("argv")
    if not argv or argv[0] != "mlr":
        print("replay: nothing to re-run for", obj.get("broken") or obj.get("law"))
        ctx.violation(dict(obj, replayed=True), found_input=obj.get("found_input", False))
        return
    inp = [[tuple(x.encode("latin1") for x in f.split(":", 1)) for f in line.split(";")] if line else [] for line in obj["input"]]
    if "case" in obj and (obj.get("context_nr") is not None or "upstream" in obj):
        c = obj["case"]
        ss = [[x.encode("latin1") for x in y] for y in c["ss"]]
        if "upstream" in obj:
            _, x, _ = mlr(ctx, obj["upstream"], inp)
            st, y, err = mlr(ctx, obj["upstream"] + ["then"] + c["args"], inp)
        else:
            x = inp
            st, y, err = run_verbs(ctx, [(c["args"], inp, obj["context_nr"])])[0]
        print("replay: %s\n verb input=%s\n observed=%s" % (obj.get("how") or argv, show(x), show(y)))
        ctx.count(("replay", argv, obj["input"]))
        v = oracle(ctx, c["verb"], c["zs"], ss, c["args"], x, y) if st == 0 else {"law": "run failed", "stderr": err.decode("latin1")[-300:]}
        if v:
            ctx.violation(dict(obj, replayed=True, observed=show(y)))
        return
    st, out, err = mlr_run(ctx, ["--seed", "7"] + argv[1:], enc(inp), timeout=300)
    got = show(dec(out))
    print("replay: argv=%s\n input=%s\n observed=%s\n previously=%s" % (argv, obj["input"], got, obj.get("observed")))
    ctx.count(("replay", argv, obj["input"]))
    if st != 0:
        ctx.violation(dict(obj, replayed=True, status=st))
    elif "case" in obj and obj["case"]["verb"] not in (14, 15, 16):
        c = obj["case"]
        v = oracle(ctx, c["verb"], c["zs"], [[x.encode("latin1") for x in y] for y in c["ss"]], c["args"], inp, dec(out))
        if v:
            ctx.violation(dict(v, replayed=True))
    elif got == obj.get("observed"):
        ctx.violation(dict(obj, replayed=True))
