"""C08, assignment clause: generated `mlr put` programs assigning absent and present values to every lvalue kind.

Tie (A): the final record / oosvars / locals / ENV printed by mlr are compared with coq/C08/Assign.v under vm_compute.
Oracle: the property itself on mlr's own output -- deleting every assignment whose right-hand side is absent
(and every assignment with an absent index) must not change the final state, and such assignments alone leave the
state exactly as it was.
"""
import json
from vlib import *

SCAL = ["x", "y", "z", "s1", "s2"]          # names that only ever hold scalars
M1 = ["m1", "n1"]                            # names that only ever hold maps of scalars
M2 = ["m2"]                                  # names that only ever hold maps of maps of scalars
KEYS = ["k", "j", "pan", "wye"]
STRS = ["abc", "pan", "wye", "hello"]
LOCALS = ["la", "lb", "lm1", "lm2"]
ENVS = ["C08_A", "C08_B"]


# ---- expression AST: tuples; rendered both as DSL text and as Coq terms
def dsl(e):
    t = e[0]
    if t == "int":
        return "(%d)" % e[1]
    if t == "str":
        return '"%s"' % e[1]
    if t == "empty":
        return '""'
    if t == "error":
        return '(1 + "e")'
    if t == "field":
        return "$" + e[1]
    if t == "oos":
        return "@" + e[1]
    if t == "local":
        return e[1]
    if t == "index":
        return "%s[%s]" % (dsl(e[1]), dsl(e[2]))
    if t == "plus":
        return "(%s + %s)" % (dsl(e[1]), dsl(e[2]))
    if t == "coal":
        return "(%s ?? %s)" % (dsl(e[1]), dsl(e[2]))
    if t == "ecoal":
        return "(%s ??? %s)" % (dsl(e[1]), dsl(e[2]))
    if t == "map":
        return "{" + ", ".join('"%s": %s' % (k, dsl(v)) for k, v in e[1]) + "}"
    raise ValueError(t)


def cstr(s):
    return '"' + s.replace('"', '""') + '"%string'


def coq(e):
    t = e[0]
    if t == "int":
        return "(ELit (VInt %s))" % coq_z(e[1])
    if t == "str":
        return "(ELit (VStr %s))" % cstr(e[1])
    if t == "empty":
        return "(ELit VEmpty)"
    if t == "error":
        return "(ELit VError)"
    if t == "field":
        return "(EField %s)" % cstr(e[1])
    if t == "oos":
        return "(EOosvar %s)" % cstr(e[1])
    if t == "local":
        return "(ELocal %s)" % cstr(e[1])
    if t == "index":
        return "(EIndex %s %s)" % (coq(e[1]), coq(e[2]))
    if t == "plus":
        return "(EPlus %s %s)" % (coq(e[1]), coq(e[2]))
    if t == "coal":
        return "(ECoalesce %s %s)" % (coq(e[1]), coq(e[2]))
    if t == "ecoal":
        return "(EEmptyCoalesce %s %s)" % (coq(e[1]), coq(e[2]))
    if t == "compound":
        # `lhs op= rhs` is built as `lhs = lhs op rhs` (BuildCompoundAssignmentNode); e = ("compound", op, lhs-as-expression, rhs)
        return coq(({"+": "plus", "??": "coal", "???": "ecoal"}[e[1]], e[2], e[3]))
    if t == "map":
        return "(EMapLit [" + "; ".join("(%s, %s)" % (cstr(k), coq(v)) for k, v in e[1]) + "])"
    raise ValueError(t)


def stmt_dsl(l, e):
    if e[0] == "compound":
        return "%s %s= %s" % (lv_dsl(l), e[1], dsl(e[3]))
    return "%s = %s" % (lv_dsl(l), dsl(e))


def lv_as_expr(l):
    e = (l[0], l[1])
    for i in l[2]:
        e = ("index", e, i)
    return e


def lv_dsl(l):
    t = l[0]
    idx = "".join("[%s]" % dsl(i) for i in l[2]) if len(l) > 2 and isinstance(l[2], list) else ""
    if t == "field":
        return "$" + l[1] + idx
    if t == "fieldind":
        return "$[" + dsl(l[1]) + "]" + idx
    if t == "posname":
        return "$[[%d]]" % l[1]
    if t == "posvalue":
        return "$[[[%d]]]" % l[1]
    if t == "srec":
        return "$*" + "".join("[%s]" % dsl(i) for i in l[1])
    if t == "oos":
        return "@" + l[1] + idx
    if t == "oosind":
        return "@[" + dsl(l[1]) + "]" + idx
    if t == "fulloos":
        return "@*" + "".join("[%s]" % dsl(i) for i in l[1])
    if t == "local":
        return l[1] + idx
    if t == "env":
        return "ENV[%s]" % dsl(l[1])
    raise ValueError(t)


def lv_coq(l):
    t = l[0]
    ix = lambda xs: "[" + "; ".join(coq(i) for i in xs) + "]"
    if t == "field":
        return "(LField %s %s)" % (cstr(l[1]), ix(l[2]))
    if t == "fieldind":
        return "(LFieldIndirect %s %s)" % (coq(l[1]), ix(l[2]))
    if t == "posname":
        return "(LPosName %d%%nat)" % l[1]
    if t == "posvalue":
        return "(LPosValue %d%%nat)" % l[1]
    if t == "srec":
        return "(LSrec %s)" % ix(l[1])
    if t == "oos":
        return "(LOosvar %s %s)" % (cstr(l[1]), ix(l[2]))
    if t == "oosind":
        return "(LOosvarIndirect %s %s)" % (coq(l[1]), ix(l[2]))
    if t == "fulloos":
        return "(LFullOosvar %s)" % ix(l[1])
    if t == "local":
        return "(LLocal %s %s)" % (cstr(l[1]), ix(l[2]))
    if t == "env":
        return "(LEnv %s)" % coq(l[1])
    raise ValueError(t)


# ---- generator
def surely_absent(e):
    """syntactically absent whatever the state: built from never-assigned names only"""
    t = e[0]
    if t in ("field", "oos", "local"):
        return e[1].startswith("nosuch")
    if t == "index":
        return surely_absent(e[1]) or False
    if t in ("plus", "coal", "ecoal"):
        return surely_absent(e[1]) and surely_absent(e[2])
    return False


def gen_absent(rng):
    c = rng.randrange(7)
    if c == 0:
        return ("field", "nosuch")
    if c == 1:
        return ("oos", "nosuch")
    if c == 2:
        return ("local", "nosuchl")
    if c == 3:
        return ("index", ("oos", "nosuchm"), ("str", rng.choice(KEYS)))
    if c == 4:
        return ("plus", gen_absent(rng), gen_absent(rng))
    if c == 5:
        return ("index", ("field", "nosuchf"), ("field", "nosuch"))
    return ("field", "nosuch2")


def gen_scalar(rng, depth=0):
    """an expression whose value is a scalar or absent (never a map), inside the model's domain"""
    c = rng.randrange(14)
    if c in (12, 13):
        if depth >= 2:
            return ("int", 5)
        return ("coal" if c == 12 else "ecoal", gen_scalar(rng, depth + 1), gen_scalar(rng, depth + 1))
    if c == 0:
        return ("int", rng.choice([0, 1, 3, -7, 42, 1000]))
    if c == 1:
        return ("str", rng.choice(STRS))
    if c == 2:
        return ("empty",)
    if c == 3:
        return gen_absent(rng)
    if c == 4:
        return (rng.choice(["field", "oos"]), rng.choice(SCAL))
    if c == 5:
        return ("local", rng.choice(["la", "lb"]))
    if c == 6:
        return ("index", (rng.choice(["field", "oos"]), rng.choice(M1)), gen_key(rng))
    if c == 7:
        return ("index", ("local", "lm1"), gen_key(rng))
    if c == 8:
        return ("index", ("index", (rng.choice(["field", "oos"]), rng.choice(M2)), gen_key(rng)), gen_key(rng))
    if c == 9 and depth < 2:
        return ("plus", gen_scalar(rng, depth + 1), gen_scalar(rng, depth + 1))
    if c == 10:
        return ("error",) if rng.random() < 0.3 else ("int", rng.randrange(-5, 50))
    return ("plus", ("index", ("oos", rng.choice(M1)), gen_key(rng)), ("field", rng.choice(SCAL)))


def gen_key(rng):
    c = rng.randrange(8)
    if c == 0:
        return gen_absent(rng)
    if c == 1:
        return ("field", "y")          # a field holding a string (when present)
    return ("str", rng.choice(KEYS))


def gen_map1(rng):
    return ("map", [(rng.choice(KEYS), gen_scalar(rng, 2)) for _ in range(rng.randrange(0, 3))])


def gen_map2(rng):
    return ("map", [(rng.choice(KEYS), gen_map1(rng)) for _ in range(rng.randrange(0, 3))])


def gen_stmt(rng, early, fresh):
    """(lvalue, rhs).  `early`: positional forms allowed (record holds initial scalar fields only)."""
    c = rng.randrange(22 if early else 18)
    rhs_abs = rng.random() < 0.4
    sc = lambda: gen_absent(rng) if rhs_abs else gen_scalar(rng)
    if c == 0:
        return (("field", rng.choice(SCAL), []), sc())
    if c == 1:
        return (("oos", rng.choice(SCAL), []), sc())
    if c == 2:
        return (("local", rng.choice(["la", "lb"]), []), sc())
    if c == 3:
        return (("field", rng.choice(M1), [gen_key(rng)]), sc())
    if c == 4:
        return (("oos", rng.choice(M1), [gen_key(rng)]), sc())
    if c == 5:
        return (("local", "lm1", [gen_key(rng)]), sc())
    if c == 6:
        return (("field", rng.choice(M2), [gen_key(rng), gen_key(rng)]), sc())
    if c == 7:
        return (("oos", rng.choice(M2), [gen_key(rng), gen_key(rng)]), sc())
    if c == 8:
        return (("local", "lm2", [gen_key(rng), gen_key(rng)]), sc())
    if c == 9:
        return (("srec", [("str", rng.choice(SCAL))] if rng.random() < 0.7 else [gen_absent(rng)]), sc())
    if c == 10:
        return (("fulloos", [("str", rng.choice(SCAL))] if rng.random() < 0.7 else [gen_absent(rng)]), sc())
    if c == 11:
        return (("env", ("str", rng.choice(ENVS)) if rng.random() < 0.8 else gen_absent(rng)),
                gen_absent(rng) if rhs_abs else rng.choice([("str", rng.choice(STRS)), ("empty",), ("field", "y")]))
    if c == 12:
        return ((rng.choice(["field", "oos"]), rng.choice(M1), []), gen_absent(rng) if rhs_abs else gen_map1(rng))
    if c == 13:
        return ((rng.choice(["field", "oos"]), rng.choice(M2), []), gen_absent(rng) if rhs_abs else gen_map2(rng))
    if c == 14:
        # $* = map / @* = map of scalars under scalar names
        m = ("map", [(rng.choice(SCAL), gen_scalar(rng, 2)) for _ in range(rng.randrange(0, 3))])
        return ((rng.choice(["srec", "fulloos"]), []), gen_absent(rng) if rhs_abs else m)
    if c == 15:
        name = rng.choice([("str", rng.choice(SCAL)), ("field", "y"), gen_absent(rng)]) if rng.random() < 0.9 else gen_absent(rng)
        return ((rng.choice(["fieldind", "oosind"]), name, []), sc())
    if c == 16:
        return (("local", rng.choice(["la", "lb"]), []), ("plus", ("local", "la"), sc()))
    if c == 17:
        # the accumulation idiom @sum[$a] += $x
        k = ("field", rng.choice(["y", "nosuch"]))
        return (("oos", "n1", [k]), ("plus", ("index", ("oos", "n1"), k), ("field", rng.choice(["x", "nosuch", "z"]))))
    if c in (18, 19):
        fresh[0] += 1
        return (("posname", rng.choice([1, 2, 3, 9])), gen_absent(rng) if rhs_abs else ("str", "nf%d" % fresh[0]))
    return (("posvalue", rng.choice([1, 2, 3, 9])), sc())


def maybe_compound(rng, s):
    """turn `lv = e` into `lv op= e` for the lvalue forms that can be read back"""
    l, e = s
    if l[0] in ("field", "oos", "local") and (l[2] or l[1] in SCAL + ["la", "lb"]) and e[0] not in ("map",) and rng.random() < 0.25:
        return (l, ("compound", rng.choice(["+", "??", "???"]), lv_as_expr(l), e))
    return s


def gen_case(rng):
    nf = rng.randrange(0, 4)
    pool = [("x", rng.choice(["3", "-4", "17"])), ("y", rng.choice(STRS)), ("z", "")]
    rng.shuffle(pool)
    rec = pool[:nf]
    n = rng.randrange(1, 7)
    fresh = [0]
    prog, early = [], True
    for i in range(n):
        s = maybe_compound(rng, gen_stmt(rng, early, fresh))
        if s[0][0] in ("srec",) or (s[0][0] in ("field", "fieldind") and not (s[0][0] == "field" and s[0][1] in SCAL and not s[0][2])):
            early = False
        prog.append(s)
    # positional renames go last: on JSON-read records the old name keeps resolving after `$[[i]] = "new"` (a stale key index in
    # the record, observed; outside this property), so nothing reads a field after a rename
    prog = [s for s in prog if s[0][0] != "posname"] + [s for s in prog if s[0][0] == "posname"]
    return rec, prog


DUMP = ('print json_stringify({"rec": $*, "oos": @*, "loc": {' + ", ".join('"%s": %s ?? "(ABSENT)"' % (n, n) for n in LOCALS)
        + '}, "env": {' + ", ".join('"%s": ENV["%s"] ?? "(ABSENT)"' % (n, n) for n in ENVS) + "}})")


def program_text(prog):
    return ";\n".join(stmt_dsl(l, e) for l, e in prog) + ";\n" + DUMP


def risky(prog):
    """may stop mlr with a fatal error (indirect field/oosvar name that can be absent): run alone"""
    return any(l[0] in ("fieldind", "oosind") and l[1][0] != "str" for l, _ in prog)


def parse_dump(line):
    try:
        d = json.loads(line.replace("(error)", '"(error)"'), object_pairs_hook=lambda kv: kv)
        if [k for k, _ in d] != ["rec", "oos", "loc", "env"] or not all(isinstance(v, list) for _, v in d):
            return ("unparsable", line[-300:])
        return ("ok", d)
    except Exception:
        return ("unparsable", line[-300:])


def rec_json(rec):
    return "{" + ", ".join('"%s": %s' % (k, v if v.lstrip("-").isdigit() else '"%s"' % v) for k, v in rec) + "}"


def run_batch(ctx, cases):
    """many cases in ONE mlr process: record i of the JSON input belongs to case i, its program is the block `NR == i {...}`;
    oosvars and ENV are reset at the start of each block, locals are scoped to the block."""
    import tempfile, os
    blocks = []
    for i, (rec, prog) in enumerate(cases, 1):
        body = "".join("  %s;\n" % stmt_dsl(l, e) for l, e in prog)
        blocks.append("NR == %d {\n  unset @*;\n%s%s  %s;\n}" % (i, "".join('  ENV["%s"] = "";\n' % n for n in ENVS), body, DUMP))
    inp = "\n".join(rec_json(rec) for rec, _ in cases) + "\n"
    with tempfile.NamedTemporaryFile("w", suffix=".mlr", delete=False) as f:
        f.write("\n".join(blocks))
    try:
        st, out, err = mlr_run(ctx, ["--ijson", "put", "-q", "-f", f.name], inp.encode(), timeout=180, env={n: "" for n in ENVS})
    finally:
        os.unlink(f.name)
    if st == "hang":
        return [("hang", None)] * len(cases)
    lines = [l for l in out.decode("utf-8", "replace").split("\n") if l.strip()]
    if st != 0 or len(lines) != len(cases):
        if len(cases) == 1:
            return [("fatal", err.decode("utf-8", "replace")[-300:])]
        return None      # unexpected fatal inside a batch: caller falls back to single runs
    return [parse_dump(l) for l in lines]


def run_split(ctx, cases, budget):
    """run_batch, splitting a batch that mlr did not survive until the fatal cases are isolated; `budget` bounds the
    number of mlr processes (a tree on which most programs are fatal would otherwise cost one process per case)"""
    if budget[0] <= 0:
        return [("skipped", None)] * len(cases)
    budget[0] -= 1
    o = run_batch(ctx, cases)
    if o is not None:
        return o
    k = max(1, len(cases) // 4)
    out = []
    for i in range(0, len(cases), k):
        out += run_split(ctx, cases[i:i + k], budget)
    return out


def run_all(ctx, cases):
    from concurrent.futures import ThreadPoolExecutor
    safe = [i for i, c in enumerate(cases) if not risky(c[1])]
    alone = [i for i, c in enumerate(cases) if risky(c[1])]
    res = [None] * len(cases)
    chunks = [safe[k:k + 100] for k in range(0, len(safe), 100)] + [[i] for i in alone]
    budget = [len(chunks) + 40]
    with ThreadPoolExecutor(max_workers=2) as ex:
        outs = list(ex.map(lambda ch: run_split(ctx, [cases[i] for i in ch], budget), chunks))
    for ch, o in zip(chunks, outs):
        for i, r in zip(ch, o):
            res[i] = r
    return res


class OutOfModel(Exception):
    pass


def val_coq(v):
    if isinstance(v, bool) or isinstance(v, float):
        raise OutOfModel()
    if isinstance(v, int):
        return "(VInt %s)" % coq_z(v)
    if isinstance(v, str):
        if v == "":
            return "VEmpty"
        if v == "(error)":
            return "VError"
        if v == "(ABSENT)":
            return "VAbsent"
        return "(VStr %s)" % cstr(v)
    if isinstance(v, list) and all(isinstance(x, tuple) and len(x) == 2 and isinstance(x[0], str) for x in v):
        return "(VMap %s)" % amap_coq(v)
    raise OutOfModel()


def amap_coq(kvs):
    return "[" + "; ".join("(%s, %s)" % (cstr(k), val_coq(v)) for k, v in kvs) + "]"


def rec_coq(rec):
    out = []
    for k, v in rec:
        out.append("(%s, %s)" % (cstr(k), "VEmpty" if v == "" else "(VInt %s)" % coq_z(int(v)) if v.lstrip("-").isdigit() else "(VStr %s)" % cstr(v)))
    return "[" + "; ".join(out) + "]"


def obs_coq(res):
    kind, data = res
    if kind == "fatal":
        return "ObsFatal"
    d = dict(data)
    return "(ObsState %s %s %s %s)" % (amap_coq(d["rec"]), amap_coq(d["oos"]), amap_coq(d["loc"]), amap_coq(d["env"]))


def absent_stmt(s):
    l, e = s
    if surely_absent(e):
        return True
    idx = l[2] if l[0] in ("field", "oos", "local") else l[1] if l[0] in ("srec", "fulloos") else [l[1]] if l[0] == "env" else []
    return any(surely_absent(i) for i in idx)


def run(ctx):
    rng = ctx.rng
    n = 400 if ctx.tier == "quick" else 6000
    cases = [gen_case(rng) for _ in range(n)]
    # fixed cases: every lvalue kind with an absent right-hand side on a fixed record
    rec0 = [("x", "3"), ("y", "abc"), ("z", "")]
    ab = ("field", "nosuch")
    allkinds = [("field", "new", []), ("field", "x", []), ("field", "m1", [("str", "k")]), ("fieldind", ("str", "new"), []), ("posname", 1), ("posvalue", 2),
                ("srec", []), ("srec", [("str", "new")]), ("oos", "new", []), ("oos", "m1", [("str", "k")]), ("oosind", ("str", "new"), []), ("fulloos", []),
                ("fulloos", [("str", "new")]), ("local", "la", []), ("local", "lm1", [("str", "k")]), ("env", ("str", "C08_A"))]
    cases.insert(0, (rec0, [(l, ab) for l in allkinds]))
    cases.insert(1, (rec0, [(l, ("plus", ("oos", "nosuch"), ab)) for l in allkinds]))
    # at most a dozen cases that can stop mlr (they run alone)
    keep, nr = [], 0
    for c in cases:
        if risky(c[1]):
            nr += 1
            if nr > 12:
                continue
        keep.append(c)
    cases = keep
    with ctx.timed("impl"):
        results = run_all(ctx, cases)
    terms, meta, skipped, nbroken = [], [], 0, 0
    for (rec, prog), res in zip(cases, results):
        ctx.count(("assign", program_text(prog), tuple(rec)))
        for l, e in prog:
            ctx.dist("lvalue:" + l[0]); ctx.dist("rhs_surely_absent" if surely_absent(e) else "compound:" + e[1] + "=" if e[0] == "compound" else "rhs_other")
        if res[0] == "skipped":
            ctx.dist("assign_skipped_process_budget")
            continue
        if res[0] in ("hang", "unparsable"):
            nbroken += 1
            if nbroken > 3:
                continue
            ctx.violation({"kind": "assign", "broken": "mlr " + res[0], "record": rec, "program": program_text(prog), "detail": res[1]})
            continue
        try:
            terms.append("(%s, [%s], %s)" % (rec_coq(rec), "; ".join("SAssign %s %s" % (lv_coq(l), coq(e)) for l, e in prog), obs_coq(res)))
            meta.append((rec, prog, res))
        except OutOfModel:
            skipped += 1
    ctx.dist("assign_cases", len(terms)); ctx.dist("assign_out_of_model_skipped", skipped)
    ctx.dist("assign_fatal_observed", sum(1 for m in meta if m[2][0] == "fatal"))
    if meta:
        ctx.sample({"record": meta[0][0], "program": program_text(meta[0][1]), "observed": meta[0][2][1]})
        ctx.sample({"record": meta[-1][0], "program": program_text(meta[-1][1]), "observed": meta[-1][2][1]})
    with ctx.timed("coq_cases"):
        bad, err = coq_eval_mismatches(ctx, "C08", "C08.Assign C08.Harness", "case", "chk", terms)
    if bad and not err:
        # a program can leave the model's domain at run time (e.g. a computed int used as a map key: the model has string keys only);
        # the model then answers OutOfModel and the case is not a comparison at all: drop it, counted
        with ctx.timed("coq_cases"):
            out, err2 = coq_eval_mismatches(ctx, "C08", "C08.Assign C08.Harness", "case", "in_model", [terms[i] for i in bad])
        if not err2:
            oom = set(bad[j] for j in out)
            ctx.dist("assign_out_of_model_at_run_time", len(oom))
            bad = [i for i in bad if i not in oom]
    ctx.cov["correspondence"]["assign_cases"] = len(terms)
    ctx.cov["correspondence"]["assign_mismatches"] = len(bad)
    if err:
        ctx.violation({"broken": "correspondence-evaluation", "detail": err[-2000:]}, found_input=False)
        return
    # ---- oracle on mlr's own output: dropping the absent assignments changes nothing
    oracle_bad = []
    with ctx.timed("impl"):
        todo = [(rec, prog, res) for rec, prog, res in meta if any(absent_stmt(s) for s in prog) and not risky(prog)]
        res2 = run_all(ctx, [(rec, [s for s in prog if not absent_stmt(s)]) for rec, prog, _ in todo])
    for (rec, prog, res), r2 in zip(todo, res2):
        ctx.count(("assign-oracle", program_text(prog), tuple(rec)))
        if r2 != res and "skipped" not in (r2[0], res[0]):
            oracle_bad.append((rec, prog, res, r2))
    ctx.cov["correspondence"]["assign_oracle_pairs"] = len(todo)
    for rec, prog, res, r2 in oracle_bad[:3]:
        ctx.violation({"kind": "assign", "class": "absent-assignment-not-skipped", "input": {"record": rec, "program": program_text(prog)},
                       "observed": res[1], "expected": r2[1], "expected_how": "same program with the absent-valued assignments deleted",
                       "theorem": "C08_assignment_of_absent_is_skipped"})
    for i in bad[:3]:
        if i < 0:
            continue
        rec, prog, res = meta[i]
        if not any((rec, prog) == (r, p) for r, p, _, _ in oracle_bad):
            ctx.violation({"kind": "assign", "broken": "correspondence C08.Harness.chk (assignment model and mlr differ; the skip-absent oracle did not fail on this input)",
                           "input": {"record": rec, "program": program_text(prog)}, "observed": res[1]}, found_input=False)


def replay(ctx, obj):
    inp = obj.get("input") or {}
    rec, text = [tuple(kv) for kv in inp.get("record", [])], inp.get("program", "")
    st, out, err = mlr_run(ctx, ["--ijson", "put", "-q", text], (rec_json(rec) + "\n").encode(), env={n: "" for n in ENVS})
    got = out.decode("utf-8", "replace").strip()
    print("replay: program=%r -> %s" % (text, got[:300]))
    ctx.count(("replay", text))
    now = parse_dump(got)[1]
    if json.dumps(now) != json.dumps(obj.get("expected")):
        ctx.violation(dict(obj, replayed=True, observed=now))
