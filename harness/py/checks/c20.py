"""C20 — fan-out outputs are complete, ordered, well-formed for any number of targets (DESIGN 3/C20).

Correspondence: op histories are run through the REAL MultiOutputHandlerManager (implrun lru-ops, real capacity 256) into a
scratch directory; the resulting files are compared byte-for-byte with Model.finalR/Model.render (the manager as repaired: evicted
handlers are suspended with their record writer and resumed in append mode) under vm_compute.
Oracle (failing-input search): each target file must be exactly ONE document of the format holding exactly the records/lines
routed to it in stream order (computed here, independently of the Coq model), for histories driven through the manager and
for end-to-end mlr runs of tee / split / redirected tee, emit, print, dump.
"""
import json, os, shutil, tempfile, time, urllib.parse
from vlib import *

CAP = 256                       # lruFileHandlerCapacity (a Go const; cross-checked in run())
FMTS = ["dkvp", "nidx", "jsonl", "csv", "json", "tsv", "xtab", "pprint"]
FMTN = {"dkvp": 0, "nidx": 1, "jsonl": 2, "csv": 3, "json": 4, "tsv": 5, "xtab": 6}      # formats of the Coq model (pprint: oracle only)
STATEFUL = ("csv", "tsv", "json", "xtab", "pprint")                                        # writers with stream state
MODES = ["write", "append", "pipe"]
MODEN = {m: i for i, m in enumerate(MODES)}
STATELESS = {"dkvp", "nidx", "jsonl"}
WCLASS = "lru-evict-reopen-repeats-header"
VALPOOL = "abcdefghijklmnopqrstuvwxyzABCDEFGHIJKLMNOPQRSTUVWXYZ0123456789_.-"


# ------------------------------------------------------------------ reference rendering (Python, independent of the Coq model)
def q(s):
    return '"' + s + '"'


def render_rec(fmt, rec, pad=0):
    if fmt == "dkvp":
        return ",".join(k + "=" + v for k, v in rec) + "\n"
    if fmt == "nidx":
        return " ".join(v for _, v in rec) + "\n"
    if fmt == "csv":
        return ",".join([v for _, v in rec] + [""] * pad) + "\n"
    if fmt == "tsv":
        return "\t".join([v for _, v in rec] + [""] * pad) + "\n"
    if fmt == "xtab":
        w = max([1] + [len(k) for k, _ in rec])
        return "".join(k + " " + " " * (w - len(k)) + v + "\n" for k, v in rec)
    if fmt == "jsonl":
        return ("{" + ", ".join(q(k) + ": " + q(v) for k, v in rec) + "}\n") if rec else "{}\n"
    if fmt == "json":
        return ("{\n" + ",\n".join("  " + q(k) + ": " + q(v) for k, v in rec) + "\n}") if rec else "{}"
    raise ValueError(fmt)


def pprint_block(recs):
    """record_writer_pprint.go writeHeterogenousListNonBarred, left-aligned (RightAlignNumericOutput is off by default)"""
    widths = {}
    for r in recs:
        for k, v in r:
            widths[k] = max(widths.get(k, 0), len(v) or 1, len(k))
    if not any(recs):
        return ""
    def line(cells):
        return "".join((c + "\n") if i == len(cells) - 1 else (c + " " * (widths[k] - len(c)) + " ") for i, (k, c) in enumerate(cells))
    return line([(k, k) for k, _ in recs[0]]) + "".join(line([(k, v or "-") for k, v in r]) for r in recs)


def single_doc(fmt, events):
    """what ONE writer produces for these events (('r', rec) | ('s', text)) from start to end of stream"""
    if fmt == "pprint":
        # records are held back in batches of equal key lists; a batch is printed when the keys change (followed by an empty
        # line) and at end of stream; text goes to the stream at once (a manager never mixes the two kinds)
        out, batch = [x for k, x in events if k == "s"], []
        for r in [x for k, x in events if k == "r"]:
            if batch and [k for k, _ in batch[0]] != [k for k, _ in r]:
                b = pprint_block(batch)
                out.append(b + ("\n" if b else ""))
                batch = []
            batch.append(r)
        if batch:
            out.append(pprint_block(batch))
        return "".join(out)
    out, started, first = [], False, None
    for kind, x in events:
        if kind == "s":
            out.append(x)
            continue
        if fmt == "json":
            out.append(",\n" if started else "[\n")
            out.append(render_rec(fmt, x))
        elif fmt in ("csv", "tsv"):
            if not started:
                first = [k for k, _ in x]
                out.append((", " if False else ("," if fmt == "csv" else "\t")).join(first) + "\n")
            out.append(render_rec(fmt, x, max(0, len(first) - len(x))))
        elif fmt == "xtab":
            out.append(("\n" if started else "") + render_rec(fmt, x))
        else:
            out.append(render_rec(fmt, x))
        started = True
    if fmt == "json" and started:
        out.append("\n]\n")
    return "".join(out)


def routed(ops):
    d = {}
    for t, kind, x in ops:
        d.setdefault(t, []).append(("r" if kind == 0 else "s", x))
    return d


def expected_files(mode, fmt, ops, before):
    exp = dict(before)
    for t, evs in routed(ops).items():
        exp[t] = (before.get(t, "") if mode == "append" else "") + single_doc(fmt, evs)
    return exp


def tolerant_records(fmt, text, nkeys_hint=None):
    """records found in a file even if headers / bracket pairs repeat (used to tell 'repeated header' from 'lost/misrouted')"""
    recs = []
    if fmt == "json":
        dec, i = json.JSONDecoder(object_pairs_hook=lambda kv: kv), 0
        try:
            while i < len(text):
                while i < len(text) and text[i] in " \n\r\t":
                    i += 1
                if i >= len(text):
                    break
                doc, i = dec.raw_decode(text, i)
                recs += [[(k, str(v)) for k, v in r] for r in doc]
        except Exception:
            return None
        return recs
    if fmt == "jsonl":
        try:
            return [[(k, str(v)) for k, v in json.loads(l, object_pairs_hook=lambda kv: kv)] for l in text.splitlines()]
        except Exception:
            return None
    if fmt == "csv":
        lines = text.split("\n")
        if lines and lines[-1] == "":
            lines.pop()
        if not lines:
            return []
        hdr = lines[0].split(",")
        for l in lines[1:]:
            f = l.split(",")
            if f == hdr:
                continue
            recs.append([(k, v) for k, v in zip(hdr, f) if True])
        return recs
    if fmt == "dkvp":
        return [[tuple(p.split("=", 1)) for p in l.split(",")] if l else [] for l in text.splitlines()]
    if fmt == "nidx":
        return [[(str(i + 1), v) for i, v in enumerate(l.split(" "))] for l in text.splitlines()]


def segmented_docs(fmt, text, recs):
    """exactly the footprint of the eviction/re-open defect: the file is the concatenation of complete documents of two or more
    consecutive segments of the routed records (nothing lost, nothing reordered, nothing else)"""
    def go(text, recs, nseg):
        if not recs:
            return text == "" and nseg >= 2
        for j in range(1, len(recs) + 1):
            d = single_doc(fmt, [("r", r) for r in recs[:j]])
            if text.startswith(d) and go(text[len(d):], recs[j:], nseg + 1):
                return True
        return False
    return len(recs) <= 200 and go(text, recs, 0)


def doc_shape(fmt, text, events):
    """(headers, bracket pairs) counted in a file"""
    if fmt == "csv":
        first = next((x for k, x in events if k == "r"), None)
        if first is None:
            return (0, 0)
        h = ",".join(k for k, _ in first)
        return (sum(1 for l in text.split("\n") if l == h), 0)
    if fmt == "json":
        return (0, sum(1 for l in text.split("\n") if l == "["))
    return (0, 0)


# ------------------------------------------------------------------ history generator
def rand_val(rng, lo=1, hi=4):
    return "".join(rng.choice(VALPOOL) for _ in range(rng.randint(lo, hi)))


def mk_rec(rng, keys, seq):
    return [(k, (str(seq) if i == 0 else rand_val(rng))) for i, k in enumerate(keys)]


def gen_history(ctx, pattern, ntargets, fmt, mode, strings=False):
    """returns ops = [(target, kind, rec|text)] ; every target keeps ONE key list (CSV unsparsify corner added separately)"""
    rng = ctx.rng
    names = ["t%d" % i for i in range(ntargets)]
    keys = {t: ["a", "b"] if rng.random() < 0.7 else ["k%d" % j for j in range(rng.randint(1, 4))] for t in names}
    order = []
    if pattern == "twice":                       # every target once, then every target again
        order = names + names
    elif pattern == "round-robin":               # c+1 targets round-robin: every access after the first round is a miss
        order = names * 3
    elif pattern == "revisit-after-evict":       # fill the cache, then touch the name that was just evicted, repeatedly
        order = list(names[:CAP])
        victim = 0
        for t in names[CAP:]:
            order.append(t)
            order.append(names[victim])          # just evicted (LRU order = insertion order here)
            victim += 2 if victim + 2 < CAP else 1
    elif pattern == "long-gap":                  # a few hot targets between long runs over cold ones
        hot = names[:3]
        for i, t in enumerate(names):
            order.append(t)
            if i % 50 == 0:
                order += hot
        order += hot + names[:10]
    elif pattern == "random":
        n = ntargets * 2
        first = list(names)
        rng.shuffle(first)                     # every target once (so the distinct count really exceeds the capacity) ...
        order = first + [names[min(ntargets - 1, int(rng.paretovariate(0.6)) - 1)] if rng.random() < 0.5 else rng.choice(names) for _ in range(n)]
    elif pattern == "victim":
        # discriminates the eviction victim: fill the cache, then repeatedly (a) touch some open targets (this reorders recency
        # WITHOUT changing insertion order or access counts much), (b) open a new target (exactly one eviction), (c) write to
        # the predicted LRU victim's neighbours and to recently touched ones.  With a header/bracket/separator format the files
        # show exactly which handler was closed: LRU, FIFO, MRU or random-victim policies all give different bytes.
        from collections import OrderedDict
        lru = OrderedDict()
        spare = list(names[CAP:])
        def use(t):
            order.append(t)
            if t in lru:
                lru.move_to_end(t)
            else:
                if len(lru) >= CAP:
                    lru.popitem(last=False)
                lru[t] = 1
        for t in names[:CAP]:
            use(t)
        while spare:
            opened = list(lru)
            for t in rng.sample(opened[:12], 4) + rng.sample(opened, 3):      # touch: some of the oldest, some anywhere
                use(t)
            oldest = list(lru)[:3]
            use(spare.pop())                                                    # one eviction: list(lru)[0] under true LRU
            for t in [oldest[0], oldest[1], rng.choice(opened[:6])]:            # the victim (miss), the next-oldest (hit), an old one
                use(t)
    elif pattern == "small":
        order = [rng.choice(names) for _ in range(rng.randint(1, 24))]
    ops = []
    for i, t in enumerate(order):
        if strings:
            ops.append((t, 1, rand_val(rng, 0, 6) + ("\n" if rng.random() < 0.8 else "")))
        else:
            ks = keys[t]
            if fmt in ("csv", "tsv") and pattern == "small" and rng.random() < 0.15 and len(ks) > 1:
                ks = ks[:rng.randint(1, len(ks) - 1)]      # fewer fields than the header: the writer fills with empties
            ops.append((t, 0, mk_rec(rng, ks, i)))
    return ops


def gen_before(ctx, ops, ntargets):
    rng = ctx.rng
    before = {}
    for t in sorted({o[0] for o in ops}):
        if rng.random() < 0.3:
            before[t] = "old-" + rand_val(rng) + "\n"
    if rng.random() < 0.5:
        before["untouched"] = "keep me\n"
    return before


def cb(b):
    """bytes -> Coq term; printable ASCII and newlines go into ONE string literal (raw newline, doubled quotes): parsing
    a literal is ~100x cheaper than a list of numbers"""
    if isinstance(b, str):
        b = b.encode("latin1")
    if all((32 <= c < 127) or c == 10 for c in b):
        return '(B "%s")' % b.decode("ascii").replace('"', '""')
    return coq_bytes(b)


OPTY = "bytes * Z * record * bytes"
CASETY = "Z * Z * Z * list (bytes * Z * record * bytes) * list (bytes * bytes) * list (bytes * bytes)"


def case_defs(name, mode, fmt, cap, ops, before, after, chunk=40):
    """Coq definitions for one case.  Long list literals are split into many small Definitions: Coq's parser/elaborator is
    super-linear in the length of a [a; b; ...] literal, a few dozen elements per Definition keeps it linear."""
    def op_t(o):
        t, kind, x = o
        if kind == 0:
            return f"({coq_bytes(t)}, 0, {coq_record(x)}, [])"
        return f"({coq_bytes(t)}, 1, [], {cb(x)})"
    out, onames, anames = [], [], []
    for j in range(0, len(ops), chunk):
        n = f"{name}_o{j // chunk}"
        onames.append(n)
        out.append(f"Definition {n} : list ({OPTY}) := [" + ";\n ".join(op_t(o) for o in ops[j:j + chunk]) + "].")
    fl = sorted(after.items())
    for j in range(0, len(fl), chunk):
        n = f"{name}_a{j // chunk}"
        anames.append(n)
        out.append(f"Definition {n} : list (bytes * bytes) := [" + "; ".join(f"({coq_bytes(t)}, {cb(c)})" for t, c in fl[j:j + chunk]) + "].")
    bf = "[" + "; ".join(f"({coq_bytes(t)}, {cb(c)})" for t, c in sorted(before.items())) + "]"
    out.append(f"Definition {name}_b : list (bytes * bytes) := {bf}.")
    out.append(f"Definition {name} : {CASETY} := ({MODEN[mode]}, {FMTN[fmt]}, {cap}, List.concat [{'; '.join(onames)}], {name}_b, List.concat [{'; '.join(anames)}]).")
    return "\n".join(out)


def coq_eval_defs(ctx, name, cases_defs, names, shard=12, timeout=1500,
                  imports="Base.Bytes Base.Record C20.Model C20.Harness", casety=None, chk="chk"):
    """like vlib.coq_eval_mismatches, for cases given as blocks of Definitions (see case_defs)"""
    import subprocess
    procs, bad, err_all = [], [], ""
    for k in range(0, len(names), shard):
        f = GEN / f"cases_{name}_{k // shard}.v"
        body = [f"From Miller Require Import {imports}.", "Open Scope Z_scope."]
        body += cases_defs[k:k + shard]
        body += [f"Definition cases : list ({casety or CASETY}) := [{'; '.join(names[k:k + shard])}].",
                 f"Definition M := Eval vm_compute in mismatches {chk} cases.", "Print M."]
        f.write_text("\n".join(body) + "\n")
        procs.append((k, f, subprocess.Popen(["timeout", str(timeout), "coqc", "-Q", ".", "Miller", str(f)], cwd=COQ,
                                             stdout=subprocess.PIPE, stderr=subprocess.PIPE, text=True)))
    for k, f, p in procs:
        out, err = p.communicate()
        m = re.search(r"M\s*=\s*\[(.*?)\]\s*:\s*list N", out, re.S)
        if p.returncode != 0 or not m:
            err_all += f"{f.name}: rc={p.returncode} {err[-1500:]}\n"
            bad.append(-1 - k)
            continue
        for tok in m.group(1).split(";"):
            tok = tok.strip().replace("%N", "")
            if tok:
                bad.append(k + int(tok))
        for ext in (".vo", ".vok", ".vos", ".glob"):
            try:
                f.with_suffix(ext).unlink()
            except FileNotFoundError:
                pass
        try:
            (f.parent / ("." + f.stem + ".aux")).unlink()
        except FileNotFoundError:
            pass
    return bad, err_all


def wait_for(paths, timeout=20.0):
    t0 = time.time()
    while time.time() - t0 < timeout:
        if all(os.path.exists(p) for p in paths):
            return True
        time.sleep(0.02)
    return False


JOBS = max(1, int(os.environ.get("VERIF_JOBS", "2")))
TIMEOUTS = {"hang_confirmed": False}


def pmap(fn, items):
    from concurrent.futures import ThreadPoolExecutor
    items = list(items)
    if JOBS <= 1 or len(items) <= 1:
        return [fn(x) for x in items]
    with ThreadPoolExecutor(max_workers=JOBS) as ex:
        return list(ex.map(fn, items))


def drive(ctx, scratch, cases):
    """Run every history through the real manager.  Small histories share one driver process; each history with more than 64 ops
    gets its own process under a timeout.  A driver that dies, hangs or prints nothing for a history IS an observation:
    c["driver"] = "crash" | "hang" (with stderr tail) and the files written so far are still collected."""
    def prep(i, c):
        d = os.path.join(scratch, "h%d_%d" % (i, len(os.listdir(scratch))))
        os.mkdir(d)
        for t, content in c["before"].items():
            if c["mode"] == "pipe":
                continue
            with open(os.path.join(d, t), "w") as f:
                f.write(content)
        c["dir"] = d
        c["driver"], c["errors"], c["driver_stderr"] = "ok", [], ""
        return json.dumps({"dir": d, "mode": c["mode"], "fmt": c["fmt"], "opts": c.get("opts"),
                           "ops": [[t, k, ([list(kv) for kv in x] if k == 0 else x)] for t, k, x in c["ops"]]})

    def collect(c):
        names = sorted({o[0] for o in c["ops"]} | set(c["before"]))
        if c["mode"] == "pipe" and c["driver"] == "ok":
            wait_for([os.path.join(c["dir"], t) for t in {o[0] for o in c["ops"]}])
        obs = {}
        for t in names:
            pth = os.path.join(c["dir"], t)
            obs[t] = open(pth, "rb").read().decode("latin1") if os.path.exists(pth) else ""
        c["after"] = obs
        shutil.rmtree(c["dir"], ignore_errors=True)

    def one(ic):
        i, c = ic
        req = prep(i, c)
        rc, out, err = sh([ctx.implrun(), "lru-ops"], inp=req + "\n", timeout=60 if ctx.tier == "quick" else 240)
        if rc == 124 and not TIMEOUTS["hang_confirmed"]:
            # a time-out is taken for a hang only after it is confirmed ONCE per run with a long limit (a loaded machine starts
            # several hundred pipe commands slowly): same history, fresh directory.  If the long run completes, the machine is
            # slow and later time-outs are retried the same way; if it does not, later time-outs are hangs without a retry.
            shutil.rmtree(c["dir"], ignore_errors=True)
            ctx.dist("driver-timeout-retried")
            req = prep(i, c)
            rc, out, err = sh([ctx.implrun(), "lru-ops"], inp=req + "\n", timeout=600)
            if rc == 124:
                TIMEOUTS["hang_confirmed"] = True
        line = (out.splitlines() or [""])[0]
        if rc == 124:
            c["driver"] = "hang"
        elif rc != 0 or not line.startswith("{"):
            c["driver"] = "crash"
        else:
            resp = json.loads(line)
            c["errors"], c["open_max"], c["open_end"] = resp["errors"], resp.get("open_max"), resp.get("open_end")
        c["driver_stderr"] = ("rc=%s " % rc) + (err or "")[-1200:]
        collect(c)
        return c

    small = [(i, c) for i, c in enumerate(cases) if len(c["ops"]) <= 64]
    big = [(i, c) for i, c in enumerate(cases) if len(c["ops"]) > 64]
    if small:
        reqs = [prep(i, c) for i, c in small]
        rc, out, err = sh([ctx.implrun(), "lru-ops"], inp="\n".join(reqs) + "\n", timeout=300)
        lines = out.splitlines()
        if rc == 0 and len(lines) == len(small):
            for (i, c), l in zip(small, lines):
                resp = json.loads(l)
                c["errors"], c["open_max"], c["open_end"] = resp["errors"], resp.get("open_max"), resp.get("open_end")
                collect(c)
        else:                                   # somebody in the batch killed the driver: find out who, one process per history
            for i, c in small:
                shutil.rmtree(c["dir"], ignore_errors=True)
            pmap(one, small)
    pmap(one, big)
    return cases


def oracle_case(ctx, c, how):
    """the property on the implementation's own files. returns number of violations reported"""
    mode, fmt, ops = c["mode"], c["fmt"], c["ops"]
    before = c["before"] if mode != "pipe" else {}
    exp = expected_files(mode, fmt, ops, before)
    ev = routed(ops)
    n = 0
    if c.get("driver", "ok") != "ok":
        seen = ctx.cov.setdefault("driver_failures", {})
        seen[c["driver"]] = seen.get(c["driver"], 0) + 1
        if seen[c["driver"]] > 3:
            return 0
        distinct = len({o[0] for o in ops})
        ctx.violation({"class": "fanout-manager-" + c["driver"], "what": "the output-handler manager %s on this history (write ... ; Close())" % (
                           "did not return within the time limit" if c["driver"] == "hang" else "terminated abnormally / returned no result"),
                       "how": how, "mode": mode, "fmt": fmt, "pattern": c.get("pattern"), "ops": len(ops), "distinct_targets": distinct,
                       "driver_stderr": c.get("driver_stderr", "")[-800:], "input": brief(c),
                       "files_complete_so_far": sum(1 for t in exp if c["after"].get(t, "") == exp[t]), "files_expected": len(exp)})
        return 1
    if c.get("errors"):
        ctx.violation({"broken": "manager reported errors", "errors": c["errors"][:3], "how": how, "case": brief(c), "class": "manager-error"})
        return 1
    if mode != "pipe" and c.get("open_max") is not None and c["open_max"] > max(CAP, 1):
        # C20_lru_invariant: never more than max(c,1) handlers open -- the reason the cache exists (issue #1105: "too many open files")
        ctx.violation({"class": "fanout-open-files-bound", "what": "the manager held more files open than its capacity", "capacity": CAP,
                       "open_files_max": c["open_max"], "open_files_before_close": c.get("open_end"), "how": how, "mode": mode, "fmt": fmt,
                       "pattern": c.get("pattern"), "distinct_targets": len({o[0] for o in ops}), "input": brief(c)})
        return 1
    bad = [t for t in sorted(exp) if c["after"].get(t, "") != exp[t]]
    if not bad:
        return 0
    # classify: is every wrong file exactly the eviction/re-open footprint (complete documents of consecutive segments)?
    shape_only, worst = True, None
    for t in bad:
        base = before.get(t, "") if mode == "append" else ""
        text = c["after"].get(t, "")
        evs = ev.get(t, [])
        ok_shape = (fmt in STATEFUL and text.startswith(base) and evs and all(k == "r" for k, _ in evs)
                    and segmented_docs(fmt, text[len(base):], [x for _, x in evs]))
        if not ok_shape:
            shape_only, worst = False, t
            break
        worst = worst or t
    t = worst
    hdrs, brs = doc_shape(fmt, c["after"].get(t, ""), ev.get(t, []))
    distinct = len({o[0] for o in ops})
    rep = {"how": how, "mode": mode, "fmt": fmt, "distinct_targets": distinct, "ops": len(ops), "pattern": c.get("pattern"),
           "target": t, "observed": c["after"].get(t, "")[:600], "expected": exp[t][:600],
           "headers_in_file": hdrs, "bracket_pairs_in_file": brs, "targets_wrong": len(bad), "input": brief(c)}
    if shape_only and distinct > CAP and fmt in STATEFUL and mode != "pipe":
        rep["class"] = WCLASS
        seen = ctx.cov.setdefault("finding_witnesses", {})
        seen["lru-ops:" + fmt] = seen.get("lru-ops:" + fmt, 0) + 1
        if seen["lru-ops:" + fmt] > 1:
            return 0                      # same class, same surface: already reported once
        rep["note"] = ("records complete and in order; the file is not ONE document: the handler was evicted from the LRU cache and "
                       "re-opened in append mode with a fresh record writer (file_output_handlers.go:getOutputHandlerFor)")
    else:
        rep["class"] = "fanout-content"
    return 1 if ctx.violation(rep) else 0          # a listed known finding does not use up the reporting budget


def brief(c):
    ops = c["ops"]
    return {"mode": c["mode"], "fmt": c["fmt"], "pattern": c.get("pattern"), "nops": len(ops), "first_ops": [list(o) for o in ops[:6]],
            "order": [o[0] for o in ops][:1200], "seed_note": "regenerate with the same VERIF_SEED; order lists the targets in op order"}


# ------------------------------------------------------------------ end-to-end mlr runs
def e2e(ctx, scratch):
    rng = ctx.rng
    n_viol = 0

    def recs_for(nkeys, per, shuffle_rounds=2):
        out = []
        for rnd in range(shuffle_rounds):
            for i in range(nkeys):
                for _ in range(per):
                    out.append([("k", "g%d" % i), ("v", rand_val(rng, 1, 3) + "x"), ("i", "s%d" % len(out))])
        return out

    def run(args, stdin, cwd):
        st, out, err = mlr_run(ctx, args, stdin, timeout=60, cwd=cwd)
        return st, out.decode("utf-8", "surrogateescape"), err.decode("utf-8", "replace")

    def readall(d):
        res = {}
        for root, _, files in os.walk(d):
            for f in files:
                p = os.path.join(root, f)
                res[os.path.relpath(p, d)] = open(p, "rb").read().decode("utf-8", "surrogateescape")
        return res

    def check(name, fmt, args, recs, expect, cwd, mode="write", before=None, main_expect=None, wait=None, stdin=None):
        """expect: {relative file: events}"""
        nonlocal n_viol
        before = before or {}
        for t, content in before.items():
            os.makedirs(os.path.dirname(os.path.join(cwd, t)) or cwd, exist_ok=True)
            open(os.path.join(cwd, t), "w").write(content)
        st, out, err = run(args, dkvp(recs) if stdin is None else stdin, cwd)
        if wait:
            wait_for([os.path.join(cwd, w) for w in wait])
        files = readall(cwd)
        ctx.count(("e2e", name, fmt, len(recs), len(expect)))
        ctx.dist("e2e:" + name.split(":")[0])
        ok = st == 0
        exp_files = dict(before)
        for t, evs in expect.items():
            exp_files[t] = (before.get(t, "") if mode == "append" else "") + single_doc(fmt, evs)
        wrong = [t for t in sorted(exp_files) if files.get(t, "") != exp_files[t]]
        extra = [t for t in files if t not in exp_files and not t.endswith(".part")]
        main_bad = main_expect is not None and out != main_expect
        if ok and not wrong and not extra and not main_bad:
            return True
        rep = {"how": "mlr " + " ".join(args), "stdin_records": len(recs), "stdin_head": dkvp(recs[:5]).decode(), "status": st, "stderr": err[-400:],
               "fmt": fmt, "targets": len(expect), "wrong_files": wrong[:5], "unexpected_files": extra[:5], "main_stream_wrong": bool(main_bad),
               "e2e": name}
        cls = "fanout-content"
        if ok and wrong and not extra and not main_bad and len(expect) > CAP and fmt in STATEFUL:
            shape_only = True
            for t in wrong:
                base = before.get(t, "") if mode == "append" else ""
                evs_t = expect.get(t, [])
                text = files.get(t, "")
                if not (text.startswith(base) and evs_t and all(kk == "r" for kk, _ in evs_t)
                        and segmented_docs(fmt, text[len(base):], [x for _, x in evs_t])):
                    shape_only = False
                    break
            if shape_only:
                cls = WCLASS
                rep["note"] = "records complete and in order in every target; header / bracket pair repeated after LRU eviction and re-open"
                seen = ctx.cov.setdefault("finding_witnesses", {})
                seen["mlr:" + fmt] = seen.get("mlr:" + fmt, 0) + 1
                if seen["mlr:" + fmt] > 1:
                    return False
        if wrong:
            rep["target"] = wrong[0]
            rep["observed"] = files.get(wrong[0], "")[:500]
            rep["expected"] = exp_files[wrong[0]][:500]
        rep["class"] = cls
        rep["replay_args"] = args
        rep["replay_stdin"] = (dkvp(recs) if stdin is None else stdin).decode("utf-8", "surrogateescape")
        rep["replay_expect"] = {t: exp_files[t] for t in list(exp_files)[:2000]}
        n_viol += 1 if ctx.violation(rep) else 0
        return False

    def fresh(tag):
        d = os.path.join(scratch, tag)
        os.makedirs(d)
        return d

    oflag = {"dkvp": "--odkvp", "nidx": "--onidx", "jsonl": "--ojsonl", "csv": "--ocsv", "json": "--ojson", "tsv": "--otsv", "xtab": "--oxtab",
             "pprint": "--opprint"}
    # quick tier: beyond the capacity each format gets ONE kind of fan-out (all kinds x all formats with few targets)
    big_kind = {"csv": "split-g", "json": "tee-redirect", "xtab": "split-g", "pprint": "tee-redirect", "dkvp": "emit-redirect", "tsv": "emit-redirect",
                "jsonl": "split-g", "nidx": "print-redirect"}
    evs = lambda rs: [("r", r) for r in rs]
    sizes = [3, CAP + 44] if ctx.tier == "quick" else [3, 40, CAP + 1, CAP + 44, 600]
    k = 0
    for fmt in FMTS:
        for nk in sizes:
            recs = recs_for(nk, 1 if nk > 10 else 3)
            groups = {}
            for r in recs:
                groups.setdefault(r[0][1], []).append(r)
            main_dkvp = dkvp(recs).decode()
            want = lambda kind: nk <= 10 or ctx.tier == "thorough" or big_kind[fmt] == kind
            if want("split-g"):
                k += 1
                d = fresh("e%d" % k)
                pre = rng.choice(["split", "out", "p q"])
                check("split-g", fmt, [oflag[fmt], "split", "-g", "k", "--prefix", pre], recs,
                      {f"{pre}_{g}.{fmt}": evs(rs) for g, rs in groups.items()}, d, main_expect="")
            if want("tee-redirect"):
                k += 1
                d = fresh("e%d" % k)
                check("tee-redirect", fmt, [oflag[fmt], "put", "-q", 'tee > $k.".dat", $*'], recs,
                      {g + ".dat": evs(rs) for g, rs in groups.items()}, d, main_expect="")
            if want("emit-redirect"):
                k += 1
                d = fresh("e%d" % k)
                check("emit-redirect", fmt, [oflag[fmt], "put", "-q", 'emit > "em_".$k.".out", mapsum($*, {})'], recs,
                      {"em_" + g + ".out": evs(rs) for g, rs in groups.items()}, d, main_expect="")
            if want("print-redirect"):
                k += 1
                d = fresh("e%d" % k)
                check("print-redirect", fmt, [oflag[fmt], "put", "-q", 'print > $k.".txt", $i.":".$v'], recs,
                      {g + ".txt": [("s", r[2][1] + ":" + r[1][1] + "\n") for r in rs] for g, rs in groups.items()}, d, main_expect="")
    # --- small-target variants: append, pipe, folder/suffix, -n / -m, names needing escaping, printn, dump, emitf, tee verb
    recs = recs_for(4, 3)
    groups = {}
    for r in recs:
        groups.setdefault(r[0][1], []).append(r)
    for fmt in FMTS:
        k += 1; d = fresh("e%d" % k)
        before = {"g0.dat": "older line\n"}
        check("tee-redirect:append", fmt, [oflag[fmt], "put", "-q", 'tee >> $k.".dat", $*'], recs,
              {g + ".dat": evs(rs) for g, rs in groups.items()}, d, mode="append", before=before, main_expect="")
        k += 1; d = fresh("e%d" % k)
        check("tee-redirect:pipe", fmt, [oflag[fmt], "put", "-q", 'tee | "cat > ".$k.".part && mv ".$k.".part ".$k.".piped", $*'], recs,
              {g + ".piped": evs(rs) for g, rs in groups.items()}, d, main_expect="", wait=[g + ".piped" for g in groups])
        k += 1; d = fresh("e%d" % k)
        check("print-redirect:append", fmt, [oflag[fmt], "put", "-q", 'print >> "all.txt", $i'], recs,
              {"all.txt": [("s", r[2][1] + "\n") for r in recs]}, d, mode="append", before={"all.txt": "first\n"}, main_expect="")
        k += 1; d = fresh("e%d" % k)
        check("printn-redirect", fmt, [oflag[fmt], "put", "-q", 'printn > $k.".n", $i'], recs,
              {g + ".n": [("s", r[2][1]) for r in rs] for g, rs in groups.items()}, d, main_expect="")
        k += 1; d = fresh("e%d" % k)
        check("print-redirect:pipe", fmt, [oflag[fmt], "put", "-q", 'print | "cat > p.part && mv p.part p.out", $i'], recs,
              {"p.out": [("s", r[2][1] + "\n") for r in recs]}, d, main_expect="", wait=["p.out"])
        # split -n / -m with folder and suffix; -a appends
        k += 1; d = fresh("e%d" % k)
        n = rng.randint(1, 5)
        check("split-n", fmt, [oflag[fmt], "split", "-n", str(n), "--folder", "sub", "--suffix", "dat"], recs,
              {f"sub/split_{i // n + 1}.dat": evs(recs[i:i + n]) for i in range(0, len(recs), n)}, d, main_expect="")
        k += 1; d = fresh("e%d" % k)
        m = rng.randint(1, 5)
        check("split-m", fmt, [oflag[fmt], "split", "-m", str(m), "--prefix", "rr"], recs,
              {f"rr_{j + 1}.{fmt}": evs(recs[j::m]) for j in range(m) if recs[j::m]}, d, main_expect="")
        k += 1; d = fresh("e%d" % k)
        check("split-g:append", fmt, [oflag[fmt], "split", "-a", "-g", "k"], recs,
              {f"split_{g}.{fmt}": evs(rs) for g, rs in groups.items()}, d, mode="append", before={f"split_g1.{fmt}": "existing\n"}, main_expect="")
        # split -v passes the records on as well
        k += 1; d = fresh("e%d" % k)
        check("split-g:-v", fmt, ["--odkvp", "split", "-v", oflag[fmt], "-g", "k"], recs,
              {f"split_{g}.{fmt}": evs(rs) for g, rs in groups.items()}, d, main_expect=dkvp(recs).decode())
        # tee verb: file complete, records passed on; -a; -p
        k += 1; d = fresh("e%d" % k)
        check("tee-verb", fmt, ["--odkvp", "tee", oflag[fmt], "tap.out", "then", "put", "$z=1"], recs,
              {"tap.out": evs(recs)}, d, main_expect=dkvp([r + [("z", "1")] for r in recs]).decode())
        k += 1; d = fresh("e%d" % k)
        check("tee-verb:append", fmt, ["--odkvp", "tee", "-a", oflag[fmt], "tap.out"], recs,
              {"tap.out": evs(recs)}, d, mode="append", before={"tap.out": "previous\n"}, main_expect=dkvp(recs).decode())
        k += 1; d = fresh("e%d" % k)
        check("tee-verb:pipe", fmt, ["--odkvp", "tee", "-p", oflag[fmt], "cat > tp.part && mv tp.part tp.out"], recs,
              {"tp.out": evs(recs)}, d, main_expect=dkvp(recs).decode(), wait=["tp.out"])
    # names needing escaping (split URL-escapes group values; -e does not)
    odd = [[("k", v), ("v", "w%d" % i)] for i, v in enumerate(["a b", "c/d", "e&f", "x%y", "a b", "..", "c/d", "q?r=s", "UPPER", "é"])]
    og = {}
    for r in odd:
        og.setdefault(r[0][1], []).append(r)
    k += 1; d = fresh("e%d" % k)
    check("split-g:escaped-names", "dkvp", ["split", "-g", "k"], odd,
          {"split_" + urllib.parse.quote_plus(g.encode("utf-8"), safe="") + ".dkvp": evs(rs) for g, rs in og.items()}, d, main_expect="")
    odd2 = [r for r in odd if "/" not in r[0][1]]
    og2 = {}
    for r in odd2:
        og2.setdefault(r[0][1], []).append(r)
    k += 1; d = fresh("e%d" % k)
    check("split-g:-e", "dkvp", ["split", "-e", "-g", "k"], odd2,
          {"split_" + g + ".dkvp": evs(rs) for g, rs in og2.items()}, d, main_expect="")
    k += 1; d = fresh("e%d" % k)
    check("tee-redirect:odd-names", "dkvp", ["put", "-q", 'tee > "o ".$k.".d", $*'], odd2,
          {"o " + g + ".d": evs(rs) for g, rs in og2.items()}, d, main_expect="")
    # split -g with 2-3 group-by fields whose values contain commas and other name-hostile bytes: the partition is by the TUPLE
    # of values; ("x,y","z") and ("x","y,z") are different groups with different files (names as split builds them: values joined
    # by "_", URL-escaped, prefix_<name>.<suffix>); tuples that really give the same name share the file, in stream order
    pool = ["x", "y", "z", "x,y", "y,z", "x,y,z", ",", "a b", "a_b", "b", "c/d", "p%2Cq", "p,q", "k=v", "e&f", "..", "-", "Ü"]
    for nfields, fmt in ((2, "dkvp"), (3, "json"), (2, "csv")) + (((3, "dkvp"), (2, "json")) if ctx.tier == "thorough" else ()):
        fields = ["g%d" % j for j in range(nfields)]
        tuples = [("x,y", "z", "w")[:nfields], ("x", "y,z", "w")[:nfields], ("x", "y", "z,w")[:nfields], ("x,y", "z,w", "")[:nfields]]
        tuples = [tuple(v or "q" for v in t) for t in tuples] + [tuple(rng.choice(pool) for _ in range(nfields)) for _ in range(10)]
        trecs = []
        for rnd in range(3):
            order = list(tuples)
            rng.shuffle(order)
            for t in order:
                trecs.append([(f, v) for f, v in zip(fields, t)] + [("n", "r%d" % len(trecs))])
        trecs.append([("n", "nogroup")])                                   # lacks the group-by fields: the _ungrouped target
        byname = {}
        for r in trecs:
            if len(r) == 1:
                nm = "split_ungrouped." + fmt
            else:
                nm = "split_" + urllib.parse.quote_plus("_".join(v for _, v in r[:nfields]).encode("utf-8"), safe="") + "." + fmt
            byname.setdefault(nm, []).append(r)
        if fmt == "csv":                                                    # CSV target files must not mix key lists
            byname = {nm: rs for nm, rs in byname.items()}
        jin = ("[" + ",\n".join(json.dumps(dict(r), ensure_ascii=False) for r in trecs) + "]\n").encode("utf-8")
        k += 1; d = fresh("e%d" % k)
        if fmt == "csv":
            # quoting is C01's subject: compare the records parsed back by mlr instead of bytes
            st, out, err = run(["--ijson", "--ocsv", "split", "-g", ",".join(fields)], jin, d)
            files = readall(d)
            ctx.count(("e2e", "split-g:tuple-keys", fmt, nfields)); ctx.dist("e2e:split-g-tuple")
            got = {}
            for nm in files:
                st2, o2, e2 = run(["--icsv", "--ojson", "cat", nm], b"", d)
                try:
                    got[nm] = [[(kk, str(vv)) for kk, vv in r.items()] for r in json.loads(o2)] if o2.strip() else []
                except Exception:
                    got[nm] = None
            want = {nm: [[(kk, vv) for kk, vv in r] for r in rs] for nm, rs in byname.items()}
            if st != 0 or got != want:
                wrong = sorted(set(nm for nm in set(got) | set(want) if got.get(nm) != want.get(nm)))
                n_viol += 1 if ctx.violation({"class": "fanout-content", "e2e": "split-g:tuple-keys", "how": "mlr --ijson --ocsv split -g " + ",".join(fields),
                                              "status": st, "stderr": err[-300:], "wrong_or_missing_files": wrong[:6], "fmt": fmt,
                                              "observed": {nm: got.get(nm) for nm in wrong[:2]}, "expected": {nm: want.get(nm) for nm in wrong[:2]},
                                              "replay_args": ["--ijson", "--ocsv", "split", "-g", ",".join(fields)], "replay_stdin": jin.decode("utf-8"),
                                              "replay_expect_records": want}) else 0
        else:
            check("split-g:tuple-keys", fmt, ["--ijson", oflag[fmt], "--jvquoteall", "split", "-g", ",".join(fields)], trecs,
                  {nm: evs(rs) for nm, rs in byname.items()}, d, main_expect=("[\n]\n" if fmt == "json" else ""), stdin=jin)   # JSON in, JSON out, no records: "[ ]"
    # dump > and emitf > at end of stream
    k += 1; d = fresh("e%d" % k)
    check("dump-redirect", "json", ["--ojson", "put", "-q", '@c[$k] = $i; end { dump > "dump.out" }'], recs,
          {"dump.out": [("s", "{\n  \"c\": {\n" + ",\n".join(f'    "{g}": "{rs[-1][2][1]}"' for g, rs in groups.items()) + "\n  }\n}\n")]}, d, main_expect="")
    k += 1; d = fresh("e%d" % k)
    check("emitf-redirect", "dkvp", ["put", "-q", '@n = NR; emitf > "n_".$k.".out", @n'], recs,
          {"n_" + g + ".out": [("r", [("n", str(recs.index(r) + 1))]) for r in rs] for g, rs in groups.items()}, d, main_expect="")
    return n_viol


def tee_then_head(ctx, scratch):
    """tee passes every record on and keeps its file complete even when a later head stops the stream early."""
    terms = []
    # inputs of many reader batches: with a tee that forwarded the done flag the reader stops after a few batches (seen with a
    # mutated tee.go: 7500-16000 of 20000 records reach the file), small inputs are read completely before head can signal
    for total, n in [(3000, 1), (1700, 0), (10, 3), (30000, 1), (100000, 4)] + ([(400000, 2), (50000, 600)] if ctx.tier == "thorough" else []):
        d = os.path.join(scratch, "th%d_%d" % (total, n))
        os.makedirs(d)
        inp = "".join("i=%d,v=x\n" % i for i in range(total)).encode()
        st, out, err = mlr_run(ctx, ["tee", "full.out", "then", "head", "-n", str(n)], inp, timeout=120, cwd=d)
        p = os.path.join(d, "full.out")
        teed = open(p, "rb").read() if os.path.exists(p) else b""
        ctx.count(("tee-head", total, n))
        ctx.dist("tee-then-head")
        tee_seen, main_seen = teed.count(b"\n"), out.count(b"\n")
        terms.append(f"({n}, {ctx.rng.randint(0, total)}, {total}, {tee_seen}, {main_seen})")
        if st != 0 or teed != inp or out != inp[:len(b"".join(inp.splitlines(True)[:n]))]:
            ctx.violation({"how": f"mlr tee full.out then head -n {n}  (stdin: {total} records i=0..)", "status": st, "tee_file_records": tee_seen,
                           "main_records": main_seen, "expected": f"tee file = all {total} records; main = first {n}", "class": "tee-truncated-by-head",
                           "total": total, "n": n})
    return terms


# ------------------------------------------------------------------ main
def build_cases(ctx):
    rng = ctx.rng
    cases = []
    nsmall = 120 if ctx.tier == "quick" else 3000
    for _ in range(nsmall):
        fmt, mode = rng.choice(FMTS), rng.choice(MODES if rng.random() < 0.12 else MODES[:2])
        strings = rng.random() < 0.2
        nt = rng.randint(1, 6)
        ops = gen_history(ctx, "small", nt, fmt, mode, strings)
        cases.append({"mode": mode, "fmt": fmt, "ops": ops, "before": gen_before(ctx, ops, nt) if mode != "pipe" else {}, "pattern": "small"})
        ctx.dist("history:small")
    big = []
    pats = ["twice", "round-robin", "revisit-after-evict", "long-gap", "random"]
    # quick tier: every pattern with 3 formats, every format with >= 1 pattern (rotating assignment); thorough: the full product
    for pi, pat in enumerate(pats):
        fmts = FMTS if ctx.tier == "thorough" else [FMTS[(pi * 3 + j) % len(FMTS)] for j in range(3)]
        for fmt in fmts:
            for mode in (["write", "append"] if ctx.tier == "thorough" else [rng.choice(["write", "append"])]):
                nt = {"round-robin": CAP + 1, "revisit-after-evict": CAP + rng.randint(20, 60)}.get(pat, rng.randint(CAP + 1, 600 if ctx.tier == "thorough" else 330))
                strings = (pat == "random" and mode == "append" and rng.random() < 0.5)
                ops = gen_history(ctx, pat, nt, fmt, mode, strings)
                big.append({"mode": mode, "fmt": fmt, "ops": ops, "before": gen_before(ctx, ops, nt), "pattern": pat})
                ctx.dist("history:" + pat)
    # the eviction victim must be the LEAST RECENTLY USED handler (C20_open_set_is_most_recently_used): stateful formats show it
    for fmt in (["csv", "json", "xtab"] if ctx.tier == "quick" else ["csv", "tsv", "json", "xtab", "pprint"]):
        ops = gen_history(ctx, "victim", CAP + rng.randint(12, 20), fmt, "write")
        big.append({"mode": "write", "fmt": fmt, "ops": ops, "before": {}, "pattern": "victim"})
        ctx.dist("history:victim")
    # exactly at capacity: 256 targets twice (no eviction: one document for every format)
    for fmt in (["csv", "json", "xtab", "pprint"] if ctx.tier == "quick" else FMTS):
        ops = gen_history(ctx, "twice", CAP, fmt, "write")
        big.append({"mode": "write", "fmt": fmt, "ops": ops, "before": {}, "pattern": "at-capacity"})
        ctx.dist("history:at-capacity")
    # pipes are never evicted: > capacity distinct commands, every format keeps one document
    for fmt in (["csv"] if ctx.tier == "quick" else FMTS):
        ops = gen_history(ctx, "twice", CAP + 20, fmt, "pipe")
        big.append({"mode": "pipe", "fmt": fmt, "ops": ops, "before": {}, "pattern": "pipe-beyond-capacity"})
        ctx.dist("history:pipe-beyond-capacity")
    return cases + big


def run(ctx):
    ctx.cov["rule"] = ("op histories (target, record|text) through the real MultiOutputHandlerManager at its real capacity 256: 1-6 targets random, and "
                       "257-600 targets with patterns twice / round-robin over c+1 / revisit-just-evicted / long-gap / pareto-random / exactly-at-capacity / "
                       "pipes beyond capacity / victim-discriminating (touch old handlers, open one new target, write to the LRU victim and its neighbours); "
                       "x {dkvp,nidx,jsonl,csv,json,tsv,xtab (Coq model), pprint (oracle only)} x {>,>>,|}; pre-existing files; CSV records shorter than the header; one kind "
                       "of event per manager (records for tee/emit, text for print/dump) as in Miller; values over [A-Za-z0-9_.-] (codecs are C01). "
                       "Compared: bytes of every touched or pre-existing file vs Model.render (Model.finalR ...) under vm_compute. Oracle: file == the one "
                       "document a single writer produces for the routed sub-sequence. End-to-end: tee, split -n/-m/-g/-a/-v/-e/--prefix/--suffix/--folder, "
                       "tee/emit/emitf/print/printn/dump with > >> |, 3 and 300 targets, names needing escaping; tee then head.")
    ctx.cov["trusted_base"] = ["Coq 8.16.1 kernel + vm_compute", "no axioms", "python harness + implrun lru-ops driver",
                               "record codecs are rendered over a safe alphabet only (C01 covers quoting/escaping)",
                               "OS file semantics O_TRUNC/O_APPEND and pipe delivery (modelled as list append)"]
    ctx.assumptions = ["a handler's buffered bytes reach the file at Close (bufio flush), modelled as immediate append",
                       "tee-in-chain model is a scheduling abstraction (reader may stop only if the done flag reaches it)"]
    # capacity constant cross-check (the model is parametric; the driver exercises the real constant)
    src = (REPO / "pkg/output/file_output_handlers.go").read_text()
    m = re.search(r"const\s+lruFileHandlerCapacity\s*=\s*(\d+)", src)
    global CAP
    if m:
        CAP = int(m.group(1))
    ctx.cov["capacity_constant"] = CAP
    forbidden_gate(ctx, ["Base", "C20"])
    ok, why = check_props(ctx, "C20/Props.v", ["C20/Harness.vo", "C20/Proofs.vo", "C20/ProofsR.vo", "C20/HarnessG.vo", "C20/ProofsW.vo", "C20/WritersYaml.vo", "C20/ProofsChain.vo", "C20/HarnessChain.vo"])
    scratch = tempfile.mkdtemp(prefix="verif-c20-", dir="/tmp")
    try:
        cases = build_cases(ctx)
        with ctx.timed("impl"):
            drive(ctx, scratch, cases)
        nviol = 0
        for i, c in enumerate(cases):
            ctx.count(("hist", c["mode"], c["fmt"], c["pattern"], tuple((o[0], o[1], str(o[2])) for o in c["ops"])))
            if nviol < 6:                       # budget of REPORTED violations; every history is still evaluated until it is used up
                nviol += oracle_case(ctx, c, "implrun lru-ops")
        for i in (0, 5, len(cases) - 1, len(cases) - 12):
            c = cases[i]
            ctx.sample({"mode": c["mode"], "fmt": c["fmt"], "pattern": c["pattern"], "ops": len(c["ops"]), "distinct_targets": len({o[0] for o in c["ops"]}),
                        "first_ops": [list(o) for o in c["ops"][:3]]})
        with ctx.timed("e2e"):
            e2e(ctx, scratch)
            chain_terms = tee_then_head(ctx, scratch)
        if ok:
            from checks import c20_writers as CW
            CW.run_writers(ctx, scratch, CAP, drive, coq_eval_defs)
    finally:
        shutil.rmtree(scratch, ignore_errors=True)
    if not ok:
        ctx.violation({"broken": why}, found_input=False)
        return
    # big histories first so that the parallel shards are balanced
    order = sorted([i for i in range(len(cases)) if cases[i]["fmt"] in FMTN and cases[i].get("driver", "ok") == "ok"], key=lambda i: -len(cases[i]["ops"]))
    ctx.cov["oracle_only_histories(pprint)"] = len(cases) - len(order)
    nshards = max(1, int(os.environ.get("VERIF_JOBS", "2")))      # parallel coqc processes
    order = [i for r in range(nshards) for i in order[r::nshards]]
    per = (len(order) + nshards - 1) // nshards
    names = ["c%d" % i for i in order]
    defs = [case_defs("c%d" % i, cases[i]["mode"], cases[i]["fmt"], CAP, cases[i]["ops"],
                      cases[i]["before"] if cases[i]["mode"] != "pipe" else {}, cases[i]["after"]) for i in order]
    terms = names
    with ctx.timed("coq_cases"):
        bad, err = coq_eval_defs(ctx, "C20", defs, names, shard=per)
        bad = [order[i] if i >= 0 else i for i in bad]
        open_cases = [c for c in cases if c["mode"] != "pipe" and c.get("driver", "ok") == "ok" and not c.get("errors") and c.get("open_end") is not None]
        open_terms = ["(%d, [%s], %d)" % (CAP, "; ".join(coq_bytes(o[0]) for o in c["ops"]), c["open_end"]) for c in open_cases]
        bad3, err3 = coq_eval_mismatches(ctx, "C20open", "Base.Record C20.Model C20.HarnessG", "Z * list bytes * Z", "chk_open", open_terms)
        bad2, err2 = coq_eval_mismatches(ctx, "C20chain", "Base.Record C20.Model C20.Harness", "Z * Z * Z * Z * Z", "chk_chain", chain_terms)
    ctx.cov["correspondence"] = {"cases": len(terms) + len(chain_terms), "mismatches": len(bad) + len(bad2)}
    ctx.cov["correspondence_open_files"] = {"cases": len(open_terms), "mismatches": len(bad3)}
    if err or err2 or err3:
        ctx.violation({"broken": "correspondence-evaluation", "detail": (err + err2 + err3)[-2000:]}, found_input=False)
        return
    for i in bad3[:3]:
        c = open_cases[i]
        ctx.violation({"class": "fanout-open-files-bound", "what": "number of files the manager holds open before Close() differs from the model (C20_open_set_is_most_recently_used: min(distinct targets, capacity))",
                       "open_files_before_close": c["open_end"], "open_files_max": c.get("open_max"), "capacity": CAP,
                       "distinct_targets": len({o[0] for o in c["ops"]}), "mode": c["mode"], "fmt": c["fmt"], "pattern": c.get("pattern"), "input": brief(c)})
    for i in bad[:3]:
        c = cases[i]
        # the oracle has already looked at this case; a model/implementation difference without an oracle failure is reported as such
        ctx.violation({"broken": "correspondence C20.Harness.chk (model and implementation differ)", "case": brief(c),
                       "observed_files_head": dict(list(c["after"].items())[:3])}, found_input=False)
    for i in bad2[:3]:
        ctx.violation({"broken": "correspondence C20.Harness.chk_chain", "case": chain_terms[i]}, found_input=False)


def replay(ctx, path):
    obj = json.loads(Path(path).read_text())
    scratch = tempfile.mkdtemp(prefix="verif-c20-", dir="/tmp")
    try:
        if "replay_expect_records" in obj:
            st, out, err = mlr_run(ctx, obj["replay_args"], obj["replay_stdin"].encode("utf-8"), timeout=60, cwd=scratch)
            got = {}
            for nm in os.listdir(scratch):
                st2, o2, e2 = mlr_run(ctx, ["--icsv", "--ojson", "cat", nm], b"", timeout=60, cwd=scratch)
                try:
                    got[nm] = [[[kk, str(vv)] for kk, vv in r.items()] for r in json.loads(o2.decode("utf-8"))] if o2.strip() else []
                except Exception:
                    got[nm] = None
            want = {nm: [[list(kv) for kv in r] for r in rs] for nm, rs in obj["replay_expect_records"].items()}
            ctx.count(("replay", path))
            wrong = sorted(nm for nm in set(got) | set(want) if got.get(nm) != want.get(nm))
            print("replay: mlr %s -> status %s, %d target files wrong or missing" % (" ".join(obj["replay_args"]), st, len(wrong)))
            if wrong or st != 0:
                ctx.violation(dict(obj, replayed=True, wrong_files=wrong[:5]))
        elif "replay_args" in obj:
            st, out, err = mlr_run(ctx, obj["replay_args"], obj["replay_stdin"].encode("utf-8", "surrogateescape"), timeout=120, cwd=scratch)
            time.sleep(0.5)
            wrong = []
            for t, want in obj["replay_expect"].items():
                p = os.path.join(scratch, t)
                got = open(p, "rb").read().decode("latin1") if os.path.exists(p) else ""
                if got != want:
                    wrong.append(t)
            ctx.count(("replay", path))
            print("replay: mlr %s -> status %s, %d of %d target files differ from the single-document expectation" % (
                " ".join(obj["replay_args"]), st, len(wrong), len(obj["replay_expect"])))
            if wrong or st != 0:
                ctx.violation(dict(obj, replayed=True, wrong_files=wrong[:5]))
        elif "input" in obj and isinstance(obj["input"], dict) and "order" in obj["input"]:
            inp = obj["input"]
            ops = [(t, 0, [("a", str(i)), ("b", "x")]) for i, t in enumerate(inp["order"])]
            c = {"mode": inp["mode"], "fmt": inp["fmt"], "ops": ops, "before": {}, "pattern": inp.get("pattern")}
            drive(ctx, scratch, [c])
            ctx.count(("replay", path))
            n = oracle_case(ctx, c, "implrun lru-ops (replay: same target order, fresh records)")
            print("replay: %d ops over %d targets, %s/%s -> %s" % (len(ops), len(set(inp["order"])), inp["mode"], inp["fmt"], "still fails" if n else "passes"))
        elif "total" in obj:
            for t in tee_then_head(ctx, scratch):
                pass
        else:
            print("replay: nothing replayable in", path)
    finally:
        shutil.rmtree(scratch, ignore_errors=True)
