"""C12 — field-restructuring verbs do exactly their rearrangement and invert cleanly (DESIGN 3/C12)."""
import json, os
from concurrent.futures import ThreadPoolExecutor
from vlib import *

IFS, IPS = b"\x1f", b"\x1e"
SEPARGS = ["--ifs", "\x1f", "--ips", "\x1e", "--ofs", "\x1f", "--ops", "\x1e"]

# field names: plain, duplicate-looking, with regex metacharacters, non-ASCII (never ',' : -f lists are comma-split)
PLAIN = [b"a", b"b", b"c", b"d", b"x", b"y", b"k", b"v", b"ab", b"A", b"a_1", b"x_1", b"x_2", b"x_10", b"1", b"2", b"3"]
META = [b"a.b", b"a*", b"[a]", b"a|b", b"^a", b"a$", b"a+", b"(a)", b"a\\b", b"x.1", b"\xc3\xa9", b"a b", b"a=b", b"a;b", b"\xff"]
VALUES = [b"", b"", b"1", b"2", b"3", b"a", b"b", b"x", b"x;y", b"p;q;r", b";", b"a;", b";;", b"0x10", b"1e3", b"-0", b"N/A", b" ", b"a:b", b"x_1",
          b"k", b"v", b"1;2", b"\xc3\xa9", b"a.b", b"007", b"abc", b"_"]


def enc(recs):
    return b"".join(IFS.join(k + IPS + v for k, v in r) + b"\n" for r in recs)


def dec(out):
    recs = []
    for line in out.split(b"\n")[:-1]:
        if line == b"":
            recs.append([])
            continue
        r = []
        for f in line.split(IFS):
            k, _, v = f.partition(IPS)
            r.append((k, v))
        recs.append(r)
    return recs


def run_mlr_cli(ctx, verbargs, recs):
    """end-to-end through the mlr command line (expensive: one process per case)"""
    argv = [a if isinstance(a, bytes) else a.encode("latin1") for a in SEPARGS + verbargs]
    st, out, err = mlr_run(ctx, argv, enc(recs), timeout=120)
    if st == "hang":            # a loaded machine, not a hang, until a long timeout says otherwise
        st, out, err = mlr_run(ctx, argv, enc(recs), timeout=900)
    return st, (dec(out) if st == 0 else None), err


def hx(x):
    return (x if isinstance(x, bytes) else x.encode("latin1")).hex()


def verbrun(ctx, reqs, nproc=2):
    """reqs: list of (verbargs, recs); runs them inside `implrun verbrun` processes (the verb is constructed by its own
    ParseCLIFunc and fed the records); returns list of (status, records|None, err) with status 0 on success."""
    import subprocess
    if not reqs:
        return []
    main = [hx(w) for w in SEPARGS]
    lines = [json.dumps({"main": main, "args": [hx(a) for a in args], "recs": [[[hx(k), hx(v)] for k, v in r] for r in recs]})
             for args, recs in reqs]
    chunks = [lines[i::nproc] for i in range(nproc)]

    def go(chunk):
        if not chunk:
            return []
        rc, out, err = sh([ctx.implrun(), "verbrun"], inp="\n".join(chunk) + "\n", timeout=900)
        res = out.split("\n")[:len(chunk)]
        if len(res) != len(chunk) or rc != 0:
            res = (res + ['{"ok":false,"err":"implrun died rc=%s %s"}' % (rc, json.dumps(err[-200:])[1:-1])] * len(chunk))[:len(chunk)]
        return res
    with ThreadPoolExecutor(nproc) as ex:
        parts = list(ex.map(go, chunks))
    out = [None] * len(lines)
    for i, part in enumerate(parts):
        for j, l in enumerate(part):
            try:
                d = json.loads(l)
            except Exception:
                d = {"ok": False, "err": "unparseable response"}
            if d.get("ok"):
                out[i + j * nproc] = (0, [[(bytes.fromhex(k), bytes.fromhex(v)) for k, v in r] for r in (d.get("recs") or [])], b"")
            else:
                out[i + j * nproc] = ("panic" if d.get("panic") else 1, None, (d.get("panic") or d.get("err") or "").encode("utf-8", "replace"))
    return out


def run_mlr(ctx, verbargs, recs):
    return verbrun(ctx, [(verbargs, recs)], nproc=1)[0]


def violation_once(ctx, obj, found_input=True):
    """a witness class is reported once per run"""
    seen = ctx.__dict__.setdefault("_classes_reported", set())
    cls = obj.get("class")
    if cls is not None:
        if cls in seen:
            return False
        seen.add(cls)
    return ctx.violation(obj, found_input=found_input)


def eval_batched(ctx, name, imports, ty, terms, shard, maxpar=2):
    """coq_eval_mismatches starts one coqc per shard at once; keep at most maxpar of them alive (memory, machine load)"""
    bad, errs = [], ""
    maxpar = int(os.environ.get("VERIF_COQ_PAR", maxpar))
    step = shard * maxpar
    for off in range(0, len(terms), step):
        b, e = coq_eval_mismatches(ctx, name, imports, ty, "chk", terms[off:off + step], shard=shard)
        bad += [(i + off if i >= 0 else i) for i in b]
        errs += e
    return bad, errs


class Pending(Exception):
    pass


class Batch:
    """memoising front of verbrun: evaluate(fn, items) calls fn(item) for every item; fn asks self.get(args, recs);
    unknown requests are collected, run in one implrun batch, and fn is re-evaluated until everything is known"""

    def __init__(self, ctx):
        self.ctx, self.cache, self.pending = ctx, {}, []

    def get(self, args, recs):
        key = (tuple(args), repr(recs))
        if key not in self.cache:
            self.pending.append((key, list(args), recs))
            raise Pending()
        return self.cache[key]

    def evaluate(self, fn, items):
        for _ in range(6):
            self.pending, res = [], []
            for it in items:
                try:
                    res.append(fn(it))
                except Pending:
                    res.append(None)
            if not self.pending:
                return res
            uniq_reqs = list({k: (a, r) for k, a, r in self.pending}.items())
            outs = verbrun(self.ctx, [v for _, v in uniq_reqs])
            for (k, _), o in zip(uniq_reqs, outs):
                self.cache[k] = o
        raise RuntimeError("Batch.evaluate did not converge")


def gen_name(rng, meta_rate=0.2):
    return rng.choice(META) if rng.random() < meta_rate else rng.choice(PLAIN)


WIDE_RATE = 0.15
FAMILIES = [b"x_%d", b"y%d", b"k%d", b"ab%d", b"A%d", b"a.b_%d"]


def gen_wide_record(rng, meta_rate=0.2, families=None):
    """13-40 fields, most of them from a few numbered families (x_7, y12, ...) in shuffled order: several fields tie under every
    verb-internal ordering/grouping (same regex, same family), at sizes where an unstable sort or a hash order shows (> 12)"""
    n = rng.randint(13, 40)
    fams = families or rng.sample(FAMILIES, rng.randint(1, 3))
    names = set()
    while len(names) < n:
        names.add(gen_name(rng, meta_rate) if rng.random() < 0.15 else rng.choice(fams) % rng.randrange(0, 60))
    names = sorted(names)
    rng.shuffle(names)
    return [(k, rng.choice(VALUES)) for k in names]


def gen_record(rng, meta_rate=0.2, maxw=6):
    if rng.random() < WIDE_RATE:
        return gen_wide_record(rng, meta_rate)
    n = rng.choice([1, 1, 2, 3, 3, 4, 5, maxw, rng.randint(1, 12)])
    r, seen = [], set()
    for _ in range(n):
        k = gen_name(rng, meta_rate)
        if k in seen:
            continue
        seen.add(k)
        r.append((k, rng.choice(VALUES)))
    return r


def gen_stream(rng, meta_rate=0.2, homog=False):
    n = rng.choice([1, 1, 2, 3, 4, 6])
    if homog:
        base = gen_record(rng, meta_rate)
        return [[(k, rng.choice(VALUES)) for k, _ in base] for _ in range(n)]
    recs = []
    for _ in range(n):
        if recs and rng.random() < 0.35:
            b = list(rng.choice(recs))
            if rng.random() < 0.5:
                rng.shuffle(b)
            recs.append([(k, rng.choice(VALUES) if rng.random() < 0.6 else v) for k, v in b])
        else:
            recs.append(gen_record(rng, meta_rate))
    return recs


def gen_fields(rng, recs, lo=1, hi=4, meta_rate=0.2):
    """field list: present, absent, overlapping, repeated"""
    present = [k for r in recs for k, _ in r]
    out = []
    if 3 <= hi <= 6 and any(len(r) > 12 for r in recs) and rng.random() < 0.6:
        hi = rng.randint(13, 30)          # long lists on wide records: more than 12 named fields take part
    for _ in range(rng.randint(lo, hi)):
        x = rng.random()
        if x < 0.6 and present:
            out.append(rng.choice(present))
        elif x < 0.7 and out:
            out.append(rng.choice(out))
        else:
            out.append(gen_name(rng, meta_rate))
    return out


def csv(fs):
    return b",".join(fs).decode("latin1")


def arg(b):
    return b.decode("latin1")


# verb table: name -> (code, generator(rng) -> (verbargs, A, B, recs))
def mk_cases(ctx):
    rng = ctx.rng

    def fl(name, code, flagsbefore, lo=1, hi=4):
        def g():
            recs = gen_stream(rng)
            fs = gen_fields(rng, recs, lo, hi)
            return ([name] + flagsbefore + ["-f", csv(fs)], fs, [], recs)
        return (name + " " + " ".join(flagsbefore), code, g)

    def g_template():
        recs = gen_stream(rng)
        fs = gen_fields(rng, recs)
        if rng.random() < 0.5:
            fill = rng.choice([b"X", b"0", b"-"])
            return (["template", "-f", csv(fs), "--fill-with", arg(fill)], fs, [fill], recs)
        return (["template", "-f", csv(fs)], fs, [b""], recs)

    def g_rename():
        recs = gen_stream(rng)
        n = rng.choice([1, 1, 1, 2, 2, 3])
        fs = []
        for _ in range(n):
            fs += gen_fields(rng, recs, 1, 1) + gen_fields(rng, recs, 1, 1)
        return (["rename", csv(fs)], fs, [], recs)

    def g_label():
        recs = gen_stream(rng)
        fs = []
        for f in gen_fields(rng, recs, 1, 5):
            if f not in fs:
                fs.append(f)
        return (["label", csv(fs)], fs, [], recs)

    def g_plain(name, code, extra=()):
        def g():
            recs = gen_stream(rng, homog=rng.random() < 0.2)
            return ([name] + list(extra), [], [], recs)
        return (" ".join([name] + list(extra)), code, g)

    def g_unsparsify():
        recs = gen_stream(rng)
        if rng.random() < 0.5:
            fill = rng.choice([b"X", b"0", b"N/A"])
            return (["unsparsify", "--fill-with", arg(fill)], [], [fill], recs)
        return (["unsparsify"], [], [b""], recs)

    def g_unsparsify_f():
        recs = gen_stream(rng)
        fs = gen_fields(rng, recs)
        fill = rng.choice([b"", b"X"])
        return (["unsparsify", "--fill-with", arg(fill), "-f", csv(fs)], fs, [fill], recs)

    def g_sparsify():
        recs = gen_stream(rng)
        if rng.random() < 0.5:
            return (["sparsify"], [], [b""], recs)
        s = rng.choice([b"1", b"a", b"x;y", b"N/A"])
        return (["sparsify", "-s", arg(s)], [], [s], recs)

    def g_sparsify_f():
        recs = gen_stream(rng)
        fs = gen_fields(rng, recs)
        s = rng.choice([b"", b"", b"1", b"a"])
        return (["sparsify", "-s", arg(s), "-f", csv(fs)], fs, [s], recs)

    def g_fill_empty():
        recs = gen_stream(rng)
        x = rng.random()
        if x < 0.3:
            return (["fill-empty"], [], [b"N/A"], recs)
        v = rng.choice([b"X", b"0", b"0x10", b"1e3", b"-"])
        return (["fill-empty"] + (["-S"] if x < 0.6 else []) + ["-v", arg(v)], [], [v], recs)

    def nestf(recs, meta_rate):
        present = [k for r in recs for k, _ in r]
        if present and rng.random() < 0.8:
            return rng.choice(present)
        return gen_name(rng, meta_rate)

    def g_nest(mode, across, code, stem_only=False):
        def g():
            recs = gen_stream(rng, meta_rate=0.0 if stem_only else 0.2, homog=rng.random() < 0.3)
            f = nestf(recs, 0.0 if stem_only else 0.2)
            if stem_only and rng.random() < 0.7:
                f = rng.choice([b"x", b"a", b"x", b"x_1"])
            sep = rng.choice([b";", b";", b";", b":", b"|"])
            args = ["nest", mode, "--values", across, "-f", arg(f)]
            if sep != b";":
                args += ["--nested-fs", arg(sep)]
            return (args, [f], [sep], recs)
        return ("nest %s --values %s" % (mode, across), code, g)

    def g_nest_meta():
        """implode across fields with arbitrary field names: real F_<n> fields, look-alikes a regex reading of F would match"""
        f = rng.choice(META + PLAIN[:6])
        look = [f.replace(b".", b"x").replace(b"*", b"").replace(b"|", b"").replace(b"+", b"a") + b"_1", f + b"_", f + b"_1x", f + b"_x", b"z" + f + b"_2", f[:1] + b"_3"]
        recs = []
        for _ in range(rng.choice([1, 2, 3])):
            names = [f + b"_%d" % rng.choice([1, 2, 3, 10, 0, 7]) for _ in range(rng.randint(0, 3))] + rng.sample(look, rng.randint(0, 3))
            names += [gen_name(rng) for _ in range(rng.randint(0, 3))] + ([f] if rng.random() < 0.3 else [])
            rng.shuffle(names)
            r, seen = [], set()
            for k in names:
                if k not in seen and k:
                    seen.add(k)
                    r.append((k, rng.choice(VALUES)))
            if r:
                recs.append(r)
        recs = recs or [[(f + b"_1", b"v")]]
        return (["nest", "--implode", "--values", "--across-fields", "-f", arg(f)], [f], [b";"], recs)

    def g_l2w():
        recs = gen_stream(rng, homog=rng.random() < 0.5)
        present = [k for r in recs for k, _ in r] or [b"k"]
        kf = rng.choice(present) if rng.random() < 0.85 else gen_name(rng)
        vf = rng.choice(present) if rng.random() < 0.85 else gen_name(rng)
        return (["reshape", "-s", csv([kf, vf])], [kf, vf], [], recs)

    def g_w2l():
        recs = gen_stream(rng)
        fs = gen_fields(rng, recs)
        ko, vo = gen_name(rng), gen_name(rng)
        return (["reshape", "-i", csv(fs), "-o", csv([ko, vo])], fs, [ko, vo], recs)

    def g_fill_down():
        recs = gen_stream(rng, homog=rng.random() < 0.3)
        fs = gen_fields(rng, recs)
        a = rng.random() < 0.4
        return (["fill-down"] + ([rng.choice(["-a", "--only-if-absent"])] if a else []) + ["-f", csv(fs)], fs, [b"1" if a else b""], recs)

    def g_fill_down_all():
        recs = gen_stream(rng, homog=rng.random() < 0.5)
        a = rng.random() < 0.3
        return (["fill-down", "--all"] + (["-a"] if a else []), [], [b"1" if a else b""], recs)

    def g_ssub():
        # old texts that cannot occur in a number spelling, so that the verb's "strings only" rule never shows
        recs = gen_stream(rng)
        fs = gen_fields(rng, recs)
        old = rng.choice([b"y", b";", b":", b"q", b"a;", b";;", b" ", b"_", b"N/A"])
        new = rng.choice([b"", b"Z", b";", b"yy", old + old])
        al = rng.random() < 0.4
        return (["ssub"] + (["-a"] if al else ["-f", csv(fs)]) + [arg(old), arg(new)], fs, [old, new, b"1" if al else b""], recs)

    return [
        ("fill-down", 30, g_fill_down), ("fill-down --all", 31, g_fill_down_all), ("ssub", 32, g_ssub),
        fl("cut", 1, []), fl("cut", 2, ["-o"]), fl("cut", 3, ["-x"]),
        ("template", 4, g_template),
        fl("reorder", 5, []), fl("reorder", 6, ["-e"]),
        ("rename", 7, g_rename), ("label", 8, g_label),
        g_plain("regularize", 9), g_plain("sort-within-records", 10), g_plain("sort-within-records", 10, ["-r"]),
        ("unsparsify", 11, g_unsparsify), ("unsparsify -f", 12, g_unsparsify_f),
        ("sparsify", 13, g_sparsify), ("sparsify -f", 14, g_sparsify_f), ("fill-empty", 15, g_fill_empty),
        g_nest("--explode", "--across-records", 16), g_nest("--explode", "--across-fields", 17),
        g_nest("--implode", "--across-records", 18), g_nest("--implode", "--across-fields", 19, stem_only=True), ("nest --implode --values --across-fields (any name)", 19, g_nest_meta),
        ("reshape long-to-wide", 20, g_l2w), ("reshape wide-to-long", 21, g_w2l),
        g_plain("altkv", 22),
    ]


# ------------------------------------------------------------------ property oracles on the implementation's output
def restrict(r, excl):
    return [(k, v) for k, v in r if k not in excl]


def is_perm(a, b):
    return sorted(a) == sorted(b)


def uniq(r):
    ks = [k for k, _ in r]
    return len(ks) == len(set(ks))


def oracle(name, code, A, B, recs, out):
    """returns None or (class, message). Evaluates the property statement (bystanders untouched, permutation,
    rectangularity, ...) on what mlr printed -- independent of the Coq model."""
    perrec = code in (1, 2, 3, 4, 5, 6, 7, 8, 9, 10, 12, 13, 14, 15, 17, 19, 22)
    if perrec and len(out) != len(recs):
        return ("record-count", "per-record verb changed the number of records")
    S = set(A)
    for i, r in enumerate(recs if perrec else []):
        o = out[i]
        if code == 1 and o != [(k, v) for k, v in r if k in S]:
            return ("cut-f", "cut -f output is not the named fields in record order")
        if code == 2:
            want = []
            for f in A:
                d = dict(r)
                if f in d and f not in [k for k, _ in want]:
                    want.append((f, d[f]))
            if o != want:
                return ("cut-o", "cut -o -f output is not the named fields in argument order")
        if code == 3 and o != restrict(r, S):
            return ("cut-x", "cut -x -f does not leave exactly the other fields")
        if code == 4:
            if [k for k, _ in o] != list(dict.fromkeys(A)) or any(v != dict(r).get(k, B[0]) for k, v in o):
                return ("template", "template output is not the template names with record values / fill")
        if code in (5, 6):
            if not is_perm(o, r) or restrict(o, S) != restrict(r, S):
                return ("reorder", "reorder is not a permutation keeping the unnamed fields' relative order")
            d = dict(r)
            if code == 5:     # documented: reorder -f a,b puts a then b first
                named = [(f, d[f]) for f in dict.fromkeys(A) if f in d]
                if o != named + restrict(r, S):
                    return ("reorder-order", "reorder -f does not put the named fields first in argument order")
            else:             # documented: reorder -e -f a,b puts a then b last
                last = list(dict.fromkeys(reversed(A)))[::-1]
                named = [(f, d[f]) for f in last if f in d]
                if o != restrict(r, S) + named:
                    return ("reorder-order", "reorder -e -f does not put the named fields last in argument order")
        if code == 7:
            olds, news = set(A[0::2]), set(A[1::2])
            if restrict(o, olds | news) != restrict(r, olds | news):
                return ("rename-bystander", "rename changed a field it does not name")
            if all(a == b for a, b in zip(A[0::2], A[1::2])) and o != r:
                return ("rename-to-same-name-drops-field", "rename x,x is not the identity")
            if sorted(v for _, v in o) != sorted(v for _, v in r) and not (news & set(k for k, _ in r)) and len(olds) == len(A) // 2 and len(news) == len(A) // 2 and not (olds & news):
                return ("rename-values", "rename onto new names lost or changed a value")
        if code == 8:
            n = min(len(A), len(r))
            if o[:n] != [(A[j], r[j][1]) for j in range(n)] or o[n:] != [(k, v) for k, v in r[n:] if k not in set(A[:n])]:
                return ("label", "label did not rename the first n fields / keep the others")
        if code in (9, 10) and not is_perm(o, r):
            return ("permutation", "%s output record is not a permutation of the input record" % name)
        if code == 10 and [k for k, _ in o] != sorted(k for k, _ in o):
            return ("sort-within-records", "keys not in lexical order")
        if code == 12:
            if o[:len(r)] != r or [k for k, _ in o[len(r):]] != [f for f in dict.fromkeys(A) if f not in dict(r)] or any(v != B[0] for _, v in o[len(r):]):
                return ("unsparsify-f", "unsparsify -f did not append exactly the missing named fields")
        if code == 13 and o != [(k, v) for k, v in r if v != B[0]]:
            return ("sparsify", "sparsify did not remove exactly the filler-valued fields")
        if code == 14 and o != [(k, v) for k, v in r if not (k in S and v == B[0])]:
            return ("sparsify-f", "sparsify -f touched an unnamed field")
        if code == 15 and o != [(k, v if v != b"" else B[0]) for k, v in r]:
            return ("fill-empty", "fill-empty changed something other than empty values")
        if code == 17:
            f = A[0]
            if not uniq(o) and uniq(r):
                return ("nest-explode-fields-duplicate-name", "explode across fields produced two fields of the same name")
            if restrict(r, {f}) != [kv for kv in o if kv in restrict(r, {f})] and uniq(o):
                return ("nest-explode-fields", "a bystander field was changed")
        if code == 19:
            f = A[0]
            lit = lambda k: k.startswith(f + b"_") and len(k) > len(f) + 1 and k[len(f) + 1:].isdigit()
            if [kv for kv in o if not lit(kv[0]) and kv[0] != f] != [kv for kv in r if not lit(kv[0]) and kv[0] != f]:
                return ("nest-implode-fields-bystander", "implode across fields changed a field that is neither F_<digits> nor F")
            if any(lit(k) for k, _ in o):
                return ("nest-implode-fields-leftover", "a field named F_<digits> survived the implode")
            vs = [v for k, v in r if lit(k)]
            if vs and B[0].join(vs) not in [v for k, v in o if k == f]:
                return ("nest-implode-fields-value", "the imploded value is not the join of the F_<digits> values")
            if not uniq(o) and uniq(r):
                return ("nest-implode-fields-duplicate-name", "implode across fields produced two fields of the same name")
        if code == 22:
            want = {}
            vs = [v for _, v in r]
            for j in range(0, len(vs) - 1, 2):
                want[vs[j]] = vs[j + 1]
            if len(vs) % 2:
                want[str(len(vs) // 2 + 1).encode()] = vs[-1]
            if o != list(want.items()):
                return ("altkv", "altkv output is not the alternating pairs")
    if code == 9:
        seen = {}
        for r, o in zip(recs, out):
            ks = tuple(sorted(k for k, _ in r))
            seen.setdefault(ks, [k for k, _ in r])
            if [k for k, _ in o] != seen[ks]:
                return ("regularize", "regularize did not use the first-seen order of that key set")
    if code == 11:
        union = list(dict.fromkeys(k for r in recs for k, _ in r))
        if len(out) != len(recs):
            return ("record-count", "unsparsify changed the number of records")
        for r, o in zip(recs, out):
            if [k for k, _ in o] != union or any(v != dict(r).get(k, B[0]) for k, v in o):
                return ("unsparsify-rectangular", "unsparsify output is not rectangular over the union of keys in first-seen order")
    if code == 16:
        f, sep = A[0], B[0]
        want = []
        for r in recs:
            d = dict(r)
            if f not in d:
                want.append(r)
            else:
                want += [[(k, (p if k == f else v)) for k, v in r] for p in d[f].split(sep)]
        if out != want:
            return ("nest-explode-records", "explode across records is not one copy per piece")
    if code == 18:
        f, sep = A[0], B[0]
        have = [r for r in recs if f in dict(r)]
        sigs = [tuple(restrict(r, {f})) for r in have]
        got = [r for r in out if f in dict(r)]
        if len(got) != len(set(sigs)):
            return ("nest-implode-records", "implode across records: number of output records differs from the number of distinct other-field signatures")
        if sorted(p for r in got for p in dict(r)[f].split(sep)) != sorted(p for r in have for p in dict(r)[f].split(sep)):
            return ("nest-implode-records", "implode across records lost or invented a value")
    if code == 21:
        ins = list(dict.fromkeys(A))
        n = 0
        for r in recs:
            d = dict(r)
            hit = [f for f in ins if f in d]
            if not hit:
                if out[n:n + 1] != [r]:
                    return ("reshape-w2l", "record without input fields was changed")
                n += 1
                continue
            for f in hit:
                o = out[n] if n < len(out) else []
                if restrict(o, {B[0], B[1]}) != restrict(r, set(hit) | {B[0], B[1]}) or dict(o).get(B[1]) != d[f] or (B[0] != B[1] and dict(o).get(B[0]) != f):
                    return ("reshape-w2l", "wide-to-long row is not others + key + value")
                n += 1
        if n != len(out):
            return ("reshape-w2l", "wrong number of long rows")
    return None


INVERSES = ["rename", "nest", "reshape", "cut"]


def inverse_oracles(ctx):
    """inverse-pair and complement laws evaluated on the implementation alone"""
    rng = ctx.rng
    n = 60 if ctx.tier == "quick" else 600
    jobs = []
    for _ in range(n):
        recs = gen_stream(rng)
        present = [k for r in recs for k, _ in r]
        # rename a,b then b,a = id when b is new
        a = rng.choice(present)
        b = rng.choice([b"NEW", b"zz", b"a.new", b"N*"])
        if b not in present:
            jobs.append(("rename-inverse", ["rename", csv([a, b]), "then", "rename", csv([b, a])], recs, "id"))
        # cut complement
        fs = gen_fields(rng, recs)
        jobs.append(("cut-complement", fs, recs, "cut"))
        # nest explode/implode (values across records), one record at a time: always the identity
        r = rng.choice(recs)
        f = rng.choice([k for k, _ in r])
        jobs.append(("nest-explode-implode", ["nest", "--explode", "--values", "--across-records", "-f", arg(f), "then",
                                               "nest", "--implode", "--values", "--across-records", "-f", arg(f)], [r], "id"))
        jobs.append(("nest-evar-ivar", ["nest", "--evar", ";", "-f", arg(f), "then", "nest", "--ivar", ";", "-f", arg(f)], [r], "id"))
        # explode across fields then implode across fields (metacharacter-free stem, no clash with existing f_<n>)
        stem = [k for k, _ in r if not any(k2.startswith(k + b"_") for k2, _ in r)]
        if stem:
            f = rng.choice(stem)
            jobs.append(("nest-fields-explode-implode", ["nest", "--explode", "--values", "--across-fields", "-f", arg(f), "then",
                                                          "nest", "--implode", "--values", "--across-fields", "-f", arg(f)], [r], "id"))
        # reshape wide-to-long then long-to-wide: same fields (as a set), others first
        if len(r) >= 2 and b"KK" not in dict(r) and b"VV" not in dict(r):
            ins = rng.sample([k for k, _ in r], rng.randint(1, len(r) - 1))
            jobs.append(("reshape-w2l-l2w", ["reshape", "-i", csv(ins), "-o", "KK,VV", "then", "reshape", "-s", "KK,VV"], [r], ("w2l", ins)))
    bad = []

    def one(job):
        kind, args, recs, mode = job
        if mode == "cut":
            st1, o1, _ = B.get(["cut", "-f", csv(args)], recs)
            st2, o2, _ = B.get(["cut", "-x", "-f", csv(args)], recs)
            if st1 != 0 or st2 != 0:
                return (kind, args, recs, "mlr failed", None)
            for r, a, b in zip(recs, o1, o2):
                S = set(args)
                merged = []
                ia = ib = 0
                for k, v in r:          # interleave back by the record's own order
                    if k in S:
                        merged.append(a[ia] if ia < len(a) else None); ia += 1
                    else:
                        merged.append(b[ib] if ib < len(b) else None); ib += 1
                if merged != r or ia != len(a) or ib != len(b):
                    return (kind, args, recs, [o1, o2], "cut -f and cut -x -f are not complementary")
            return None
        st, o, err = B.get(args, recs)
        if st != 0:
            return (kind, args, recs, err.decode("latin1")[-300:], "mlr failed")
        if mode == "id":
            if o != recs:
                return (kind, args, recs, o, "composition with the inverse is not the identity")
        else:
            ins = mode[1]
            r = recs[0]
            want = restrict(r, set(ins)) + [(k, dict(r)[k]) for k in ins]
            if o != [want]:
                return (kind, args, recs, o, "wide-to-long then long-to-wide is not (others, then the reshaped fields)")
        return None
    B = Batch(ctx)
    res = B.evaluate(one, jobs)
    for j, r in zip(jobs, res):
        ctx.count(("inverse", j[0], repr(j[1]), repr(j[2])))
        ctx.dist("inverse:" + j[0])
        if r:
            bad.append(r)
    seen = set()
    for kind, args, recs, obs, msg in bad:
        if kind in seen:
            continue
        seen.add(kind)
        cls = "inverse-" + kind
        if msg == "mlr failed" and "cannot compile regex" in str(obs) and any(isinstance(a, str) and not a.isascii() for a in args):
            cls = "nest-non-utf8-field-name-rejected"
        violation_once(ctx, {"broken": "inverse/complement law " + kind, "args": repr(args), "input": repr(recs), "observed": repr(obs),
                             "expected": msg, "class": cls})


def cli_tie(ctx, meta):
    """the in-process driver (implrun verbrun) against the real command line, one case per verb variant:
    mlr <separator flags> <verb args> reading DKVP from stdin must print what the driver returned"""
    firsts = {}
    for j, out in meta:
        firsts.setdefault(j[0], (j, out))
        if j[5] and all(r for r in j[5]) and len(j[5]) >= 2:
            firsts[j[0]] = (j, out)
    items = list(firsts.values())
    with ThreadPoolExecutor(2) as ex:
        res = list(ex.map(lambda it: run_mlr_cli(ctx, it[0][2], it[0][5]), items))
    for (j, out), (st, o, err) in zip(items, res):
        ctx.count(("cli", j[0], repr(j[2]), repr(j[5])))
        ctx.dist("cli-tie")
        if st != 0 or o != out:
            ctx.violation({"broken": "command line and in-process driver disagree", "verb": j[0], "args": j[2], "input": repr(j[5]),
                           "observed_cli": repr(o) if st == 0 else err.decode("latin1")[-300:], "observed_driver": repr(out)}, found_input=False)
            return


def defect_probes(ctx):
    """fixed witnesses: the three known-finding classes (KNOWN_FINDINGS.txt) and regression probes for the two defects repaired
    in /repo (rename x,x: bdf02f36c; nest pattern quoting: 331a3d347), which are plain violations if they come back"""
    probes = [
        ("rename-to-same-name-drops-field", ["rename", "a,a"], [[(b"a", b"1"), (b"b", b"2")]], [[(b"a", b"1"), (b"b", b"2")]]),
        ("nest-explode-fields-duplicate-name", ["nest", "--explode", "--values", "--across-fields", "-f", "x"],
         [[(b"x", b"a;b"), (b"x_1", b"z")]], None),
        ("nest-implode-fields-duplicate-name", ["nest", "--implode", "--values", "--across-fields", "-f", "x"],
         [[(b"z", b"0"), (b"x", b"3"), (b"x_1", b"a"), (b"x_2", b"b")]], None),
        ("nest-field-name-used-as-regex", ["nest", "--implode", "--values", "--across-fields", "-f", "a.b"],
         [[(b"axb_1", b"p"), (b"z", b"3")]], [[(b"axb_1", b"p"), (b"z", b"3")]]),
        ("nest-field-name-used-as-regex", ["nest", "--implode", "--values", "--across-fields", "-f", "a*"],
         [[(b"a*_1", b"p"), (b"a*_2", b"q")]], [[(b"a*", b"p;q")]]),
        ("grouping-key-comma-collision", ["nest", "--implode", "--values", "--across-records", "-f", "x"],
         [[(b"x", b"1"), (b"a", b"p,q"), (b"b", b"r")], [(b"x", b"2"), (b"a", b"p"), (b"b", b"q,r")]],
         [[(b"x", b"1"), (b"a", b"p,q"), (b"b", b"r")], [(b"x", b"2"), (b"a", b"p"), (b"b", b"q,r")]]),
        ("grouping-key-comma-collision", ["reshape", "-s", "k,v"],
         [[(b"a", b"p,q"), (b"b", b"r"), (b"k", b"x"), (b"v", b"1")], [(b"a", b"p"), (b"b", b"q,r"), (b"k", b"y"), (b"v", b"2")]],
         [[(b"a", b"p,q"), (b"b", b"r"), (b"x", b"1")], [(b"a", b"p"), (b"b", b"q,r"), (b"y", b"2")]]),
    ]
    outs = verbrun(ctx, [(args, recs) for _, args, recs, _ in probes], nproc=1)
    for (cls, args, recs, want), (st, o, err) in zip(probes, outs):
        ctx.count(("probe", cls, repr(args)))
        ctx.dist("defect-probe")
        failed = (st != 0) or (want is not None and o != want) or (want is None and any(not uniq(r) for r in o))
        if failed:
            violation_once(ctx, {"class": cls, "args": args, "input": repr(recs), "observed": repr(o) if st == 0 else err.decode("latin1")[-300:],
                           "expected": repr(want) if want is not None else "a record with pairwise distinct field names"})


def sec2gmt_identity(ctx):
    """sec2gmt on non-numeric values leaves the record alone; other fields never change"""
    rng = ctx.rng
    cases = []
    for _ in range(30 if ctx.tier == "quick" else 300):
        recs = [[(k, v) for k, v in r] for r in gen_stream(rng)]
        cases.append((gen_fields(rng, recs), recs))
    outs = verbrun(ctx, [(["sec2gmt", csv(fs)], recs) for fs, recs in cases], nproc=2)
    for (fs, recs), (st, o, err) in zip(cases, outs):
        ctx.count(("sec2gmt", repr(fs), repr(recs)))
        ctx.dist("sec2gmt")
        numeric = lambda v: v[:1].isdigit() or v[:1] in (b"-", b"+", b".")
        want_same = lambda k, v: k not in set(fs) or not numeric(v)
        ok = st == 0 and len(o) == len(recs) and all(
            [k for k, _ in a] == [k for k, _ in b] and all(va == vb for (k, va), (_, vb) in zip(a, b) if want_same(k, va)) for a, b in zip(recs, o))
        if not ok:
            ctx.violation({"broken": "sec2gmt bystanders", "args": ["sec2gmt", csv(fs)], "input": repr(recs), "observed": repr(o), "class": "sec2gmt-bystander"})
            return


# ------------------------------------------------------------------ regex forms of cut and rename (correspondence only)
ASCII_NAMES = [n for n in PLAIN + META if all(c < 128 for c in n) and b"\\" not in n]
RE_META = set(b".*+?()[]{}|^$\\")


class RX:
    """tiny regex AST with three renderings: Go/Miller text, Coq term (C12/Regex.v), nullability"""

    def __init__(self, kind, *a):
        self.kind, self.a = kind, a

    def text(self):
        k, a = self.kind, self.a
        if k == "chr":
            c = a[0]
            return ("\\" + chr(c)) if c in RE_META else chr(c)
        if k == "any":
            return "."
        if k == "cls":
            neg, rs = a
            return "[" + ("^" if neg else "") + "".join(chr(x) if x == y else "%c-%c" % (x, y) for x, y in rs) + "]"
        if k == "seq":
            return "".join(x.text() for x in a[0])
        if k == "alt":
            return "(?:" + a[0].text() + "|" + a[1].text() + ")"
        if k == "star":
            return RX.wrap(a[0]) + "*"
        if k == "plus":
            return RX.wrap(a[0]) + "+"
        if k == "opt":
            return RX.wrap(a[0]) + "?"
        if k == "bol":
            return "^"
        if k == "eol":
            return "$"
        if k == "grp":
            return "(" + a[1].text() + ")"
        if k == "eps":
            return ""

    @staticmethod
    def wrap(x):
        return x.text() if x.kind in ("chr", "any", "cls", "grp") else "(?:" + x.text() + ")"

    def coq(self):
        k, a = self.kind, self.a
        ch = lambda c: "(ascii_of_N %d)" % c
        if k == "chr":
            return "(Chr %s)" % ch(a[0])
        if k == "any":
            return "Any"
        if k == "cls":
            return "(Cls %s [%s])" % (coq_bool(a[0]), "; ".join("(%s, %s)" % (ch(x), ch(y)) for x, y in a[1]))
        if k == "seq":
            t = "Eps"
            for x in reversed(a[0]):
                t = "(Seq %s %s)" % (x.coq(), t)
            return t
        if k == "alt":
            return "(Alt %s %s)" % (a[0].coq(), a[1].coq())
        if k == "star":
            return "(Star %s)" % a[0].coq()
        if k == "plus":
            return "(Seq %s (Star %s))" % (a[0].coq(), a[0].coq())
        if k == "opt":
            return "(Alt %s Eps)" % a[0].coq()
        if k == "bol":
            return "Bol"
        if k == "eol":
            return "Eol"
        if k == "grp":
            return "(Grp %d %s)" % (a[0], a[1].coq())
        return "Eps"

    def nullable(self):
        k, a = self.kind, self.a
        if k in ("chr", "any", "cls"):
            return False
        if k == "seq":
            return all(x.nullable() for x in a[0])
        if k == "alt":
            return a[0].nullable() or a[1].nullable()
        if k in ("star", "opt", "bol", "eol", "eps"):
            return True
        if k == "plus":
            return a[0].nullable()
        if k == "grp":
            return a[1].nullable()


def gen_regex(rng, names, want_group=False):
    letters = sorted(set(c for n in names for c in n if c != 0x2c)) or [0x61]

    def atom():
        x = rng.random()
        if x < 0.6:
            return RX("chr", rng.choice(letters))
        if x < 0.75:
            return RX("any")
        return RX("cls", rng.random() < 0.25, rng.choice([[(0x61, 0x63)], [(0x30, 0x39)], [(0x78, 0x79), (0x5f, 0x5f)], [(0x61, 0x61)], [(0x41, 0x5a)]]))

    def piece():
        a = atom()
        x = rng.random()
        if x < 0.65:
            return a
        return RX(rng.choice(["star", "plus", "opt"]), a)

    def seq():
        return RX("seq", [piece() for _ in range(rng.randint(1, 3))])
    if rng.random() < 0.35 and names:            # a literal piece of an existing name: matches are frequent
        n = rng.choice(names)
        i = rng.randrange(len(n)); j = rng.randint(i + 1, len(n))
        body = RX("seq", [RX("chr", c) for c in n[i:j] if c != 0x2c] or [RX("any")])
    else:
        body = seq()
    if rng.random() < 0.25:
        body = RX("alt", body, seq())
    grouped = False
    if want_group or rng.random() < 0.2:
        body = RX("grp", 1, body)
        grouped = True
        if rng.random() < 0.5:
            body = RX("seq", [body, piece()])
    parts = ([RX("bol")] if rng.random() < 0.3 else []) + [body] + ([RX("eol")] if rng.random() < 0.3 else [])
    return RX("seq", parts), grouped


def cut_r_oracle(specs, comp, argo, recs, out):
    """cut -r only selects (and with -o groups by the regex position): the chosen fields keep name and value, fields selected by the
    same regex keep their record order.  Python's re on the same pattern text (the generated subset reads the same)."""
    import re
    pats = [re.compile(rx.text().encode("latin1"), re.I if ci else 0) for ci, rx, _ in specs]
    if len(out) != len(recs):
        return ("cut-r-count", "cut -r changed the number of records")
    for r, o in zip(recs, out):
        idx = lambda k: next((i for i, p in enumerate(pats) if p.search(k)), None)
        kept = [(kv, idx(kv[0])) for kv in r if (idx(kv[0]) is not None) != comp]
        if argo and not comp:
            want = [kv for i in range(len(pats)) for kv, j in kept if j == i]
        else:
            want = [kv for kv, _ in kept]
        if o != want:
            if sorted(o) == sorted(want):
                return ("cut-r-field-order", "cut -r%s kept the right fields but not in record order within a regex group" % (" -o" if argo else ""))
            return ("cut-r-selection", "cut -r did not select exactly the fields matching the regexes")
    return None


def regex_cases(ctx):
    """cut -r [-x] [-o] and rename -r / -g against coq/C12/Regex.v"""
    rng = ctx.rng
    n = 200 if ctx.tier == "quick" else 2000
    jobs = []
    for i in range(n):
        recs = []
        wide = rng.random() < 0.4
        for _ in range(rng.choice([1, 2, 3])):
            if wide:
                recs.append(gen_wide_record(rng, 0.0, families=rng.sample(FAMILIES[:5], rng.randint(2, 3))))
                recs[-1] = [(k, v) for k, v in recs[-1] if all(c < 128 for c in k) and b"\\" not in k]
            else:
                ks = rng.sample(ASCII_NAMES, rng.randint(1, 6))
                recs.append([(k, rng.choice(VALUES)) for k in ks])
        names = [k for r in recs for k, _ in r]
        if i % 2 == 0:
            specs = []
            for _ in range(rng.randint(1, 3)):
                if wide and rng.random() < 0.7:      # a regex that many fields of one family match: ties under -o
                    stem = rng.choice(names).rstrip(b"0123456789")[:rng.randint(1, 2)] or b"x"
                    rx = RX("seq", ([RX("bol")] if rng.random() < 0.6 else []) + [RX("chr", c) for c in stem]) if rng.random() < 0.7 else \
                        RX("seq", [RX("cls", False, [(0x30 + rng.randrange(10), 0x39)]), RX("eol")])
                else:
                    rx, _g = gen_regex(rng, names)
                specs.append((rng.random() < 0.2, rx, []))
            comp, argo = rng.random() < 0.35, rng.random() < (0.7 if wide else 0.35)
            words = ['"%s"%s' % (rx.text(), "i") if ci else rx.text() for ci, rx, _ in specs]
            args = ["cut", "-r"] + (["-x"] if comp else []) + (["-o"] if argo else []) + ["-f", ",".join(words)]
            jobs.append((1, specs, (comp, argo), args, recs))
        else:
            gsub = rng.random() < 0.35
            specs, words = [], []
            for _ in range(rng.randint(1, 2)):
                for _try in range(20):
                    rx, grouped = gen_regex(rng, names, want_group=(not gsub and rng.random() < 0.4))
                    if not rx.nullable():
                        break
                else:
                    rx, grouped = RX("seq", [RX("chr", 0x61)]), False
                lit = rng.choice([b"X", b"NEW", b"a", b"", b"_", b"x_1"])
                rep = [("l", lit)]
                if not gsub and rng.random() < 0.5:
                    rep = rng.choice([[("l", lit), ("c", 1 if grouped else 0)], [("c", 1 if grouped else 0), ("l", lit)], [("c", 0), ("l", b"_"), ("c", 1 if grouped else 0)]])
                ci = rng.random() < 0.2
                specs.append((ci, rx, rep))
                words += ['"%s"%s' % (rx.text(), "i") if ci else rx.text(), "".join(p[1].decode() if p[0] == "l" else "\\%d" % p[1] for p in rep)]
            args = ["rename", "-g" if gsub else "-r", ",".join(words)]
            jobs.append((2, specs, (gsub, False), args, recs))
    outs = verbrun(ctx, [(j[3], j[4]) for j in jobs])
    terms, meta, flagged_r = [], [], set()
    for j, (st, out, err) in zip(jobs, outs):
        code, specs, fl, args, recs = j
        ctx.dist("regex:" + args[0] + " " + args[1] + (" (wide records)" if any(len(r) > 12 for r in recs) else ""))
        ctx.count(("regex", repr(args), repr(recs)))
        if st != 0:
            violation_once(ctx, {"broken": "regex form: verb failed", "args": args, "input": repr(recs), "observed": err.decode("latin1")[-300:], "class": "regex-mlr-failed"})
            continue
        if code == 1:
            o = cut_r_oracle(specs, fl[0], fl[1], recs, out)
            if o:
                flagged_r.add(id(j))
                violation_once(ctx, {"broken": "property oracle: " + o[1], "args": args, "input": repr(recs), "observed": repr(out), "expected": o[1], "class": o[0]})
        if code == 1 and 0 < sum(len(r) for r in out) < sum(len(r) for r in recs):
            ctx.dist("regex:cut selects a proper subset")
        if code == 2 and out != recs:
            ctx.dist("regex:rename changed a name")
        sp = coq_list(["(%s, %s, %s)" % (coq_bool(ci), rx.coq(), coq_list(["(inl %s)" % coq_bytes(p[1]) if p[0] == "l" else "(inr %d%%nat)" % p[1] for p in rep]))
                       for ci, rx, rep in specs])
        terms.append(f"({code}, {sp}, ({coq_bool(fl[0])}, {coq_bool(fl[1])}), {coq_records(recs)}, {coq_records(out)})")
        meta.append((j, out))
    bad, err = coq_eval_mismatches(ctx, "C12r", "Base.Record C12.Model C12.Regex",
                                   "Z * list (bool * re * list piece) * (bool * bool) * list record * list record", "chk_r", terms, shard=max(1, len(terms) // 2 + 1))
    ctx.cov["correspondence_regex"] = {"cases": len(terms), "mismatches": len(bad)}
    if err:
        ctx.violation({"broken": "correspondence-evaluation (regex)", "detail": err[-2000:]}, found_input=False)
        return
    for i in [i for i in bad if id(meta[i][0]) not in flagged_r][:3]:
        j, out = meta[i]
        ctx.violation({"broken": "correspondence C12.Regex.chk_r (regex model and implementation differ)", "args": j[3], "input": repr(j[4]), "observed": repr(out)},
                      found_input=False)


def saver_bystanders(ctx):
    """case / sub / gsub / ssub -f F and unspace: fields they do not name (resp. that contain no space) keep name, value
    and position; values-only forms keep every name; ssub/case/unspace are compared with a first-principles result"""
    rng = ctx.rng
    cases = []
    for _ in range(40 if ctx.tier == "quick" else 400):
        recs = gen_stream(rng)
        fs = gen_fields(rng, recs)
        kind = rng.choice(["case-v", "case-k", "sub", "gsub", "ssub", "unspace", "unspace-v"])
        if kind == "case-v":
            args = ["case", "-u", "-v", "-f", csv(fs)]
        elif kind == "case-k":
            args = ["case", "-u", "-k", "-f", csv(fs)]
        elif kind in ("sub", "gsub", "ssub"):
            args = [kind, "-f", csv(fs), rng.choice(["a", "x", ";", "1"]), rng.choice(["Z", "", "yy"])]
        elif kind == "unspace":
            args = ["unspace"]
        else:
            args = ["unspace", "-v"]
        cases.append((kind, args, fs, recs))
    outs = verbrun(ctx, [(c[1], c[3]) for c in cases], nproc=2)
    up = lambda b: b.decode("latin1").upper().encode("latin1") if all(c < 128 for c in b) else None
    for (kind, args, fs, recs), (st, o, err) in zip(cases, outs):
        ctx.count(("saver", kind, repr(args), repr(recs)))
        ctx.dist("saver:" + kind)
        bad = None
        if st != 0 or len(o) != len(recs):
            bad = "verb failed or changed the record count"
        else:
            S = set(fs)
            for r, q in zip(recs, o):
                if kind in ("case-v", "sub", "gsub", "ssub"):
                    if [k for k, _ in q] != [k for k, _ in r] or any(v != w for (k, v), (_, w) in zip(r, q) if k not in S):
                        bad = "a field outside -f changed, or a name changed"
                    if kind == "ssub" and not bad:
                        old, new = args[-2].encode(), args[-1].encode()
                        num = lambda v: v[:1].isdigit() or v[:1] in (b"-", b"+", b".")   # numbers are not strings: left alone
                        if any(not num(v) and w != v.replace(old, new, 1) for (k, v), (_, w) in zip(r, q) if k in S):
                            bad = "ssub is not the replacement of the first occurrence"
                    if kind == "case-v" and not bad:
                        numeric = lambda v: v[:1].isdigit() or v[:1] in (b"-", b"+", b".")   # case leaves numbers alone
                        if any(up(v) is not None and not numeric(v) and w != up(v) for (k, v), (_, w) in zip(r, q) if k in S):
                            bad = "case -u -v is not the uppercased value"
                elif kind == "case-k":
                    if [v for _, v in q] != [v for _, v in r] and len(q) == len(r):
                        bad = "case -k changed a value"
                    if len(q) == len(r) and any(k != k2 for (k, _), (k2, _) in zip(r, q) if k not in S):
                        bad = "case -k -f renamed a field outside -f"
                else:
                    want = [((k.replace(b" ", b"_") if kind == "unspace" else k), v.replace(b" ", b"_")) for k, v in r]
                    wk = [k for k, _ in want]
                    if len(set(wk)) == len(wk) and q != want:
                        bad = "unspace is not the replacement of spaces by _"
                if bad:
                    break
        if bad:
            violation_once(ctx, {"broken": "keystroke-saver verb: " + bad, "args": args, "input": repr(recs),
                                 "observed": repr(o) if st == 0 else err.decode("latin1")[-300:], "expected": bad, "class": "saver-" + kind})


def run(ctx):
    ctx.cov["rule"] = ("streams of 1-6 records (heterogeneous, re-ordered copies, 1-12 fields) over a name pool with plain, duplicate-looking (x_1, x_10, a/A/ab), "
                       "regex-metacharacter and non-UTF-8 names and a value pool with empties, separators, numerals; field lists present/absent/overlapping/repeated; "
                       "every modelled verb x its options; compared: the whole output stream (keys, value bytes, order) of mlr against the Coq model under vm_compute; "
                       "plus property oracles (bystanders, permutation, rectangularity, complements, inverse pairs) evaluated on mlr's output alone")
    ctx.cov["trusted_base"] = ["Coq 8.16.1 kernel + vm_compute", "no axioms (Print Assumptions: closed under the global context)",
                               "python harness; DKVP reader/writer of mlr with separators 0x1f/0x1e used as the transport of records"]
    ctx.assumptions = ["regex forms (-r), flatten/unflatten, json-stringify/json-parse, case, unspace, sub/gsub/ssub, sec2gmt on numbers are not modelled in Coq",
                       "multi-byte --nested-fs is not modelled", "input records have pairwise distinct keys (reader invariant)"]
    forbidden_gate(ctx, ["Base", "C12"])
    ok, why = check_props(ctx, "C12/Props.v", ["C12/Harness.vo", "C12/Proofs.vo", "C12/ProofsStream.vo", "C12/Regex.vo", "C12/RegexLaws.vo", "C12/Model2.vo", "C12/ProofsFields.vo"])
    verbs = mk_cases(ctx)
    per = 100 if ctx.tier == "quick" else 400
    jobs = []
    for name, code, g in verbs:
        for _ in range(per):
            args, A, B, recs = g()
            jobs.append((name, code, args, A, B, recs))
    with ctx.timed("impl"):
        res = verbrun(ctx, [(j[2], j[5]) for j in jobs])
    terms, meta, oracle_bad = [], [], []
    for j, (st, out, err) in zip(jobs, res):
        name, code, args, A, B, recs = j
        ctx.dist(name)
        ctx.count((code, repr(A), repr(B), repr(recs)))
        if st != 0:
            msg = err.decode("latin1")[-300:]
            cls = "mlr-failed"
            if code in (16, 17, 18, 19) and "cannot compile regex" in msg:
                try:
                    A[0].decode("utf-8")
                except UnicodeDecodeError:
                    cls = "nest-non-utf8-field-name-rejected"
            oracle_bad.append((j, None, (cls, "verb failed: " + msg)))
            continue
        o = oracle(name, code, A, B, recs, out)
        if o:
            oracle_bad.append((j, out, o))
        terms.append(f"({code}, {coq_list([coq_bytes(x) for x in A])}, {coq_list([coq_bytes(x) for x in B])}, {coq_records(recs)}, {coq_records(out)})")
        meta.append((j, out))
    for i in (0, len(meta) // 3, len(meta) // 2, len(meta) - 1):
        j, out = meta[i]
        ctx.sample({"verb": j[0], "args": j[2], "input": repr(j[5]), "observed": repr(out)})

    def report_oracle(limit=6):
        seen = set()
        for j, out, (cls, msg) in oracle_bad:
            if cls in seen:
                continue
            seen.add(cls)
            violation_once(ctx, {"broken": "property oracle: " + msg, "verb": j[0], "args": j[2], "input": repr(j[5]), "input_dkvp_hex": enc(j[5]).hex(),
                           "code": j[1], "A": repr(j[3]), "B": repr(j[4]),
                           "observed": repr(out), "expected": msg, "class": cls})
            if len(seen) >= limit:
                break
    if not ok:
        if oracle_bad:
            report_oracle()
        else:
            ctx.violation({"broken": why}, found_input=False)
        return
    with ctx.timed("coq_cases"):
        bad, err = eval_batched(ctx, "C12", "Base.Record C12.Model C12.Harness", "Z * list bytes * list bytes * list record * list record", terms, shard=400)
    ctx.cov["correspondence"] = {"cases": len(terms), "mismatches": len(bad)}
    if err:
        ctx.violation({"broken": "correspondence-evaluation", "detail": err[-2000:]}, found_input=False)
        return
    report_oracle()
    flagged = set(id(j) for j, _, _ in oracle_bad)
    rep = 0
    for i in bad:
        j, out = meta[i]
        if id(j) in flagged:
            continue      # already reported with its input by the oracle
        ctx.violation({"broken": "correspondence C12.Harness.chk (model and implementation differ; the property oracle accepts the implementation's output)",
                       "verb": j[0], "args": j[2], "input": repr(j[5]), "observed": repr(out)}, found_input=False)
        rep += 1
        if rep >= 3:
            break
    with ctx.timed("cli_tie"):
        cli_tie(ctx, meta)
    with ctx.timed("oracles"):
        inverse_oracles(ctx)
        sec2gmt_identity(ctx)
        saver_bystanders(ctx)
        defect_probes(ctx)
    with ctx.timed("regex_forms"):
        regex_cases(ctx)


def replay(ctx, path):
    import ast
    obj = json.loads(Path(path).read_text())
    recs = ast.literal_eval(obj["input"])
    args = obj["args"] if isinstance(obj["args"], list) else ast.literal_eval(obj["args"])
    st, out, err = run_mlr(ctx, args, recs)
    print("replay: args=%r input=%r observed=%r status=%r" % (args, recs, out, st))
    ctx.count(("replay", repr(args), repr(recs)))
    still = False
    if st != 0:
        still = True                       # the verb refuses / crashes on this input
    elif "code" in obj:
        still = oracle(obj.get("verb", ""), obj["code"], ast.literal_eval(obj["A"]), ast.literal_eval(obj["B"]), recs, out) is not None
    elif "then" in args:                   # inverse-pair laws: the composition must be the identity
        still = out != recs and not str(obj.get("broken", "")).endswith("reshape-w2l-l2w")
    elif str(obj.get("expected", "")).startswith("[["):
        still = repr(out) != obj["expected"]
    else:
        still = any(not uniq(r) for r in out)
    if still:
        ctx.violation(dict(obj, replayed=True, observed=repr(out) if st == 0 else err.decode("latin1")[-300:]))
