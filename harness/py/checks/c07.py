"""C07 — arithmetic is exact on 64-bit ints, overflows to float, never crashes (DESIGN 3/C07)."""
import json, math, struct
from vlib import *

MIN, MAX = -2 ** 63, 2 ** 63 - 1
T1024 = 9223372036854774784          # 2^63 - 1024, the threshold of times_n_ii
NANBITS = 0x7ff8000000000001

BIN = ["+", "-", "*", "/", "//", "%", "**", ".+", ".-", ".*", "./", "&", "|", "^", "<<", ">>", ">>>", "roundm", "min", "max"]
UN = ["neg", "pos", "~", "bitcount", "abs", "ceil", "floor", "round", "sgn"]
TERN = ["madd", "msub", "mmul", "mexp"]
OPC = {n: i for i, n in enumerate(BIN)}
OPC.update({n: 100 + i for i, n in enumerate(UN)})
OPC.update({n: 200 + i for i, n in enumerate(TERN)})
INT_ONLY = {"&", "|", "^", "<<", ">>", ">>>", "~", "bitcount"}


def in64(n):
    return MIN <= n <= MAX


def wrap(n):
    return (n + 2 ** 63) % 2 ** 64 - 2 ** 63


def fbits(x):
    b = struct.unpack(">Q", struct.pack(">d", x))[0]
    return NANBITS if (b >> 52) & 0x7ff == 0x7ff and b & (2 ** 52 - 1) else b


def bits2f(b):
    return struct.unpack(">d", struct.pack(">Q", b))[0]


def canon(b):
    return NANBITS if (b >> 52) & 0x7ff == 0x7ff and b & (2 ** 52 - 1) else b


def fl(n):
    """float64(int64 n), correctly rounded (CPython's int->float is round-half-even)"""
    return float(n)


def fdiv(x, y):
    try:
        return x / y
    except ZeroDivisionError:
        if x != x or x == 0:
            return math.nan
        neg = (math.copysign(1, x) < 0) != (math.copysign(1, y) < 0)
        return -math.inf if neg else math.inf


def fmul(x, y):
    return x * y


# ------------------------------------------------------------------ argument helpers
def I(n):
    return ("i", n)


def F(bits):
    return ("f", bits)


def arg_txt(a):
    return "i%d" % a[1] if a[0] == "i" else "f%016x" % a[1]


def arg_coq(a):
    return "(0, %s)" % coq_z(a[1]) if a[0] == "i" else "(1, %d)" % a[1]


def arg_show(a):
    return a[1] if a[0] == "i" else "float:%r(bits %016x)" % (bits2f(a[1]), a[1])


def impl_bif(ctx, cases):
    """cases: list of (opname, [args]); returns list of observations ("int", n) | ("float", canonical bits) | ("error",) | ("panic", msg) | (other,)"""
    inp = "\n".join(op + " " + " ".join(arg_txt(a) for a in args) for op, args in cases) + "\n"
    rc, out, err = sh([ctx.implrun(), "bif"], inp=inp, timeout=900)
    lines = out.split("\n")[:len(cases)]
    if rc != 0 or len(lines) != len(cases):
        raise RuntimeError(f"implrun bif failed rc={rc} lines={len(lines)}/{len(cases)}: {err[-800:]}")
    res = []
    for l in lines:
        p = l.split(None, 1)
        if p[0] == "int":
            res.append(("int", int(p[1])))
        elif p[0] == "float":
            res.append(("float", canon(int(p[1], 16))))
        elif p[0] == "PANIC":
            res.append(("panic", p[1] if len(p) > 1 else ""))
        else:
            res.append((p[0],))
    return res


# ------------------------------------------------------------------ the property, evaluated on the implementation's outputs
# returns None when the observation satisfies the property statement, else (witness class, expected description)
def isfloatbits(obs, x):
    return obs == ("float", fbits(x))


def oracle0(op, args, obs):
    if obs[0] == "panic":
        return ("panic-other", "a number or an error value")
    if obs[0] not in ("int", "float", "error"):
        return ("unexpected-kind", "int, float or error")
    kinds = "".join(a[0] for a in args)
    if op in INT_ONLY and "f" in kinds:
        return None if obs[0] == "error" else ("bit-operator-accepts-float", "error")
    if "f" in kinds:
        if op in TERN:
            return None if obs[0] == "error" else ("mod-op-accepts-float", "error")
        if obs[0] != "float" and op not in ("min", "max"):
            return ("mixed-operation-not-float", "float")
        if len(args) == 2 and op in ("+", "-", "*", "/", ".+", ".-", ".*", "./"):
            x = fl(args[0][1]) if args[0][0] == "i" else bits2f(args[0][1])
            y = fl(args[1][1]) if args[1][0] == "i" else bits2f(args[1][1])
            want = {"+": x + y, "-": x - y, "*": x * y, "/": fdiv(x, y)}[op[-1]]
            return None if isfloatbits(obs, want) else ("mixed-operation-not-ieee", "float %r" % want)
        return None                      # other mixed operations: tied by the Coq correspondence
    v = [a[1] for a in args]
    a = v[0]
    b = v[1] if len(v) > 1 else None

    def want_int(n, cls="other"):
        return None if obs == ("int", n) else (cls, "int %d" % n)

    def want_float(x, cls="other"):
        return None if isfloatbits(obs, x) else (cls, "float %r" % x)

    if op == "+":
        r = a + b
        if in64(r):
            return want_int(r)
        return want_float(fl(a) + fl(b))
    if op == "-":
        r = a - b
        if in64(r):
            return want_int(r)
        return want_float(fl(a) - fl(b))
    if op == "*":
        r = a * b
        c = fl(a) * fl(b)
        if in64(r):          # exact whenever it fits (repaired: the former float-magnitude threshold 2^63 - 1024 is gone)
            return want_int(r, "other")
        return want_float(c)              # never a wrapped integer
    if op in ("/", "//", "%") and b == 0:
        return None if obs[0] in ("float", "error") else ("zero-divisor-not-float-or-error", "float or error")
    if op == "/":
        if a % b == 0:
            q = a // b
            if in64(q):
                return want_int(q)
            return want_float(fdiv(fl(a), fl(b)))         # -2^63 / -1: the float 2^63
        return want_float(fdiv(fl(a), fl(b)))
    if op == "//":
        q = a // b
        if in64(q):
            return want_int(q)
        return want_float(-fl(a))                          # -2^63 // -1: the float 2^63
    if op == "%":
        m = a % b
        return want_int(m)
    if op == "**":
        # exact integer power when it fits, a float otherwise (repaired by the int_power fix: commit)
        if b >= 0:
            if abs(a) <= 1 or b < 64:
                r = a ** b
                if in64(r):
                    return want_int(r)
            return None if obs[0] == "float" else ("other", "float (a ** b does not fit in 64 bits)")     # value: Coq model (port of math.Pow)
        if a in (1, -1):
            return want_int(a if b % 2 else 1)                 # the only int bases with an int reciprocal
        return None if obs[0] == "float" else ("other", "float (negative exponent)")
    if op == ".+":
        return want_int(wrap(a + b))
    if op == ".-":
        return want_int(wrap(a - b))
    if op == ".*":
        return want_int(wrap(a * b))
    if op == "./":
        if b == 0:
            return None if obs[0] in ("float", "error") else ("zero-divisor-not-float-or-error", "float or error")
        q = abs(a) // abs(b)
        return want_int(wrap(q if (a < 0) == (b < 0) else -q))
    if op == "&":
        return want_int(a & b)
    if op == "|":
        return want_int(a | b)
    if op == "^":
        return want_int(a ^ b)
    if op == "<<":
        return want_int(wrap(a << b) if 0 <= b < 64 else 0)
    if op == ">>":
        return want_int(a >> b if 0 <= b < 64 else (-1 if a < 0 else 0))
    if op == ">>>":
        return want_int(wrap((a % 2 ** 64) >> b) if 0 <= b < 64 else 0)
    if op == "min":
        return want_int(min(a, b))
    if op == "max":
        return want_int(max(a, b))
    if op == "roundm":
        if b == 0:
            return None if obs == ("float", NANBITS) else ("other", "float NaN (round(x/0)*0)")
        q2 = (2 * abs(a) + abs(b)) // (2 * abs(b))              # round half away from zero of |a|/|b|
        r = (-1 if a < 0 else 1) * q2 * abs(b)                  # the nearest multiple of b, with the sign of a
        if in64(r):
            return want_int(r)
        return None if obs[0] == "float" else ("other", "float (nearest multiple does not fit in 64 bits)")
    if op == "neg":
        return want_int(wrap(-a))
    if op == "pos":
        return want_int(a)
    if op == "~":
        return want_int(~a)
    if op == "bitcount":
        return want_int(bin(a % 2 ** 64).count("1"))
    if op in ("abs", "ceil", "floor", "round", "sgn"):
        r = {"abs": abs(a), "ceil": a, "floor": a, "round": a, "sgn": (a > 0) - (a < 0)}[op]
        if not in64(r):
            return want_float(2.0 ** 63)                       # abs(-2^63) overflows to float like the arithmetic operators
        return want_int(r)
    if op in TERN:
        m = v[2]
        if op == "mexp" and b < 0:
            return None if obs[0] == "error" else ("mexp-negative-exponent-not-error", "error")
        if m == 0:
            return None if obs[0] == "error" else ("zero-modulus-not-error", "an error value")
        if m < 0:
            return None                    # only "no crash" is claimed for a negative modulus (panic handled above)
        exact = {"madd": lambda: (a + b) % m, "msub": lambda: (a - b) % m, "mmul": lambda: (a * b) % m, "mexp": lambda: pow(a, b, m)}[op]()
        return want_int(exact)
    return ("unknown-operator", "")


# ------------------------------------------------------------------ what today's code answers inside the known defect classes
# A witness belongs to a known class only when the implementation gives exactly the answer the recorded defect gives;
# any other wrong answer on the same operands is reported as class "other".
def legacy_value(op, v):
    """observation today's kernels give on int operands v, for the operators with a recorded defect; None = not modelled here"""
    a = v[0]
    b = v[1] if len(v) > 1 else None
    return None


def oracle(op, args, obs):
    r = oracle0(op, args, obs)
    if r is not None and r[0] in PROBES and obs[0] != "panic" and all(x[0] == "i" for x in args):
        lv = legacy_value(op, [x[1] for x in args])
        if lv is not None and lv != obs:
            return ("other", r[1])
    return r


# ------------------------------------------------------------------ known defect classes: witness and operand footprint
# The Coq model mirrors today's code, defects included (they are the _refuted theorems).  Each run probes the
# implementation on the witness of every class; when a class no longer reproduces (repaired upstream or by a fix: commit)
# the operands inside that class's footprint are left out of the model/implementation correspondence (the model is stale
# exactly there; the property oracle still judges the implementation on them) and the evidence names the class under
# "model_stale_for".  Anything else that differs is reported.
PROBES = {}     # no open defect class (times-float-although-product-fits-within-1024-of-2^63 repaired: fixed: line of KNOWN_FINDINGS.txt)


def footprints(op, args):
    """classes whose defect region contains these operands (a function of the operands only)"""
    if not all(a[0] == "i" for a in args):
        return set()
    v = [a[1] for a in args]
    out = set()
    return out


def former_times_band(op, args):
    """int * int whose product fits (or has magnitude exactly 2^63) while the double product exceeds the former threshold 2^63 - 1024"""
    if op != "*" or not all(a[0] == "i" for a in args):
        return False
    r, c = args[0][1] * args[1][1], fl(args[0][1]) * fl(args[1][1])
    return abs(c) > float(T1024) and abs(r) <= 2 ** 63


# ------------------------------------------------------------------ generators
def int_grid(ctx, full):
    ks = range(1, 64) if full else [1, 2, 3, 7, 8, 15, 16, 26, 31, 32, 33, 52, 53, 54, 61, 62, 63]
    g = {0, 1, -1, MAX, MIN, MAX - 1, MIN + 1, 2 ** 53 + 1, 2 ** 53 - 1, -(2 ** 53) - 1, 3037000499, 3037000500, -3037000500,
         T1024, T1024 - 1, T1024 + 1, 10, -10, 5, -5, 6, -3, 7, 39, 64, 65, -64, 100, 1000}
    for k in ks:
        for d in (-1, 0, 1):
            for s in (1, -1):
                n = s * (2 ** k + d)
                if in64(n):
                    g.add(n)
    return sorted(g)


def float_grid(ctx, nrand):
    rng = ctx.rng
    vals = [0.0, -0.0, 1.0, -1.0, 0.5, -0.5, 1.5, -1.5, 2.5, -2.5, 2.0, -2.0, 3.0, 0.1, -0.1, 3.7, -3.7, 7.5, 1e19, -1e19, 1e300, -1e300, 1e-300,
            math.inf, -math.inf, math.nan, 5e-324, -5e-324, 2.2250738585072009e-308, 2.2250738585072014e-308, 1.7976931348623157e308,
            -1.7976931348623157e308, 2.0 ** 53, 2.0 ** 53 + 2, -(2.0 ** 53), 2.0 ** 63, -(2.0 ** 63), 2.0 ** 63 - 1024, 2.0 ** 64, 2.0 ** 62,
            9007199254740993.0, 4503599627370496.5, 4503599627370495.5, 0.49999999999999994, -0.49999999999999994, 1e15 + 0.5, 63.0, 64.0, -1e-5, 1024.0]
    bits = [fbits(x) for x in vals]
    for _ in range(nrand):
        c = rng.randrange(4)
        if c == 0:
            bits.append(canon(rng.getrandbits(64)))
        elif c == 1:
            bits.append(fbits(rng.randint(-4000, 4000) / 8.0))
        elif c == 2:
            bits.append(fbits(float(rng.randint(MIN, MAX))))
        else:
            bits.append(fbits(math.ldexp(rng.random() - 0.5, rng.randint(-1080, 1030))))
    seen, out = set(), []
    for b in bits:
        if b not in seen:
            seen.add(b); out.append(b)
    return out


# witnesses of the defects repaired by fix: commits (round 1: 7910d392d 9dd59d176 948308289 0499ffd56 94ff40520 83ceb0713 bbf6f604b;
# round 2: int_power, exact modular ops, int-preserving functions, roundm -- see KNOWN_FINDINGS.txt):
# always generated, always judged by the oracle AND always compared with the Coq model
ANCHORS = [("%", [I(-10), I(5)]), ("%", [I(6), I(-3)]), ("%", [I(0), I(-1)]), ("*", [I(16440948372290153), I(561)]),
           ("*", [I(-16440948372290153), I(561)]), ("*", [I(89547301328687144), I(-103)]), ("*", [I(-1), I(MIN)]), ("*", [I(MIN), I(-1)]),
           ("+", [I(MIN), I(MIN)]), ("-", [I(0), I(MIN)]), ("/", [I(MIN), I(-1)]), ("//", [I(MIN), I(-1)]), ("./", [I(1), I(0)]),
           ("./", [I(0), I(0)]), ("./", [I(-7), I(0)]), ("./", [I(MIN), I(-1)]), ("madd", [I(5), I(3), I(0)]), ("msub", [I(5), I(3), I(0)]),
           ("mmul", [I(5), I(3), I(0)]), ("mexp", [I(5), I(3), I(0)]), ("mexp", [I(10), I(1), I(3)]), ("mexp", [I(5), I(0), I(1)]),
           ("mexp", [I(-7), I(1), I(5)]), ("mexp", [I(5), I(0), I(-1)]),
           # times by the 128-bit product: the former threshold band and the products of magnitude exactly 2^63
           ("*", [I(MAX), I(1)]), ("*", [I(1), I(MAX)]), ("*", [I(-(2 ** 31)), I(2 ** 32)]), ("*", [I(2 ** 31), I(2 ** 32)]), ("*", [I(-(2 ** 31)), I(-(2 ** 32))]),
           ("*", [I(MIN), I(1)]), ("*", [I(1), I(MIN)]), ("*", [I(2), I(2 ** 62)]), ("*", [I(-2), I(2 ** 62)]), ("*", [I(-2), I(-(2 ** 62))]), ("*", [I(1024), I(2 ** 53)]),
           ("*", [I(3037000499), I(3037000499)]), ("*", [I(3037000500), I(3037000500)]), ("*", [I(MAX), I(-1)]), ("*", [I(MIN), I(0)]), ("*", [I(0), I(MIN)]),
           ("*", [I(T1024 + 1), I(1)]), ("*", [I(-(T1024 + 1)), I(1)]), ("*", [I(4611686018427387903), I(2)]), ("*", [I(4611686018427387904), I(-2)]),
           # round 2
           ("**", [I(3), I(39)]), ("**", [I(7), I(22)]), ("**", [I(-1), I(2 ** 53 + 1)]), ("**", [I(MAX), I(1)]), ("**", [I(2), I(-1075)]),
           ("**", [I(39), I(-255)]), ("**", [I(2), I(63)]), ("**", [I(-2), I(63)]), ("**", [I(2), I(62)]), ("**", [I(2), I(64)]), ("**", [I(2), I(-1)]),
           ("**", [I(-1), I(-3)]), ("**", [I(1), I(MIN)]), ("**", [I(0), I(-1)]), ("**", [I(0), I(0)]), ("**", [I(MIN), I(1)]), ("**", [I(MIN), I(2)]),
           ("**", [I(3037000500), I(2)]), ("**", [I(-3037000500), I(2)]), ("**", [I(3037000499), I(2)]), ("**", [I(2097152), I(3)]), ("**", [I(-2097152), I(3)]),
           ("mmul", [I(2 ** 32), I(2 ** 32), I(7)]), ("madd", [I(2 ** 62), I(2 ** 62), I(3)]), ("mexp", [I(2 ** 32), I(3), I(3)]),
           ("msub", [I(MIN), I(MAX), I(5)]), ("mmul", [I(MIN), I(MIN), I(MAX)]), ("mexp", [I(MAX - 1), I(MAX), I(MAX)]), ("mmul", [I(MAX), I(MAX), I(-7)]),
           ("ceil", [I(MAX)]), ("abs", [I(-(2 ** 53) - 1)]), ("floor", [I(2 ** 53 + 1)]), ("round", [I(MAX)]), ("round", [I(MIN)]), ("sgn", [I(MIN)]),
           ("abs", [I(MIN)]), ("abs", [I(MIN + 1)]), ("roundm", [I(2 ** 53 + 1), I(1)]), ("roundm", [I(7), I(0)]), ("roundm", [I(0), I(0)]),
           ("roundm", [I(7), I(2)]), ("roundm", [I(-7), I(2)]), ("roundm", [I(7), I(-2)]), ("roundm", [I(MAX), I(2)]), ("roundm", [I(MIN), I(MIN)]),
           ("roundm", [I(MIN + 1), I(2)]), ("roundm", [I(MIN), I(3)]), ("roundm", [I(MAX), I(MAX)]), ("roundm", [I(1), I(MIN)]), ("roundm", [I(2 ** 62), I(MIN)])]


def repaired_grid(ctx, full):
    """the kernels repaired in round 2 on their own boundary grid: operands beyond 2^53 and next to 2^63, exponents 0/1/2/62/63/64,
    bases 0, +-1, +-2, +-3, -2^63, negative and extreme moduli"""
    R = []
    bases = [0, 1, -1, 2, -2, 3, -3, 7, -7, 10, -10, 15, 2 ** 31, -(2 ** 31), 3037000499, 3037000500, -3037000500, 2 ** 32, 2 ** 53 + 1, -(2 ** 53) - 1,
             2 ** 62, -(2 ** 62), MAX, MIN, MIN + 1, MAX - 1]
    exps = [0, 1, 2, 3, 20, 31, 39, 40, 41, 61, 62, 63, 64, 65, 2 ** 53 + 1, 2 ** 53 + 2, MAX, MAX - 1, -1, -2, -3, -62, -63, -64, -1074, -1075, MIN, MIN + 1]
    for a in bases:
        for b in exps:
            R.append(("**", [I(a), I(b)]))
    big = [MIN, MIN + 1, -(2 ** 62) - 1, -(2 ** 53) - 1, -7, -1, 0, 1, 7, 2 ** 53 + 1, 2 ** 62 + 1, MAX - 1, MAX]
    mods = [1, -1, 2, -2, 3, -3, 7, 10, 2 ** 26 + 1, 2 ** 53 + 1, -(2 ** 53) - 1, 2 ** 62, 2 ** 62 + 1, MAX, MIN, MAX - 1, MIN + 1, 0]
    for a in big + [2 ** 53 + 2, 3 * 2 ** 61, -3 * 2 ** 61, 5, -5, 3, -3, 15, -15]:
        for m in mods:
            R.append(("roundm", [I(a), I(m)]))
    tm = [1, 2, 3, 7, -1, -3, -7, 2 ** 32 + 1, 3037000500, 2 ** 62 + 1, MAX, MAX - 1, MIN, MIN + 1, -(2 ** 62)]
    for op in TERN:
        bs = big if op != "mexp" else [0, 1, 2, 3, 62, 63, 64, 65, 2 ** 53 + 1, MAX]
        for a in big:
            for b in bs:
                for m in tm:
                    R.append((op, [I(a), I(b), I(m)]))
    for op in ("abs", "ceil", "floor", "round", "sgn"):
        for a in big + [2 ** 53 + 2, -(2 ** 53) - 2, 2 ** 63 - 1025, -(2 ** 63) + 1025]:
            R.append((op, [I(a)]))
    return R


def gen_cases(ctx):
    """the full cross product boundary grid x itself x every operator, plus structured and random operands"""
    rng = ctx.rng
    full = ctx.tier == "thorough"
    G = int_grid(ctx, full)
    FG = float_grid(ctx, 60 if full else 24)
    cases = list(ANCHORS)
    ctx.dist("repaired_defect_anchors", len(ANCHORS))
    # (1) int grid x int grid x every binary operator
    for op in BIN:
        for a in G:
            for b in G:
                cases.append((op, [I(a), I(b)]))
    ctx.dist("grid_int_x_int_x_binop", len(BIN) * len(G) ** 2)
    ctx.cov["grid_sizes"] = {"ints": len(G), "floats": len(FG)}
    # (2) products straddling 2^63, and + / - straddling both ends
    n0 = len(cases)
    for b in list(range(2, 1100)) + [rng.randrange(1100, 2 ** 31) for _ in range(400)]:
        a0 = -(-2 ** 63 // b)
        for d in (-2, -1, 0, 1, 2):
            a = a0 + d
            if in64(a):
                sa, sb = rng.choice([(1, 1), (1, 1), (-1, 1), (1, -1), (-1, -1)])
                cases.append(("*", [I(sa * a), I(sb * b)]))
    for _ in range(1500):
        a = rng.randint(MIN, MAX)
        d = rng.randint(-3, 3)
        cases.append(("+", [I(a), I(max(MIN, min(MAX, (MAX if a > 0 else MIN) - a + d)))]))
        cases.append(("-", [I(a), I(max(MIN, min(MAX, a - (MAX if a > 0 else MIN) + d)))]))
    ctx.dist("straddling_2^63", len(cases) - n0)
    # (3) random int64 operands (uniform bits, and uniform magnitude classes) for every binary operator
    n0 = len(cases)

    def rint():
        k = rng.randrange(1, 65)
        return wrap(rng.getrandbits(k)) if rng.random() < 0.5 else rng.choice([1, -1]) * rng.getrandbits(k - 1 if k > 1 else 1)
    nr = 400 if full else 120
    for op in BIN:
        for _ in range(nr):
            a, b = rint(), rint()
            if op in ("/", "//", "%", "./", "roundm") and rng.random() < 0.5 and b != 0:
                a = wrap(b * rng.randint(-2 ** 20, 2 ** 20))       # exact multiples
            if op in ("<<", ">>", ">>>") and rng.random() < 0.7:
                b = rng.randint(-3, 70)
            if op == "**":
                a, b = rng.choice([rng.randint(-40, 40), rint()]), rng.choice([rng.randint(-5, 70), rint()])
            cases.append((op, [I(a), I(b)]))
    ctx.dist("random_int_x_int", len(cases) - n0)
    # (4) exact powers: every a^b that fits in 64 bits for small bases (where ** must be exact)
    n0 = len(cases)
    for a in list(range(-12, 13)) + [15, 16, 31, 100, 1000, 46341, 2097151, 3037000499, -3037000499]:
        for b in range(0, 66):
            if abs(a) <= 1 or abs(a) ** b < 2 ** 65:
                cases.append(("**", [I(a), I(b)]))
    ctx.dist("small_base_powers", len(cases) - n0)
    # (5) mixed int/float and float/float for every binary operator
    n0 = len(cases)
    GI = [x for x in G if abs(x) <= 4 or abs(x) >= 2 ** 52 or x in (5, -5, 7, 10, 64, 1000)]
    if not full:
        GI = GI[::2] + [0, 1, -1, MIN, MAX]
    for op in BIN:
        for fb in FG:
            for a in GI:
                if full or rng.random() < 0.35:
                    cases.append((op, [I(a), F(fb)]))
                if full or rng.random() < 0.35:
                    cases.append((op, [F(fb), I(a)]))
            for fb2 in FG:
                if full or rng.random() < 0.25:
                    cases.append((op, [F(fb), F(fb2)]))
    ctx.dist("mixed_and_float_binop", len(cases) - n0)
    # (6) unary operators on every grid value
    n0 = len(cases)
    for op in UN:
        for a in G:
            cases.append((op, [I(a)]))
        for fb in FG:
            cases.append((op, [F(fb)]))
        for _ in range(60):
            cases.append((op, [I(rint())]))
    ctx.dist("unary", len(cases) - n0)
    # (7) ternary modular functions
    n0 = len(cases)
    T = [0, 1, -1, 2, 3, 5, 7, 10, -7, 2 ** 31, 2 ** 32, 2 ** 32 + 1, 3037000499, 3037000500, 2 ** 62, MAX, MIN, MAX - 1, 1000007, 2 ** 61 - 1]
    for op in TERN:
        for a in T:
            for b in T:
                for m in T:
                    if full or rng.random() < 0.3 or m == 0 or (b in (0, 1) and op == "mexp"):
                        cases.append((op, [I(a), I(b), I(m)]))
        for _ in range(nr * 2):
            m = rng.choice([rng.randint(1, 100), rng.randint(1, 3037000499), rng.randint(1, MAX)])
            a = rng.choice([rng.randint(-m, m), rint()])
            b = rng.choice([rng.randint(0, 200), abs(rint())]) if op == "mexp" else rng.choice([rng.randint(-m, m), rint()])
            cases.append((op, [I(a), I(b), I(m)]))
        for fb in FG[:6]:
            cases.append((op, [I(5), F(fb), I(7)]))
            cases.append((op, [F(fb), I(5), I(7)]))
            cases.append((op, [I(5), I(3), F(fb)]))
    ctx.dist("ternary_modular", len(cases) - n0)
    # (8) the kernels repaired in round 2 (int_power, exact modular ops, integer abs/ceil/floor/round/sgn/roundm) on their own grid
    R = repaired_grid(ctx, full)
    cases += R
    ctx.dist("repaired_kernel_grid", len(R))
    return cases


# ------------------------------------------------------------------ Coq term for one observed case
def coq_case(op, args, obs):
    k, v = {"int": (0, None), "float": (1, None), "error": (2, 0), "panic": (3, 0)}.get(obs[0], (9, 0))
    if v is None:
        v = obs[1]
    return "(%d, [%s], %d, %s)" % (OPC[op], "; ".join(arg_coq(a) for a in args), k, coq_z(v))


def describe(op, args, obs, exp=None):
    d = {"operator": op, "args": [arg_show(a) for a in args], "input": op + " " + " ".join(arg_txt(a) for a in args),
         "observed": list(obs) if obs[0] != "float" else ["float", "%r" % bits2f(obs[1]), "bits %016x" % obs[1]],
         "how": "echo '<input>' | implrun bif    (args: i<decimal int64> | f<hex IEEE bits>)"}
    if exp is not None:
        d["expected"] = exp
    return d


def run(ctx):
    ctx.cov["rule"] = ("boundary grid (0, +-1, +-2^k, +-(2^k+-1), +-(2^63-1), -2^63, 2^53+-1, sqrt(2^63) neighbours; quick: 17 exponents k, thorough: all k<=63) "
                       "x itself x each of the 20 binary operators through the real pkg/bifs functions (implrun bif, one process, recover() around each call); "
                       "products/sums/differences straddling +-2^63; random int64 operands; every small-base power that fits; mixed int/float and float/float operands "
                       "(+-0, +-Inf, NaN, denormals, 2^53, 2^63, random bit patterns); 9 unary operators on every grid value; madd/msub/mmul/mexp triples incl. zero/negative moduli. "
                       "Every case is judged by the property oracle (Python big-int / IEEE reference); a stratified sample plus every oracle-flagged case is also "
                       "evaluated by the Coq model under vm_compute and compared bit-for-bit (ints exactly, floats as IEEE bit patterns, NaNs canonicalised). "
                       "A case is non-trivial when distinct (operator, operands).")
    ctx.cov["trusted_base"] = ["Coq 8.16.1 kernel + vm_compute incl. its primitive floats (hardware binary64; Print Assumptions lists the PrimFloat./PrimInt63. primitives, no FloatAxioms)",
                               "python harness (struct/IEEE doubles of CPython as the oracle's float arithmetic) / implrun bif driver",
                               "Go float64->int64 conversion modelled as amd64 CVTTSD2SQ (NaN/out of range -> -2^63); math.Pow modelled by a port of go1.25 src/math/pow.go; both tied by correspondence"]
    ctx.assumptions = ["float-side clauses (mixed int/float = IEEE on converted operands) are definitional in the model and tied by bit-exact correspondence, not proved",
                       "pow with a non-integer exponent other than +-0.5 (needs math.Exp/Log) is outside the model: only kind float / no crash is compared",
                       "the other ten kinds of the disposition matrices (absent, empty, error ...) belong to C08"]
    forbidden_gate(ctx, ["Base", "C07"])
    ok, why = check_props(ctx, "C07/Props.v", ["C07/ProofsBits.vo", "C07/ProofsInt.vo", "C07/ProofsPow.vo", "C07/ProofsMod.vo", "C07/ProofsPanic.vo", "C07/ProofsWit.vo", "C07/ProofsMixed.vo", "C07/Harness.vo"])
    cases = gen_cases(ctx)
    # dedupe, keep order
    seen, uniq = set(), []
    for op, args in cases:
        key = (op, tuple(args))
        if key not in seen:
            seen.add(key); uniq.append((op, args))
    cases = uniq
    with ctx.timed("impl"):
        obs = impl_bif(ctx, cases)
    # ---- the property itself on the implementation's outputs: always run; this is the failing-input search
    flagged = {}
    with ctx.timed("oracle"):
        for i, ((op, args), o) in enumerate(zip(cases, obs)):
            ctx.count((op, args))
            r = oracle(op, args, o)
            if r is not None:
                # unknown failures are reported per operator (the class string stays "other")
                flagged.setdefault(r[0] if r[0] not in ("other", "panic-other") else r[0] + ":" + op, []).append((i, r[1]))
    ctx.cov["oracle"] = {"cases": len(cases), "flagged_by_class": {k: len(v) for k, v in sorted(flagged.items())}}
    npanic = sum(1 for o in obs if o[0] == "panic")
    ctx.cov["panics_observed"] = npanic

    def size(i):
        return sum(abs(a[1]).bit_length() if a[0] == "i" else 64 for a in cases[i][1])
    reported_idx = set()
    reported_ops = set()
    for cls, lst in sorted(flagged.items()):
        i, exp = min(lst, key=lambda t: (size(t[0]), t[0]))
        op, args = cases[i]
        reported_idx.add(i)
        if ":" in cls:
            reported_ops.add((cls.split(":")[0], cls.split(":", 1)[1]))
        ctx.violation(dict(describe(op, args, obs[i], exp), **{"class": cls.split(":")[0], "broken": "property oracle", "witnesses_in_class": len(lst)}))
    for i in (0, len(cases) // 3, len(cases) // 2, len(cases) - 1):
        ctx.sample(describe(cases[i][0], cases[i][1], obs[i]))
    if not ok:
        other = [c for c in flagged if c.split(":")[0] in ("other", "panic-other")]
        ctx.violation({"broken": why, "note": "proof obligations of C07/Props.v no longer check"}, found_input=bool(other))
        return
    # ---- which known defect classes still reproduce on this tree (selects where the model is compared)
    pk = sorted(PROBES)
    pobs = impl_bif(ctx, [PROBES[c] for c in pk]) if pk else []
    repaired = set()
    probe_report = {}
    for c, o in zip(pk, pobs):
        r = oracle(PROBES[c][0], PROBES[c][1], o)
        probe_report[c] = {"witness": PROBES[c][0] + " " + " ".join(arg_txt(a) for a in PROBES[c][1]), "observed": list(o),
                           "status": "reproduces" if r is not None else "no longer reproduces"}
        if r is None:
            repaired.add(c)
    ctx.cov["variant_probe"] = probe_report
    ctx.cov["model_stale_for"] = sorted(repaired)
    # ---- correspondence in Coq: stratified sample + every oracle-flagged case (capped)
    rng = ctx.rng
    per_op = 500 if ctx.tier == "thorough" else 60
    byop = {}
    for i, (op, args) in enumerate(cases):
        byop.setdefault(op, []).append(i)
    chosen = []
    for op, idxs in byop.items():
        ints = [i for i in idxs if all(a[0] == "i" for a in cases[i][1])]
        mixed = [i for i in idxs if not all(a[0] == "i" for a in cases[i][1])]
        chosen += rng.sample(ints, min(len(ints), per_op))
        chosen += rng.sample(mixed, min(len(mixed), per_op // 2 if op not in INT_ONLY and op not in TERN else 12))
    for cls, lst in flagged.items():
        chosen += [i for i, _ in lst[:(40 if ctx.tier == 'thorough' else 12)]]
    anchors = set((op, tuple(args)) for op, args in ANCHORS)
    chosen += [i for i, (op, args) in enumerate(cases) if (op, tuple(args)) in anchors]
    # the repaired-kernel grid: every ** / roundm / unary case, a sample (thorough: all) of the ternary ones
    rg = set((op, tuple(args)) for op, args in repaired_grid(ctx, ctx.tier == "thorough"))
    rgi = [i for i, (op, args) in enumerate(cases) if (op, tuple(args)) in rg]
    rg_t = [i for i in rgi if cases[i][0] in TERN]
    chosen += [i for i in rgi if cases[i][0] not in TERN]
    chosen += rg_t if ctx.tier == "thorough" else rng.sample(rg_t, min(len(rg_t), 1500))
    band = [i for i, (op, args) in enumerate(cases) if former_times_band(op, args)]
    ctx.dist("times_former_threshold_band", len(band))
    chosen += band if ctx.tier == "thorough" else rng.sample(band, min(len(band), 600))
    chosen = sorted(set(chosen))
    if repaired:
        chosen = [i for i in chosen if not (footprints(cases[i][0], cases[i][1]) & repaired)]
    terms = [coq_case(cases[i][0], cases[i][1], obs[i]) for i in chosen]
    ctx.dist("coq_correspondence_cases", len(terms))
    with ctx.timed("coq_cases"):
        bad, err = coq_eval_mismatches(ctx, "C07", "C06.Model C07.Model C07.Harness", "Z * list (Z * Z) * Z * Z", "chk", terms, shard=len(terms) // 2 + 1)      # at most two coqc processes
    ctx.cov["correspondence"] = {"cases": len(terms), "mismatches": len(bad)}
    if err:
        ctx.violation({"broken": "correspondence-evaluation", "detail": err[-2000:]}, found_input=False)
        return
    nrep = 0
    for j in bad[:60]:
        i = chosen[j]
        op, args = cases[i]
        r = oracle(op, args, obs[i])
        if r is not None and r[0] in ("other", "panic-other"):
            if i in reported_idx or (r[0], op) in reported_ops:
                continue                     # this failing input (or one of the same operator) is already reported by the oracle pass
            reported_ops.add((r[0], op))
            ctx.violation(dict(describe(op, args, obs[i], r[1]), **{"class": r[0], "broken": "correspondence C07.Harness.chk"}))
        else:
            ctx.violation(dict(describe(op, args, obs[i]), **{"broken": "correspondence C07.Harness.chk: the Coq model and the implementation differ on this input"
                                                                   + ("" if r is None else "; the property oracle puts the implementation's answer in class " + r[0])}),
                          found_input=False)
        nrep += 1
        if nrep >= 3:
            break
    cli_tie(ctx)


# ------------------------------------------------------------------ the operators as a user sees them (one mlr run)
def cli_tie(ctx):
    """the same BIFs through the DSL: operands read from data fields, results compared with implrun bif (kind, int value / float value)"""
    rng = ctx.rng
    G = int_grid(ctx, False)
    rows = [(rng.choice(G), rng.choice(G)) for _ in range(120)] + [(MIN, MIN), (0, MIN), (MAX, 1), (3, 39), (-10, 5), (6, -3), (7, 0), (MIN, -1),
                                                                    (16440948372290153, 561), (2 ** 53 + 1, 1)]
    ops = [o for o in BIN if o not in ("roundm", "min", "max")]
    prog = "".join("$r%d = $a %s $b; $t%d = typeof($r%d);" % (k, o, k, k) for k, o in enumerate(ops))
    prog += "$rm = min($a,$b); $tm = typeof($rm); $rx = max($a,$b); $tx = typeof($rx); $ra = abs($a); $ta = typeof($ra);"
    inp = "".join("a=%d,b=%d\n" % r for r in rows).encode()
    st, out, err = mlr_run(ctx, ["--ojsonl", "--jvquoteall", "--ofmt", "%.17g", "put", prog], inp, timeout=60)
    if classify_run(st, err) != "ok":
        ctx.violation({"broken": "cli-tie", "status": str(st), "stderr": err.decode("latin1")[-800:], "class": "panic-other" if classify_run(st, err) == "panic" else "other",
                       "input": inp.decode()[:400], "how": "mlr --ojsonl put '%s'" % prog})
        return
    lines = [json.loads(l) for l in out.decode().splitlines() if l.strip()]
    want_cases = []
    for (a, b) in rows:
        for o in ops:
            want_cases.append((o, [I(a), I(b)]))
        want_cases += [("min", [I(a), I(b)]), ("max", [I(a), I(b)]), ("abs", [I(a)])]
    wobs = impl_bif(ctx, want_cases)
    n = len(ops) + 3
    bad = 0
    for ri, (row, rec) in enumerate(zip(rows, lines)):
        keys = [("r%d" % k, "t%d" % k) for k in range(len(ops))] + [("rm", "tm"), ("rx", "tx"), ("ra", "ta")]
        for ci, (rk, tk) in enumerate(keys):
            o = wobs[ri * n + ci]
            ctx.count(("cli", row, rk))
            txt, ty = rec.get(rk), rec.get(tk)
            okk = True
            if o[0] == "int":
                okk = ty == "int" and txt == str(o[1])
            elif o[0] == "float":
                f = bits2f(o[1])
                try:
                    g = float(txt.replace("+Inf", "inf").replace("-Inf", "-inf"))
                    okk = ty == "float" and (fbits(g) == o[1] or (f != f and g != g))
                except (ValueError, AttributeError):
                    okk = False
            elif o[0] == "error":
                okk = ty == "error"
            if not okk and bad < 2:
                bad += 1
                op, args = want_cases[ri * n + ci]
                ctx.violation({"broken": "cli-tie: mlr put and the BIF called directly disagree", "operator": op, "a": row[0], "b": row[1], "mlr_value": txt, "mlr_typeof": ty,
                               "bif": list(o), "how": "echo 'a=%d,b=%d' | mlr put '$r = ...'" % row}, found_input=False)
    ctx.cov["cli_tie"] = {"rows": len(rows), "operators": len(ops) + 3, "disagreements": bad}


def replay(ctx, path):
    obj = json.loads(Path(path).read_text())
    if "input" not in obj or "operator" not in obj:
        print("replay: nothing to re-run in", path)
        return
    parts = obj["input"].split()
    op = parts[0]
    args = [I(int(p[1:])) if p[0] == "i" else F(int(p[1:], 16)) for p in parts[1:]]
    o = impl_bif(ctx, [(op, args)])[0]
    r = oracle(op, args, o)
    ctx.count((op, args)); ctx.count((op, args, 1))
    print("replay: %s observed=%s oracle=%s" % (obj["input"], o, r))
    if r is not None:
        ctx.violation(dict(describe(op, args, o, r[1]), **{"class": r[0], "replayed": True}))
