"""C05 — then-chaining equals piping; inputs concatenate; NR/FNR/FILENAME track source (DESIGN 3/C05)."""
import bz2, gzip, json, os, shutil, tempfile, zlib
from concurrent.futures import ThreadPoolExecutor
from vlib import *

KEYS = ["a", "b", "c", "x"]
WORDS = [b"pan", b"eks", b"wye", b"zee", b"hat", b"Pan", b"", b"3", b"17", b"4", b"100", b"0.5", b"-2", b"abc", b"ab", b"b", b"a"]


def cb(s):
    return coq_bytes(s if isinstance(s, bytes) else s.encode())


def gen_records(rng, n):
    recs = []
    for i in range(n):
        r = [(b"id", b"r%d" % i)]
        for k in KEYS:
            if rng.random() < 0.85:
                r.append((k.encode(), rng.choice(WORDS)))
        if rng.random() < 0.1:
            rng.shuffle(r)
        recs.append(r)
    return recs


def gen_verb(rng, modelled_only):
    """(mlr argv, Coq vcode or None)"""
    k, k2 = rng.sample(KEYS, 2)
    n = rng.choice([0, 1, 2, 3, 5, 50])
    pool = [
        (["cat"], "VCat"), (["tac"], "VTac"), (["head", "-n", str(n)], f"(VHead {n})"), (["tail", "-n", str(n)], f"(VTail {n})"),
        (["rename", f"{k},{k2}"], f"(VRename {cb(k)} {cb(k2)})"), (["rename", f"{k},new"], f"(VRename {cb(k)} {cb('new')})"),
        (["cut", "-f", f"id,{k},{k2}"], f"(VCutKeep [{cb('id')}; {cb(k)}; {cb(k2)}])"), (["cut", "-x", "-f", f"{k},{k2}"], f"(VCutDrop [{cb(k)}; {cb(k2)}])"),
        (["reorder", "-f", k], f"(VReorderHead {cb(k)})"), (["reorder", "-e", "-f", k], f"(VReorderTail {cb(k)})"),
        (["fill-down", "-f", k], f"(VFillDown false {cb(k)})"), (["fill-down", "-a", "-f", k], f"(VFillDown true {cb(k)})"),
        (["put", f'${k2} = ${k} . "a"'], f"(VPutDot {cb(k2)} {cb(k)} {cb('a')})"), (["put", f'$z = ${k} . "_s"'], f"(VPutDot {cb('z')} {cb(k)} {cb('_s')})"),
        (["cat", "-n"], "VCatN"), (["count-similar", "-g", k], f"(VCountSimilar {cb(k)})"), (["sort", "-f", k], f"(VSortF {cb(k)})"),
    ]
    extra = [
        (["sort", "-r", k], None), (["sort", "-f", k, "-r", k2], None), (["sort", "-c", k], None), (["regularize"], None), (["unsparsify"], None),
        (["group-like"], None), (["group-by", k], None), (["label", "id,q,r"], None), (["fill-empty"], None), (["fill-empty", "-v", "X"], None),
        (["uniq", "-g", k], None), (["uniq", "-g", f"{k},{k2}", "-c"], None), (["count-distinct", "-f", k], None), (["nothing"], None),
        (["sec2gmt", k], None), (["put", f'${k2} = toupper(${k})'], None), (["put", f'${k2} = strlen(${k})'], None), (["filter", f'${k} != "pan"'], None),
        (["filter", f'is_present(${k})'], None), (["head", "-n", "1", "-g", k], None), (["tail", "-n", "1", "-g", k], None), (["top", "-n", "2", "-f", "x", "-g", k, "-a"], None),
        (["nest", "--ivar", ";", "-f", k], None), (["sort-within-records"], None), (["template", "-f", "id,a,b,c,x"], None), (["sec2gmtdate", k], None),
        (["having-fields", "--at-least", k], None), (["decimate", "-n", "2"], None), (["count", "-g", k], None), (["cat", "-N", "idx", "-g", k], None),
        (["step", "-a", "shift,counter", "-f", k], None), (["rename", "-r", "^(.)$,f_\\1"], None), (["reorder", "-f", f"{k},{k2}"], None),
    ]
    return rng.choice(pool if modelled_only or rng.random() < 0.45 else extra)


def parse_dkvp(out):
    recs = []
    for line in out.split(b"\n"):
        if line == b"":
            continue
        rec = []
        for f in line.split(b","):
            k, _, v = f.partition(b"=")
            rec.append((k, v))
        recs.append(rec)
    return recs


def pmap(ctx, fn, jobs, workers=None):
    workers = workers or int(os.environ.get("VERIF_PAR", "2"))    # raise on an idle machine (mlr start-up costs ~1 s CPU)
    with ctx.timed("impl"):
        with ThreadPoolExecutor(max_workers=workers) as ex:
            return list(ex.map(fn, jobs))


def mlr(ctx, args, inp=b"", cwd=None):
    st, out, err = mlr_run(ctx, args, inp, timeout=90, cwd=cwd)
    if st == "hang":
        st, out, err = mlr_run(ctx, args, inp, timeout=150, cwd=cwd)
    return st, out, err


def chain_args(chain):
    args = []
    for i, v in enumerate(chain):
        if i:
            args.append("then")
        args += v
    return args


# ------------------------------------------------------------------------------------------ chains
def chains(ctx, props_ok):
    rng = ctx.rng
    nchains = 24 if ctx.tier == "quick" else 1200
    plans = []
    for ci in range(nchains):
        modelled = ci % 2 == 0
        length = rng.choice([2, 2, 3, 3, 4])
        verbs = [gen_verb(rng, modelled) for _ in range(length)]
        recs = gen_records(rng, rng.choice([0, 1, 4, 9, 14]))
        mid = rng.choice(["dkvp", "json", "csvlite", "dkvp"]) if ci % 3 else "dkvp"
        rpb = rng.choice([None, None, "1", "2", "3"])
        plans.append((verbs, recs, mid, rpb))

    def job(plan):
        verbs, recs, mid, rpb = plan
        inp = dkvp(recs)
        pre = ["--records-per-batch", rpb] if rpb else []
        chained = mlr(ctx, pre + chain_args([v[0] for v in verbs]), inp)
        # the same verbs as a shell pipeline through the intermediate format
        cur, st = inp, 0
        piped_err = b""
        for i, (argv, _) in enumerate(verbs):
            fin = "dkvp" if i == 0 else mid
            fout = "dkvp" if i == len(verbs) - 1 else mid
            st, cur, piped_err = mlr(ctx, ["--i" + fin, "--o" + fout] + argv, cur)
            if st != 0:
                break
        return chained, (st, cur, piped_err)

    results = pmap(ctx, job, plans)
    terms, meta = [], []
    for (verbs, recs, mid, rpb), (chained, piped) in zip(plans, results):
        args = chain_args([v[0] for v in verbs])
        ctx.count(("chain", tuple(map(tuple, args)), tuple(map(tuple, recs)), mid, rpb))
        ctx.dist("chain_len:%d" % len(verbs))
        ctx.dist("chain_mid:" + mid)
        for v in verbs:
            ctx.dist("verb:" + v[0][0])
        if chained[0] != 0 or piped[0] != 0:
            ctx.violation({"broken": "chain or pipe run failed", "kind": "chain", "args": args, "stdin": dkvp(recs).decode(), "mid": mid,
                           "chained_status": chained[0], "piped_status": piped[0], "stderr": (chained[2] + piped[2]).decode("latin1")[-600:]}, found_input=False)
            continue
        # ---- oracle: then-chain == pipe
        if chained[1] != piped[1]:
            ctx.violation({"broken": "oracle: `mlr A then B ...` differs from `mlr A | mlr B ...`", "kind": "chain", "args": args, "verbs": [v[0] for v in verbs], "mid": mid,
                           "stdin": dkvp(recs).decode(), "records_per_batch": rpb, "observed_chained": chained[1].decode("latin1"), "observed_piped": piped[1].decode("latin1"),
                           "class": "chain-differs-from-pipe:" + "+".join(v[0][0] for v in verbs)})
        if all(v[1] for v in verbs):
            terms.append("(%s, %s, %s)" % (coq_list([v[1] for v in verbs]), coq_records(recs), coq_records(parse_dkvp(chained[1]))))
            meta.append((args, recs, chained[1], rpb))
    if meta:
        ctx.sample({"kind": "chain", "args": meta[0][0], "stdin": dkvp(meta[0][1]).decode(), "output": meta[0][2].decode("latin1")})
    if not props_ok:
        return
    with ctx.timed("coq_cases"):
        bad, err = coq_eval_mismatches(ctx, "C05chain", "Base.Record C05.Model C05.Harness", "chain_case", "chk_chain", terms, shard=len(terms) // 2 + 1)
    ctx.cov["correspondence"]["chains"] = {"cases": len(terms), "mismatches": len(bad)}
    if err:
        ctx.violation({"broken": "correspondence-evaluation C05chain", "detail": err[-2000:]}, found_input=False)
        return
    for i in bad[:3]:
        args, recs, out, rpb = meta[i]
        ctx.violation({"broken": "correspondence C05.Harness.chk_chain (chain model and implementation differ; chain = pipe holds on this input)", "kind": "chain",
                       "args": args, "stdin": dkvp(recs).decode(), "records_per_batch": rpb, "observed": out.decode("latin1")}, found_input=False)


# ------------------------------------------------------------------------------------------ multi-file bookkeeping
def gen_files(rng, mode):
    """[(name, lines)] where a line is a list of (key, value) bytes; mode in dkvp/csv/csvlite/tsv/implicit/nidx"""
    nfiles = rng.choice([1, 2, 3, 3, 4])
    files = []
    for j in range(nfiles):
        nrec = rng.choice([0, 0, 1, 2, 3, 6])
        ext = {"dkvp": "dkvp", "csv": "csv", "csvlite": "csv", "tsv": "tsv", "implicit": "csv", "nidx": "txt"}[mode]
        name = "f%d.%s" % (j + 1, ext)
        vals = [w for w in WORDS if w]
        if mode == "dkvp":
            lines = []
            for i in range(nrec):
                ks = rng.sample(KEYS, rng.randint(1, 4))
                lines.append([(k.encode(), rng.choice(vals)) for k in ks])
        elif mode in ("csv", "csvlite", "tsv"):
            hdr = rng.sample(["a", "b", "c", "x", "y", "z"], rng.randint(1, 4))
            header_only_or_empty = rng.random() < 0.25
            lines = [] if (nrec == 0 and header_only_or_empty) else [[(b"", h.encode()) for h in hdr]] + [[(b"", rng.choice(vals)) for _ in hdr] for _ in range(nrec)]
        else:
            # nidx lines may have any widths; CSV with --implicit-csv-header takes the width of the file's first line (ragged lines are an error there)
            w = rng.randint(1, 4)
            lines = [[(b"", rng.choice(vals)) for _ in range(w if (mode == "implicit" or rng.random() < 0.7) else rng.randint(1, 4))] for _ in range(nrec)]
        files.append((name, lines))
    return files


def render_file(mode, lines):
    if mode == "dkvp":
        return b"".join(b",".join(k + b"=" + v for k, v in l) + b"\n" for l in lines)
    sep = {"csv": b",", "csvlite": b",", "implicit": b",", "tsv": b"\t", "nidx": b" "}[mode]
    return b"".join(sep.join(v for _, v in l) + b"\n" for l in lines)


MODE_FLAGS = {"dkvp": ["--idkvp"], "csv": ["--icsv"], "csvlite": ["--icsvlite"], "tsv": ["--itsv"], "implicit": ["--icsv", "--implicit-csv-header"],
              "nidx": ["--inidx", "--ifs", " "]}
MODE_COQ = {"dkvp": 0, "csv": 1, "csvlite": 1, "tsv": 1, "implicit": 2, "nidx": 2}
CTX_PUT = '$_nr = NR; $_fnr = FNR; $_fn = FILENAME; $_fnum = FILENUM; end { emit {"_endnr": NR} }'


def split_ctx(rec):
    d = dict(rec)
    body = [(k, v) for k, v in rec if k not in (b"_nr", b"_fnr", b"_fn", b"_fnum")]
    return body, (int(d[b"_nr"]), int(d[b"_fnr"]), d[b"_fn"], int(d[b"_fnum"]))


def multifile(ctx, props_ok, tmp):
    rng = ctx.rng
    ncases = 20 if ctx.tier == "quick" else 800
    plans = []
    for ci in range(ncases):
        mode = rng.choice(["dkvp", "csv", "csvlite", "tsv", "implicit", "nidx", "csv"])
        files = gen_files(rng, mode)
        d = os.path.join(tmp, "mf%d" % ci)
        os.mkdir(d)
        for name, lines in files:
            Path(d, name).write_bytes(render_file(mode, lines))
        rpb = rng.choice([None, "1", "2", "500"])
        plans.append((mode, files, d, rpb, ci < 6))

    def job(plan):
        mode, files, d, rpb, also_alone = plan
        pre = (["--records-per-batch", rpb] if rpb else []) + MODE_FLAGS[mode] + ["--odkvp"]
        names = [n for n, _ in files]
        whole = mlr(ctx, pre + ["put", CTX_PUT] + names, cwd=d)
        alone = [mlr(ctx, pre + ["cat", n], cwd=d) for n in names] if also_alone else None
        together = mlr(ctx, pre + ["cat"] + names, cwd=d) if also_alone else None
        return whole, alone, together

    results = pmap(ctx, job, plans)
    terms, meta = [], []
    for (mode, files, d, rpb, also_alone), (whole, alone, together) in zip(plans, results):
        names = [n for n, _ in files]
        ctx.count(("multifile", mode, tuple((n, tuple(map(tuple, ls))) for n, ls in files), rpb))
        ctx.dist("multifile_mode:" + mode)
        ctx.dist("multifile_nfiles:%d" % len(files))
        ctx.dist("multifile_empty_files", sum(1 for _, ls in files if not ls))
        desc = {"kind": "multifile", "mode": mode, "args": MODE_FLAGS[mode] + ["--odkvp", "put", CTX_PUT] + names, "records_per_batch": rpb,
                "files": {n: render_file(mode, ls).decode() for n, ls in files}}
        if whole[0] != 0:
            # every generated file is well-formed on its own: failing to read them in sequence is a failing input of "inputs concatenate"
            ctx.violation(dict(desc, broken="oracle: well-formed files cannot be read in sequence", status=whole[0], stderr=whole[2].decode("latin1")[-500:],
                               observed=whole[1].decode("latin1"), **{"class": "multi-file-run-fails:" + mode}))
            continue
        outs = parse_dkvp(whole[1])
        endnr = [int(dict(r)[b"_endnr"]) for r in outs if b"_endnr" in dict(r)]
        body = [split_ctx(r) for r in outs if b"_endnr" not in dict(r)]
        # ---- oracle on the implementation's own output: NR = 1..N, FNR restarts, FILENAME/FILENUM name the source, end block sees N
        ok = [c[0] for _, c in body] == list(range(1, len(body) + 1)) and endnr == [len(body)]
        per = {}
        for _, (nr_, fnr_, fn_, fnum_) in body:
            per.setdefault((fnum_, fn_), []).append(fnr_)
        for (fnum_, fn_), fnrs in per.items():
            ok = ok and fnrs == list(range(1, len(fnrs) + 1)) and 1 <= fnum_ <= len(names) and names[fnum_ - 1].encode() == fn_
        if not ok:
            ctx.violation(dict(desc, broken="oracle: NR/FNR/FILENAME/FILENUM bookkeeping", observed=whole[1].decode("latin1"),
                               **{"class": "context-bookkeeping:" + mode}))
        if also_alone and all(a[0] == 0 for a in alone) and together[0] == 0:
            if together[1] != b"".join(a[1] for a in alone):
                ctx.violation(dict(desc, broken="oracle: reading f1..fn differs from the concatenation of reading each alone", observed_together=together[1].decode("latin1"),
                                   observed_alone=[a[1].decode("latin1") for a in alone], **{"class": "inputs-do-not-concatenate:" + mode}))
        fterm = coq_list(["(%s, %s)" % (cb(n), coq_list([coq_list(["(%s, %s)" % (cb(k), cb(v)) for k, v in l]) for l in ls])) for n, ls in files])
        oterm = coq_list(["(%s, (%d, %d, %s, %d))" % (coq_record(r), c[0], c[1], cb(c[2]), c[3]) for r, c in body])
        terms.append("(%d, %s, %s, %d)" % (MODE_COQ[mode], fterm, oterm, endnr[0] if endnr else -1))
        meta.append((desc, whole[1]))
    if meta:
        ctx.sample(dict(meta[0][0], output=meta[0][1].decode("latin1")))
    if not props_ok:
        return
    with ctx.timed("coq_cases"):
        bad, err = coq_eval_mismatches(ctx, "C05files", "Base.Record C05.Model C05.Harness", "files_case", "chk_files", terms, shard=len(terms) // 2 + 1)
    ctx.cov["correspondence"]["multi_file"] = {"cases": len(terms), "mismatches": len(bad)}
    if err:
        ctx.violation({"broken": "correspondence-evaluation C05files", "detail": err[-2000:]}, found_input=False)
        return
    for i in bad[:3]:
        desc, out = meta[i]
        ctx.violation(dict(desc, broken="correspondence C05.Harness.chk_files (reader/context model and implementation differ)", observed=out.decode("latin1"),
                           **{"class": "multi-file-reader:" + desc["mode"]}))


# ------------------------------------------------------------------------------------------ input sources, NF, end block
def sources(ctx, tmp):
    rng = ctx.rng
    recs = gen_records(rng, 40)
    data = dkvp(recs)
    d = os.path.join(tmp, "src")
    os.mkdir(d)
    Path(d, "plain.dkvp").write_bytes(data)
    Path(d, "data.dkvp.gz").write_bytes(gzip.compress(data))
    Path(d, "data.dkvp.bz2").write_bytes(bz2.compress(data))
    Path(d, "data.dkvp.z").write_bytes(zlib.compress(data))
    Path(d, "gz.bin").write_bytes(gzip.compress(data))
    Path(d, "bz2.bin").write_bytes(bz2.compress(data))
    Path(d, "z.bin").write_bytes(zlib.compress(data))
    have_zstd = shutil.which("zstd") is not None
    if have_zstd:
        rc, out, err = sh(["zstd", "-q", "-c", os.path.join(d, "plain.dkvp")], binary=True)
        have_zstd = rc == 0
        if have_zstd:
            Path(d, "data.dkvp.zst").write_bytes(out)
            Path(d, "zst.bin").write_bytes(out)
    prog = ["put", '$nr = NR; $fnr = FNR']
    variants = [("file", prog + ["plain.dkvp"], b""), ("stdin", prog, data), ("--from", ["--from", "plain.dkvp"] + prog, b""),
                ("ext .gz", prog + ["data.dkvp.gz"], b""), ("ext .bz2", prog + ["data.dkvp.bz2"], b""), ("ext .z", prog + ["data.dkvp.z"], b""),
                ("--gzin", ["--gzin"] + prog + ["gz.bin"], b""), ("--bz2in", ["--bz2in"] + prog + ["bz2.bin"], b""), ("--zin", ["--zin"] + prog + ["z.bin"], b""),
                ("--gzin stdin", ["--gzin"] + prog, gzip.compress(data)),
                ("--prepipe gunzip", ["--prepipe", "gunzip"] + prog + ["gz.bin"], b""), ("--prepipex 'gunzip <'", ["--prepipex", "gunzip <"] + prog + ["gz.bin"], b""),
                ("--prepipe-gunzip", ["--prepipe-gunzip"] + prog + ["gz.bin"], b""), ("--prepipe cat", ["--prepipe", "cat"] + prog + ["plain.dkvp"], b""),
                ("--records-per-batch 1", ["--records-per-batch", "1"] + prog + ["plain.dkvp"], b""), ("--records-per-batch 7", ["--records-per-batch", "7"] + prog + ["plain.dkvp"], b"")]
    if have_zstd:
        variants += [("ext .zst", prog + ["data.dkvp.zst"], b""), ("--zstdin", ["--zstdin"] + prog + ["zst.bin"], b"")]
    else:
        ctx.cov["zstd"] = "zstd binary absent: .zst / --zstdin variants skipped"
    results = pmap(ctx, lambda v: mlr(ctx, v[1], v[2], cwd=d), variants)
    want = b"".join(line + b",nr=%d,fnr=%d\n" % (i + 1, i + 1) for i, line in enumerate(data.split(b"\n")[:-1]))
    for (name, args, inp), (st, out, err) in zip(variants, results):
        ctx.count(("source", name))
        ctx.dist("source:" + name)
        if st != 0 or out != want:
            lost = name.startswith("--prepipe") and st == 0 and want.startswith(out)
            ctx.violation({"broken": "oracle: the same records must arrive whatever the input source", "kind": "source", "source": name, "args": args,
                           "data": data.decode(), "status": st, "observed": out.decode("latin1")[:3000], "stderr": err.decode("latin1")[-300:],
                           "expected": want.decode()[:3000], "class": "prepipe-output-lost" if lost else "input-source:" + name})
    prepipe_race(ctx, d, data, want)
    # NF mid-expression, end block, multi-file NR with mixed sources
    nf_prog = '$nf1 = NF; $new = 1; $nf2 = NF; unset $new; $nf3 = NF; unset $nf1; $nf4 = NF'
    st, out, err = mlr(ctx, ["put", nf_prog], data)
    ctx.count(("nf",))
    bad = None
    for r_in, r_out in zip(recs, parse_dkvp(out)):
        n = len(r_in)
        d_out = dict(r_out)
        got = (d_out.get(b"nf2"), d_out.get(b"nf3"), d_out.get(b"nf4"), len(r_out))
        exp = (b"%d" % (n + 2), b"%d" % (n + 2), b"%d" % (n + 2), n + 3)
        if got != exp:
            bad = (r_in, r_out, exp)
            break
    if st != 0 or bad or len(parse_dkvp(out)) != len(recs):
        ctx.violation({"broken": "oracle: NF equals the current field count mid-expression", "kind": "nf", "args": ["put", nf_prog], "stdin": data.decode(),
                       "observed": out.decode("latin1")[:2000], "first_bad": repr(bad), "class": "nf-mid-expression"})
    # end block after several sources: final NR, last FILENAME
    st, out, err = mlr(ctx, ["-n", "put", "-q", 'end { print NR . ":" . FNR . ":" . FILENUM }'], b"")
    ctx.cov["end_block_mlr_-n"] = out.decode().strip()
    st, out, err = mlr(ctx, ["put", "-q", 'end { print NR . ":" . FNR . ":" . FILENAME . ":" . FILENUM }', "plain.dkvp", "data.dkvp.gz", "data.dkvp.bz2"], b"", cwd=d)
    ctx.count(("endblock",))
    want_end = "%d:%d:data.dkvp.bz2:3" % (3 * len(recs), len(recs))
    if out.decode().strip() != want_end:
        ctx.violation({"broken": "oracle: the end block sees the final NR/FNR/FILENAME/FILENUM", "kind": "endblock", "observed": out.decode(), "expected": want_end,
                       "class": "end-block-context"})


def prepipe_race(ctx, d, data, want):
    """the prepipe child can exit before its output has been read: run the same prepipe'd input many times concurrently"""
    n = 40 if ctx.tier == "quick" else 400
    args = ["--prepipe", "cat", "put", '$nr = NR; $fnr = FNR', "plain.dkvp"]
    results = pmap(ctx, lambda i: mlr(ctx, args, b"", cwd=d), range(n), workers=int(os.environ.get("VERIF_PAR", "2")))
    short = [(st, out) for st, out, err in results if st == 0 and out != want]
    other = [(st, out, err) for st, out, err in results if st != 0]
    for i in range(n):
        ctx.count(("prepipe-race", i), nontrivial=(i == 0))
    ctx.cov["prepipe_race"] = {"runs": n, "runs_with_records_missing_and_exit_0": len(short), "runs_failing": len(other)}
    if short:
        st, out = short[0]
        ctx.violation({"broken": "oracle: records read through --prepipe are silently lost (exit 0) in some runs", "kind": "source", "source": "--prepipe cat (repeated)",
                       "args": args, "data": data.decode(), "runs": n, "runs_short": len(short), "observed_records": out.count(b"\n"), "expected_records": want.count(b"\n"),
                       "observed": out.decode("latin1")[:500], "class": "prepipe-output-lost"})
    if other:
        ctx.violation({"broken": "--prepipe run failed", "kind": "source", "args": args, "status": other[0][0], "stderr": other[0][2].decode("latin1")[-300:]}, found_input=False)


def run(ctx):
    ctx.cov["rule"] = ("(1) chains: 2..4 verbs; even-numbered cases draw only from the 17 verb invocations that have a Coq model (cat, tac, head, tail, rename, cut, cut -x, reorder, "
                       "reorder -e, fill-down, fill-down -a, put dot-assignment, cat -n, count-similar, sort -f), the others also from ~33 further type-stable verbs; inputs: 0..14 "
                       "heterogeneous records over keys id,a,b,c,x with missing and empty fields; `mlr A then B ...` vs the shell-style pipe through dkvp/json/csvlite, with "
                       "--records-per-batch 1/2/3/default; modelled chains are also compared with the Coq model (vm_compute). (2) multi-file: 1..4 files (empty files, header-only "
                       "files, differing headers) in dkvp/csv/csvlite/tsv/implicit-header/nidx, NR/FNR/FILENAME/FILENUM columns and the end block's NR compared with the Coq reader model; "
                       "the oracle checks the bookkeeping laws and `mlr f1..fn` = concatenation of `mlr fi`. (3) sources: file, stdin, --from, .gz/.bz2/.z/.zst, --gzin/--bz2in/--zin/"
                       "--zstdin, --prepipe/--prepipex/--prepipe-gunzip, batch sizes; NF mid-expression; end block context.")
    ctx.cov["trusted_base"] = ["Coq 8.16.1 kernel + vm_compute", "no axioms (Print Assumptions: closed under the global context)", "python harness (dkvp parser, file rendering)",
                               "python gzip/bz2/zlib and the zstd binary as compressors"]
    ctx.assumptions = ["goroutine scheduling of the chain is abstracted to its Kahn-network semantics (one verb's output list is the next one's input); schedules are C04's subject",
                       "`through any lossless intermediate format` is a hypothesis of C05_chain_equals_pipe (read (write s) = s); the formats' round trips are C01's subject",
                       "decompressors are not modelled (oracle: identical records from every source)", "CSV key de-duplication and ragged lines are outside the reader model",
                       "NF and the DSL are not modelled in Coq for this property (oracle only)"]
    ctx.cov["correspondence"] = {}
    forbidden_gate(ctx, ["Base", "C05"])
    ok, why = check_props(ctx, "C05/Props.v", ["C05/Harness.vo", "C05/Proofs.vo"])
    nviol = len(ctx.violations)
    tmp = tempfile.mkdtemp(prefix="verif-c05-")
    try:
        chains(ctx, ok)
        multifile(ctx, ok, tmp)
        sources(ctx, tmp)
    finally:
        shutil.rmtree(tmp, ignore_errors=True)
    if not ok and len(ctx.violations) == nviol:
        ctx.violation({"broken": why}, found_input=False)


def replay(ctx, path):
    obj = json.loads(Path(path).read_text())
    kind = obj.get("kind")
    ctx.count(("replay", 1)); ctx.count(("replay", 2))
    if kind == "chain" and "verbs" in obj:
        inp = obj["stdin"].encode()
        pre = ["--records-per-batch", obj["records_per_batch"]] if obj.get("records_per_batch") else []
        st, chained, err = mlr(ctx, pre + obj["args"], inp)
        cur = inp
        for i, argv in enumerate(obj["verbs"]):
            fin = "dkvp" if i == 0 else obj["mid"]
            fout = "dkvp" if i == len(obj["verbs"]) - 1 else obj["mid"]
            st2, cur, err = mlr(ctx, ["--i" + fin, "--o" + fout] + argv, cur)
        print("replay: chained=%r piped=%r" % (chained, cur))
        if chained != cur:
            ctx.violation(dict(obj, replayed=True))
    elif kind == "multifile":
        d = tempfile.mkdtemp(prefix="verif-c05-replay-")
        try:
            for n, body in obj["files"].items():
                Path(d, n).write_text(body)
            pre = ["--records-per-batch", obj["records_per_batch"]] if obj.get("records_per_batch") else []
            st, out, err = mlr(ctx, pre + obj["args"], cwd=d)
            print("replay: status=%s\n%s" % (st, out.decode("latin1")))
            if "observed" in obj and out.decode("latin1") == obj["observed"]:
                ctx.violation(dict(obj, replayed=True))
        finally:
            shutil.rmtree(d, ignore_errors=True)
    else:
        tmp = tempfile.mkdtemp(prefix="verif-c05-")
        try:
            sources(ctx, tmp)
        finally:
            shutil.rmtree(tmp, ignore_errors=True)
