"""C05 — then-chaining equals piping; inputs concatenate; NR/FNR/FILENAME track source (DESIGN 3/C05)."""
import bz2, gzip, json, os, shutil, tempfile, zlib
from concurrent.futures import ThreadPoolExecutor
from vlib import *
from checks import c05_batch

KEYS = ["a", "b", "c", "x"]
# values: canonical decimal integers, words, empty (the value domain of the sort -nf/-nr model)
WORDS = [b"pan", b"eks", b"wye", b"zee", b"hat", b"Pan", b"", b"3", b"17", b"4", b"100", b"-2", b"0", b"abc", b"ab", b"b", b"a"]


def cb(s):
    return coq_bytes(s if isinstance(s, bytes) else s.encode())


def gen_records(rng, n, wide=False):
    """narrow records (id + up to 4 fields) or wide ones (12..20 fields: Mlrmap builds its key index lazily from 12 fields on)"""
    recs = []
    nextra = rng.randint(11, 15) if wide else 0
    for i in range(n):
        r = [(b"id", b"r%d" % i)]
        for k in KEYS:
            if rng.random() < 0.85:
                r.append((k.encode(), rng.choice(WORDS)))
        extras = [(b"w%02d" % j, rng.choice(WORDS)) for j in range(nextra)]
        cut = rng.randint(0, len(extras)) if wide else 0
        r = r[:1] + extras[:cut] + r[1:] + extras[cut:]
        if rng.random() < 0.1:
            rng.shuffle(r)
        recs.append(r)
    return recs


def restructure_scenario(rng):
    """a verb that renames / removes / moves a field, followed by verbs that refer to the OLD and the NEW name"""
    k, k2 = rng.sample(KEYS, 2)
    new = rng.choice(["zz", "zz", k2])
    first = rng.choice([
        (["rename", f"{k},{new}"], f"(VRename {cb(k)} {cb(new)})"), (["rename", "-r", f"^{k}$,{new}"], None), (["rename", "-g", f"^{k}$,{new}"], None),
        (["cut", "-x", "-f", k], f"(VCutDrop [{cb(k)}])"), (["put", f"unset ${k}"], None),
        (["reorder", "-f", k], f"(VReorderHead {cb(k)})"), (["reorder", "-e", "-f", k], f"(VReorderTail {cb(k)})"),
    ])
    def ref():
        return rng.choice([
            (["put", f"$seen = is_present(${k})"], None), (["put", f"$seen = is_present(${new}) . is_absent(${k})"], None),
            (["cut", "-x", "-f", k], f"(VCutDrop [{cb(k)}])"), (["cut", "-x", "-f", new], f"(VCutDrop [{cb(new)}])"),
            (["reorder", "-f", k], f"(VReorderHead {cb(k)})"), (["reorder", "-e", "-f", new], f"(VReorderTail {cb(new)})"),
            (["rename", f"{new},{k}"], f"(VRename {cb(new)} {cb(k)})"), (["rename", f"{k2},{k}"], f"(VRename {cb(k2)} {cb(k)})"),
            (["put", f'${k} = ${new} . "a"'], f"(VPutDot {cb(k)} {cb(new)} {cb('a')})"), (["put", f'${new} = ${k} . "a"'], f"(VPutDot {cb(new)} {cb(k)} {cb('a')})"),
            (["cut", "-f", f"id,{k},{new}"], f"(VCutKeep [{cb('id')}; {cb(k)}; {cb(new)}])"), (["cut", "-o", "-f", f"{k},{new},id"], None),
            (["fill-down", "-f", k], f"(VFillDown false {cb(k)})"), (["sort", "-f", k], f"(VSortF {cb(k)})"), (["sort", "-nr", new], f"(VSortN true {cb(new)})"),
            (["count-similar", "-g", k], f"(VCountSimilar {cb(k)})"), (["sec2gmt", k], None), (["having-fields", "--at-least", k], None),
            (["put", f"unset ${k}"], None), (["put", f'${k} = "re"'], None), (["label", f"id,{k}"], f"(VLabel [{cb('id')}; {cb(k)}])"), (["regularize"], "VRegularize"),
        ])
    return [first] + [ref() for _ in range(rng.choice([1, 1, 2, 3]))]


def modelled_pool(rng):
    k, k2 = rng.sample(KEYS, 2)
    n = rng.choice([0, 1, 2, 3, 5, 50])
    return [
        (["cat"], "VCat"), (["tac"], "VTac"), (["head", "-n", str(n)], f"(VHead {n})"), (["tail", "-n", str(n)], f"(VTail {n})"),
        (["rename", f"{k},{k2}"], f"(VRename {cb(k)} {cb(k2)})"), (["rename", f"{k},new"], f"(VRename {cb(k)} {cb('new')})"), (["rename", f"{k},{k}"], f"(VRename {cb(k)} {cb(k)})"),
        (["cut", "-f", f"id,{k},{k2}"], f"(VCutKeep [{cb('id')}; {cb(k)}; {cb(k2)}])"), (["cut", "-x", "-f", f"{k},{k2}"], f"(VCutDrop [{cb(k)}; {cb(k2)}])"),
        (["reorder", "-f", k], f"(VReorderHead {cb(k)})"), (["reorder", "-e", "-f", k], f"(VReorderTail {cb(k)})"),
        (["fill-down", "-f", k], f"(VFillDown false {cb(k)})"), (["fill-down", "-a", "-f", k], f"(VFillDown true {cb(k)})"),
        (["put", f'${k2} = ${k} . "a"'], f"(VPutDot {cb(k2)} {cb(k)} {cb('a')})"), (["put", f'$z = ${k} . "_s"'], f"(VPutDot {cb('z')} {cb(k)} {cb('_s')})"),
        (["cat", "-n"], "VCatN"), (["count-similar", "-g", k], f"(VCountSimilar {cb(k)})"), (["sort", "-f", k], f"(VSortF {cb(k)})"),
        (["sort", "-nf", k], f"(VSortN false {cb(k)})"), (["sort", "-nr", k], f"(VSortN true {cb(k)})"),
        (["label", f"id,q,{k}"], f"(VLabel [{cb('id')}; {cb('q')}; {cb(k)}])"), (["label", "w"], f"(VLabel [{cb('w')}])"), (["regularize"], "VRegularize"),
        (["nothing"], "VNothing"),
        (["fill-empty"], f"(VFillEmpty {cb('N/A')})"), (["fill-empty", "-v", "X"], f"(VFillEmpty {cb('X')})"), (["fill-empty", "-S", "-v", "0"], f"(VFillEmpty {cb('0')})"),
        (["fill-down", "--all"], "(VFillDownAll false)"), (["fill-down", "--all", "-a"], "(VFillDownAll true)"), (["fill-down", "-a", "--all"], "(VFillDownAll true)"),
        (["cat", "-n", "-g", k], f"(VCatNG {cb(k)})"), (["tee", "tee_m.dkvp"], "VTee"),
    ]


def extra_pool(rng):
    k, k2 = rng.sample(KEYS, 2)
    return [
        (["sort", "-r", k], None), (["sort", "-f", k, "-r", k2], None), (["sort", "-c", k], None), (["unsparsify"], None),
        (["group-like"], None), (["group-by", k], None), (["fill-empty"], None), (["fill-empty", "-v", "X"], None),
        (["uniq", "-g", k], None), (["uniq", "-g", f"{k},{k2}", "-c"], None), (["count-distinct", "-f", k], None),
        (["sec2gmt", k], None), (["put", f'${k2} = toupper(${k})'], None), (["put", f'${k2} = strlen(${k} . "")'], None), (["filter", f'${k} != "pan"'], None),
        (["filter", f'is_present(${k})'], None), (["head", "-n", "1", "-g", k], None), (["tail", "-n", "1", "-g", k], None), (["top", "-n", "2", "-f", "x", "-g", k, "-a"], None),
        (["nest", "--ivar", ";", "-f", k], None), (["sort-within-records"], None), (["template", "-f", "id,a,b,c,x"], None), (["sec2gmtdate", k], None),
        (["having-fields", "--at-least", k], None), (["decimate", "-n", "2"], None), (["count", "-g", k], None), (["cat", "-N", "idx", "-g", k], None),
        (["step", "-a", "shift,counter", "-f", k], None), (["rename", "-r", "^(.)$,f_\\1"], None), (["reorder", "-f", f"{k},{k2}"], None),
        (["put", f'${k2} = ${k} + 1'], None), (["stats1", "-a", "count,mode", "-f", k, "-g", k2], None), (["count-similar", "-g", f"{k},{k2}"], None),
        (["cat", "-n", "-g", k], None), (["cat", "-n", "-N", "idx"], None), (["case", "-u", "-f", k], None), (["case", "-k", "-u", "-f", f"{k},{k2}"], None), (["case", "-s", "-v", "-f", k], None),
        (["tee", "tee_out.dkvp"], None), (["tee", "-p", "cat > tee_pipe_out.dkvp"], None), (["fill-empty", "-S"], None), (["fill-empty", "-v", "0"], None),
        (["fill-down", "--all"], None), (["sec2gmt", "-3", k], None), (["sec2gmt", "--millis", k], None),
        (["grep", "-i", "pan"], None), (["grep", "-v", "-i", "eks"], None), (["sparsify"], None), (["sparsify", "-s", "X"], None), (["utf8-to-latin1"], None),
        (["nothing"], None), (["altkv"], None), (["json-stringify", "-f", k], None),
    ]


def gen_verb(rng, modelled_only):
    return rng.choice(modelled_pool(rng) if modelled_only or rng.random() < 0.45 else extra_pool(rng))


def parse_dkvp(out):
    recs = []
    for line in out.split(b"\n"):
        if line == b"":
            continue
        rec = []
        for f in line.split(b","):
            k, _, v = f.partition(b"=")
            rec.append((k, v))
        recs.append(rec)
    return recs


def pmap(ctx, fn, jobs, workers=None, label="impl_binary"):
    workers = workers or c05_batch.par()
    with ctx.timed(label):
        with ThreadPoolExecutor(max_workers=workers) as ex:
            return list(ex.map(fn, jobs))


def mlr(ctx, args, inp=b"", cwd=None):
    st, out, err = mlr_run(ctx, args, inp, timeout=90, cwd=cwd)
    if st == "hang":
        st, out, err = mlr_run(ctx, args, inp, timeout=150, cwd=cwd)
    return st, out, err


def chain_args(chain):
    args = []
    for i, v in enumerate(chain):
        if i:
            args.append("then")
        args += v
    return args


# ------------------------------------------------------------------------------------------ chains
def chains(ctx, props_ok, tmp):
    rng = ctx.rng
    nchains = 150 if ctx.tier == "quick" else 2500
    plans = []
    for ci in range(nchains):
        modelled = ci % 3 != 2
        length = rng.choice([2, 2, 3, 3, 4])
        verbs = restructure_scenario(rng) if ci % 5 in (1, 3) else [gen_verb(rng, modelled) for _ in range(length)]
        wide = ci % 2 == 1
        recs = gen_records(rng, rng.choice([0, 1, 4, 9, 14]) if not wide else rng.choice([1, 3, 6]), wide)
        mid = rng.choice(["dkvp", "json", "csvlite", "dkvp"]) if ci % 3 else "dkvp"
        rpb = rng.choice([None, None, "1", "2", "3"])
        d = os.path.join(tmp, "ch%d" % ci)
        os.mkdir(d)
        Path(d, "in.dkvp").write_bytes(dkvp(recs))
        plans.append({"verbs": verbs, "recs": recs, "mid": mid, "rpb": rpb, "dir": d})
    # round 0: the chained runs; rounds 1..4: the pipe, stage by stage, through files in the intermediate format
    jobs = [((["--records-per-batch", p["rpb"]] if p["rpb"] else []) + chain_args([v[0] for v in p["verbs"]]) + ["in.dkvp"], p["dir"]) for p in plans]
    chained = c05_batch.run_batch(ctx, jobs)
    c05_batch.crosscheck(ctx, jobs, chained, k=4)
    for p in plans:
        p["cur"], p["pst"], p["perr"] = "in.dkvp", 0, b""
    for stage in range(4):
        live = [p for p in plans if len(p["verbs"]) > stage and p["pst"] == 0]
        sj = []
        for p in live:
            fin = "dkvp" if stage == 0 else p["mid"]
            fout = "dkvp" if stage == len(p["verbs"]) - 1 else p["mid"]
            sj.append((["--i" + fin, "--o" + fout] + p["verbs"][stage][0] + [p["cur"]], p["dir"]))
        for p, (st, out, err) in zip(live, c05_batch.run_batch(ctx, sj)):
            p["pst"], p["perr"] = st, err
            p["cur"] = "stage%d.out" % stage
            Path(p["dir"], p["cur"]).write_bytes(out)
            p["piped"] = out
    terms, meta = [], []
    for p, ch in zip(plans, chained):
        verbs, recs, mid, rpb = p["verbs"], p["recs"], p["mid"], p["rpb"]
        args = chain_args([v[0] for v in verbs])
        ctx.count(("chain", tuple(map(tuple, args)), tuple(map(tuple, recs)), mid, rpb))
        ctx.dist("chain_len:%d" % len(verbs))
        ctx.dist("chain_records:" + ("wide(12-20 fields)" if any(len(r) >= 12 for r in recs) else "narrow"))
        ctx.dist("chain_mid:" + mid)
        for v in verbs:
            ctx.dist("verb:" + v[0][0])
        desc = {"kind": "chain", "args": args, "verbs": [v[0] for v in verbs], "mid": mid, "stdin": dkvp(recs).decode(), "records_per_batch": rpb}
        if ch[0] != 0 or p["pst"] != 0:
            ctx.violation(dict(desc, broken="chain or pipe run failed", chained_status=ch[0], piped_status=p["pst"],
                               stderr=(ch[2] + p["perr"]).decode("latin1")[-600:]), found_input=False)
            continue
        # ---- oracle: then-chain == pipe
        if ch[1] != p["piped"]:
            ctx.violation(dict(desc, broken="oracle: `mlr A then B ...` differs from `mlr A | mlr B ...`", observed_chained=ch[1].decode("latin1"),
                               observed_piped=p["piped"].decode("latin1"), **{"class": "chain-differs-from-pipe:" + "+".join(v[0][0] for v in verbs)}))
        if all(v[1] for v in verbs):
            terms.append("(%s, %s, %s)" % (coq_list([v[1] for v in verbs]), coq_records(recs), coq_records(parse_dkvp(ch[1]))))
            meta.append((desc, ch[1]))
    if meta:
        ctx.sample(dict(meta[0][0], output=meta[0][1].decode("latin1")))
    if not props_ok:
        return
    with ctx.timed("coq_cases"):
        bad, err = coq_eval_mismatches(ctx, "C05chain", "Base.Record C05.Model C05.Harness", "chain_case", "chk_chain", terms, shard=len(terms) // 2 + 1)
    ctx.cov["correspondence"]["chains"] = {"cases": len(terms), "mismatches": len(bad)}
    if err:
        ctx.violation({"broken": "correspondence-evaluation C05chain", "detail": err[-2000:]}, found_input=False)
        return
    for i in bad[:3]:
        desc, out = meta[i]
        ctx.violation(dict(desc, broken="correspondence C05.Harness.chk_chain (verb/chain model and implementation differ; chain = pipe holds on this input)",
                           observed=out.decode("latin1")), found_input=False)


# ------------------------------------------------------------------------------------------ obliviousness of the implementation's verbs
def oblivious_impl(ctx, tmp):
    """a verb that does not consult the record counters gives the same output whatever NR/FNR/FILENAME/FILENUM its input carries:
    same records from one file, split over three files, and behind dropped leading records (NR shifted)"""
    rng = ctx.rng
    d = os.path.join(tmp, "obl")
    os.mkdir(d)
    plans, jobs = [], []
    pool = []
    for rep in range(2):
        pool += modelled_pool(rng) + extra_pool(rng)
    for vi, (argv, code) in enumerate(pool):
        recs = gen_records(rng, 9)
        junk = [[(b"id", b"j%d" % i), (b"a", b"junk")] for i in range(3)]
        Path(d, "w%d.dkvp" % vi).write_bytes(dkvp(recs))
        Path(d, "p%d_1.dkvp" % vi).write_bytes(dkvp(recs[:2]))
        Path(d, "p%d_2.dkvp" % vi).write_bytes(dkvp(recs[2:7]))
        Path(d, "p%d_3.dkvp" % vi).write_bytes(dkvp(recs[7:]))
        Path(d, "j%d.dkvp" % vi).write_bytes(dkvp(junk))
        variants = [argv + ["w%d.dkvp" % vi], argv + ["p%d_1.dkvp" % vi, "p%d_2.dkvp" % vi, "p%d_3.dkvp" % vi],
                    ["filter", "NR > 3", "then"] + argv + ["j%d.dkvp" % vi, "w%d.dkvp" % vi]]
        plans.append((argv, code is not None, recs))
        jobs += [(v, d) for v in variants]
    res = c05_batch.run_batch(ctx, jobs)
    nbad = 0
    for i, (argv, modelled, recs) in enumerate(plans):
        a, b, c = res[3 * i: 3 * i + 3]
        ctx.count(("oblivious", tuple(argv), tuple(map(tuple, recs))))
        ctx.dist("oblivious_checked:" + ("modelled" if modelled else "oracle-pool"))
        if a[0] != 0 or b[0] != 0 or c[0] != 0 or a[1] != b[1] or a[1] != c[1]:
            nbad += 1
            if nbad <= 2:
                ctx.violation({"broken": "oracle: a verb of the type-stable pool gives different output when only NR/FNR/FILENAME/FILENUM of its input change",
                               "kind": "oblivious", "verb": argv, "stdin": dkvp(recs).decode(), "one_file": a[1].decode("latin1"), "three_files": b[1].decode("latin1"),
                               "nr_shifted": c[1].decode("latin1"), "statuses": [a[0], b[0], c[0]], "class": "verb-not-oblivious:" + argv[0]})
    ctx.cov["oblivious_impl"] = {"verb_invocations": len(plans), "not_oblivious": nbad}


# ------------------------------------------------------------------------------------------ multi-file bookkeeping
MODES = {   # name -> (main flags, Coq mode, lite, file extension, separator)
    "dkvp": (["--idkvp"], 0, False, "dkvp", b","), "csv": (["--icsv"], 1, False, "csv", b","), "csvlite": (["--icsvlite"], 1, True, "csv", b","),
    "tsv": (["--itsv"], 1, False, "tsv", b"\t"), "implicit": (["--icsv", "--implicit-csv-header"], 2, False, "csv", b","),
    "implicit-lite": (["--icsvlite", "--implicit-csv-header"], 2, True, "csv", b","), "nidx": (["--inidx", "--ifs", " "], 3, False, "txt", b" "),
}


def gen_files(rng, mode, dedupe, ragged_flag):
    """[(name, lines)]: a line is a list of (key, value) bytes; [] is a blank line.  Returns also whether a ragged line was generated."""
    nfiles = rng.choice([1, 2, 3, 3, 4])
    files = []
    vals = [w for w in WORDS if w]
    csvlike = mode in ("csv", "csvlite", "implicit", "implicit-lite")
    for j in range(nfiles):
        nrec = rng.choice([0, 0, 1, 2, 3, 6])
        name = "f%d.%s" % (j + 1, MODES[mode][3])
        if mode == "dkvp":
            lines = []
            for i in range(nrec):
                ks = [rng.choice(KEYS) for _ in range(rng.randint(1, 4))] if rng.random() < 0.3 else rng.sample(KEYS, rng.randint(1, 4))   # duplicate keys sometimes
                lines.append([(k.encode(), rng.choice(vals)) for k in ks])
        elif mode == "nidx":
            lines = [[(b"", rng.choice(vals)) for _ in range(rng.randint(1, 4))] for _ in range(nrec)]
        else:
            w = rng.randint(1, 4)
            names = ["a", "b", "c", "x", "y", "z"]
            hdr = [rng.choice(names[:3]) for _ in range(w)] if (csvlike and rng.random() < 0.3) else rng.sample(names, w)     # duplicate header fields sometimes
            rows = []
            for i in range(nrec):
                wi = w
                if csvlike and rng.random() < 0.12:
                    wi = max(1, w + rng.choice([-1, 1, 2]))        # ragged line
                rows.append([(b"", rng.choice(vals)) for _ in range(wi)])
                if csvlike and rng.random() < 0.08:
                    rows.append([])                                  # blank line: csvlite schema change / csv one-empty-field row
                    if mode in ("csvlite",) and rng.random() < 0.8:
                        w = rng.randint(1, 4)
                        rows.append([(b"", h.encode()) for h in rng.sample(names, w)])   # the new schema's header
            if mode in ("implicit", "implicit-lite"):
                lines = rows
            else:
                header_only_or_empty = rng.random() < 0.25
                lines = [] if (nrec == 0 and header_only_or_empty) else [[(b"", h.encode()) for h in hdr]] + rows
        files.append((name, lines))
    return files


def render_file(mode, lines):
    if mode == "dkvp":
        return b"".join(b",".join(k + b"=" + v for k, v in l) + b"\n" for l in lines)
    sep = MODES[mode][4]
    return b"".join(sep.join(v for _, v in l) + b"\n" for l in lines)


CTX_PUT = '$_nr = NR; $_fnr = FNR; $_fn = FILENAME; $_fnum = FILENUM; end { emit {"_endnr": NR} }'


def split_ctx(rec):
    d = dict(rec)
    body = [(k, v) for k, v in rec if k not in (b"_nr", b"_fnr", b"_fn", b"_fnum")]
    return body, (int(d[b"_nr"]), int(d[b"_fnr"]), d[b"_fn"], int(d[b"_fnum"]))


def multifile(ctx, props_ok, tmp):
    rng = ctx.rng
    ncases = 160 if ctx.tier == "quick" else 3000
    plans, jobs = [], []
    for ci in range(ncases):
        mode = rng.choice(["dkvp", "csv", "csvlite", "tsv", "implicit", "implicit-lite", "nidx", "csv", "csvlite"])
        dedupe = rng.random() < 0.75
        ragged_flag = rng.random() < 0.5
        files = gen_files(rng, mode, dedupe, ragged_flag)
        d = os.path.join(tmp, "mf%d" % ci)
        os.mkdir(d)
        for name, lines in files:
            Path(d, name).write_bytes(render_file(mode, lines))
        rpb = rng.choice([None, "1", "2", "500"])
        pre = (["--records-per-batch", rpb] if rpb else []) + MODES[mode][0] + ([] if dedupe else ["--no-dedupe-field-names"]) + \
              (["--allow-ragged-csv-input"] if ragged_flag else []) + ["--odkvp"]
        names = [n for n, _ in files]
        plan = {"mode": mode, "files": files, "dir": d, "rpb": rpb, "pre": pre, "names": names, "dedupe": dedupe, "ragged": ragged_flag, "alone": ci % 4 == 0}
        plan["j_whole"] = len(jobs)
        jobs.append((pre + ["put", CTX_PUT] + names, d))
        if plan["alone"]:
            plan["j_together"] = len(jobs)
            jobs.append((pre + ["cat"] + names, d))
            plan["j_alone"] = []
            for n in names:
                plan["j_alone"].append(len(jobs))
                jobs.append((pre + ["cat", n], d))
        plans.append(plan)
    res = c05_batch.run_batch(ctx, jobs)
    c05_batch.crosscheck(ctx, jobs, res, k=4)
    terms, meta = [], []
    nfail = 0
    for p in plans:
        mode, files, names, rpb = p["mode"], p["files"], p["names"], p["rpb"]
        whole = res[p["j_whole"]]
        ctx.count(("multifile", mode, tuple((n, tuple(map(tuple, ls))) for n, ls in files), rpb, p["dedupe"], p["ragged"]))
        ctx.dist("multifile_mode:" + mode)
        ctx.dist("multifile_nfiles:%d" % len(files))
        ctx.dist("multifile_empty_files", sum(1 for _, ls in files if not ls))
        desc = {"kind": "multifile", "mode": mode, "args": p["pre"] + ["put", CTX_PUT] + names, "records_per_batch": rpb,
                "files": {n: render_file(mode, ls).decode() for n, ls in files}}
        if whole[0] not in (0, 1):
            ctx.violation(dict(desc, broken="multi-file run died", status=whole[0], stderr=whole[2].decode("latin1")[-500:]), found_input=False)
            continue
        fterm = coq_list(["(%s, %s)" % (cb(n), coq_list([coq_list(["(%s, %s)" % (cb(k), cb(v)) for k, v in l]) for l in ls])) for n, ls in files])
        oterm_opts = "(%d, %s, %s, %s)" % (MODES[mode][1], coq_bool(MODES[mode][2]), coq_bool(p["dedupe"]), coq_bool(p["ragged"]))
        if whole[0] == 1:
            # an error exit: legitimate only for a header/data length mismatch (the model decides)
            nfail += 1
            ctx.dist("multifile_error_exit")
            terms.append("(%s, %s, [], -1)" % (oterm_opts, fterm))
            meta.append((dict(desc, status=1, stderr=whole[2].decode("latin1")[-300:]), whole[1]))
            continue
        outs = parse_dkvp(whole[1])
        endnr = [int(dict(r)[b"_endnr"]) for r in outs if b"_endnr" in dict(r)]
        body = [split_ctx(r) for r in outs if b"_endnr" not in dict(r)]
        # ---- oracle on the implementation's own output: NR = 1..N, FNR restarts, FILENAME/FILENUM name the source, end block sees N
        ok = [c[0] for _, c in body] == list(range(1, len(body) + 1)) and endnr == [len(body)]
        per = {}
        for _, (nr_, fnr_, fn_, fnum_) in body:
            per.setdefault((fnum_, fn_), []).append(fnr_)
        for (fnum_, fn_), fnrs in per.items():
            ok = ok and fnrs == list(range(1, len(fnrs) + 1)) and 1 <= fnum_ <= len(names) and names[fnum_ - 1].encode() == fn_
        if not ok:
            ctx.violation(dict(desc, broken="oracle: NR/FNR/FILENAME/FILENUM bookkeeping", observed=whole[1].decode("latin1"), **{"class": "context-bookkeeping:" + mode}))
        if p["alone"]:
            together = res[p["j_together"]]
            alone = [res[j] for j in p["j_alone"]]
            if all(a[0] == 0 for a in alone) and (together[0] != 0 or together[1] != b"".join(a[1] for a in alone)):
                ctx.violation(dict(desc, args=p["pre"] + ["cat"] + names, broken="oracle: reading f1..fn differs from the concatenation of reading each alone",
                                   observed_together=together[1].decode("latin1"), observed_alone=[a[1].decode("latin1") for a in alone], together_status=together[0],
                                   **{"class": "inputs-do-not-concatenate:" + mode}))
        oterm = coq_list(["(%s, (%d, %d, %s, %d))" % (coq_record(r), c[0], c[1], cb(c[2]), c[3]) for r, c in body])
        terms.append("(%s, %s, %s, %d)" % (oterm_opts, fterm, oterm, endnr[0] if endnr else -2))
        meta.append((desc, whole[1]))
    ctx.cov["multifile_error_exits"] = nfail
    if meta:
        ctx.sample(dict(meta[0][0], output=meta[0][1].decode("latin1")))
    if not props_ok:
        return
    with ctx.timed("coq_cases"):
        bad, err = coq_eval_mismatches(ctx, "C05files", "Base.Record C05.Model C05.Harness", "files_case", "chk_files", terms, shard=len(terms) // 2 + 1)
    ctx.cov["correspondence"]["multi_file"] = {"cases": len(terms), "mismatches": len(bad)}
    if err:
        ctx.violation({"broken": "correspondence-evaluation C05files", "detail": err[-2000:]}, found_input=False)
        return
    for i in bad[:3]:
        desc, out = meta[i]
        if desc.get("status") == 1:
            # every file is readable on its own terms according to the model, yet the run failed: a failing input of "inputs concatenate"
            ctx.violation(dict(desc, broken="oracle + correspondence: files the reader model accepts cannot be read", observed=out.decode("latin1"),
                               **{"class": "multi-file-run-fails:" + desc["mode"]}))
        else:
            ctx.violation(dict(desc, broken="correspondence C05.Harness.chk_files (reader/context model and implementation differ)", observed=out.decode("latin1"),
                               **{"class": "multi-file-reader:" + desc["mode"]}))


# ------------------------------------------------------------------------------------------ multi-file classes, deterministic (every run)
PER_FILE_READERS = [   # (name, main flags, family, header line present in the file)
    ("csv", ["--icsv"], "sep,", True), ("csv --implicit-csv-header", ["--icsv", "--implicit-csv-header"], "sep,", False), ("csv --hi", ["--icsv", "--hi"], "sep,", False),
    ("csv --headerless-csv-input", ["--icsv", "--headerless-csv-input"], "sep,", False), ("csvlite", ["--icsvlite"], "sep,", True),
    ("csvlite --implicit-csv-header", ["--icsvlite", "--implicit-csv-header"], "sep,", False), ("tsv", ["--itsv"], "sep\t", True),
    ("tsv --implicit-tsv-header", ["--itsv", "--implicit-tsv-header"], "sep\t", False), ("pprint", ["--ipprint"], "pprint", True), ("xtab", ["--ixtab"], "xtab", True),
    ("json", ["--ijson"], "json", True), ("nidx", ["--inidx", "--ifs", " "], "nidx", False), ("dkvp", ["--idkvp"], "dkvp", True),
]
# a file = (header, rows); [] rows with a header = header-only file; None = empty file
FIXED_LAYOUTS = [
    ("later file narrower", [(["a", "b", "c"], [["1", "2", "3"], ["4", "5", "6"]]), (["a", "b"], [["7", "8"], ["9", "10"]])], False),
    ("later file wider", [(["a", "b"], [["1", "2"]]), (["a", "b", "c", "d"], [["3", "4", "5", "6"], ["7", "8", "9", "10"]])], False),
    ("empty file in the middle, then one column", [(["a", "b", "c"], [["1", "2", "3"], ["4", "5", "6"]]), None, (["x"], [["7"]])], False),
    ("empty first and last file", [None, (["a", "b"], [["1", "2"]]), None], False),
    ("same width, other header, then header-only", [(["a", "b"], [["1", "2"], ["3", "4"]]), (["b", "a"], [["5", "6"], ["7", "8"]]), (["a", "b"], [])], False),
    ("three widths 1,3,2", [(["p"], [["1"]]), (["p", "q", "r"], [["2", "3", "4"]]), (["q", "r"], [["5", "6"], ["7", "8"]])], False),
    ("ragged line in the first file", [(["a", "b", "c"], [["1", "2", "3"], ["4", "5"]]), (["a", "b"], [["6", "7"]])], True),
    ("ragged (long) line in a later file", [(["a", "b"], [["1", "2"]]), (["a", "b", "c"], [["3", "4", "5"], ["6", "7", "8", "9"]])], True),
]


def render_fixed(family, with_header, f):
    if f is None:
        return b""
    hdr, rows = f
    if family.startswith("sep"):
        sep = family[3:]
        lines = ([sep.join(hdr)] if with_header else []) + [sep.join(r) for r in rows]
    elif family == "pprint":
        lines = [" ".join(h.ljust(4) for h in hdr)] + [" ".join(v.ljust(4) for v in r) for r in rows]
    elif family == "xtab":
        return "\n".join("".join("%s %s\n" % (k, v) for k, v in zip(hdr, r)) for r in rows).encode()
    elif family == "json":
        return ("[\n" + ",\n".join(json.dumps(dict(zip(hdr, r))) for r in rows) + "\n]\n").encode() if rows else b""
    elif family == "nidx":
        lines = [" ".join(r) for r in rows]
    else:
        lines = [",".join("%s=%s" % (k, v) for k, v in zip(hdr, r)) for r in rows]
    return "".join(l + "\n" for l in lines).encode()


def multifile_fixed(ctx, tmp):
    """deterministic: for EVERY reader with per-file state (csv with header / --implicit-csv-header / --hi / --headerless-csv-input, csvlite +- implicit, tsv +- implicit,
    pprint, xtab, json, nidx, dkvp) the same fixed file lists -- later file narrower / wider, empty files first, in the middle and last, same width with another header,
    header-only file, three different widths, ragged lines with and without --allow-ragged-csv-input -- read together must equal the per-file definition: the
    concatenation of each file read alone (records, and FNR), and fail exactly when one of the files fails alone."""
    d0 = os.path.join(tmp, "mfx")
    os.mkdir(d0)
    jobs, plans = [], []
    for ri, (rname, rflags, family, with_header) in enumerate(PER_FILE_READERS):
        for li, (lname, files, ragged) in enumerate(FIXED_LAYOUTS):
            if ragged and not family.startswith("sep"):
                continue
            for allow in ([False, True] if ragged else [False]):
                d = os.path.join(d0, "r%dl%d%s" % (ri, li, "a" if allow else ""))
                os.mkdir(d)
                names = []
                for j, f in enumerate(files):
                    n = "m%d.txt" % (j + 1)
                    Path(d, n).write_bytes(render_fixed(family, with_header, f))
                    names.append(n)
                pre = rflags + (["--allow-ragged-csv-input"] if allow else []) + ["--ojsonl"]
                verb = ["put", "$_fnr = FNR"]
                plan = {"reader": rname + (" --allow-ragged-csv-input" if allow else ""), "layout": lname, "dir": d, "names": names, "pre": pre, "together": len(jobs)}
                jobs.append((pre + verb + names, d))
                plan["alone"] = []
                for n in names:
                    plan["alone"].append(len(jobs))
                    jobs.append((pre + verb + [n], d))
                plans.append(plan)
    res = c05_batch.run_batch(ctx, jobs)
    c05_batch.crosscheck(ctx, jobs, res, k=3)
    nbad = nerr = 0
    for p in plans:
        tg = res[p["together"]]
        alone = [res[j] for j in p["alone"]]
        ctx.count(("multifile-fixed", p["reader"], p["layout"]))
        ctx.dist("multifile_fixed_reader:" + p["reader"].split(" --allow")[0])
        files = {n: Path(p["dir"], n).read_bytes().decode("latin1") for n in p["names"]}
        desc = {"kind": "multifile-fixed", "reader": p["reader"], "layout": p["layout"], "args": jobs[p["together"]][0], "files": files}
        if any(a[0] not in (0, 1) for a in alone) or tg[0] not in (0, 1):
            ctx.violation(dict(desc, broken="multi-file run died", statuses=[tg[0]] + [a[0] for a in alone], stderr=tg[2].decode("latin1")[-300:]), found_input=False)
            continue
        if all(a[0] == 0 for a in alone):
            want = b"".join(a[1] for a in alone)
            if tg[0] != 0 or tg[1] != want:
                nbad += 1
                if nbad <= 3:
                    ctx.violation(dict(desc, broken="oracle: reading f1..fn (%s; %s) differs from the concatenation of reading each file alone" % (p["reader"], p["layout"]),
                                       together_status=tg[0], observed_together=tg[1].decode("latin1")[:1500], expected=want.decode("latin1")[:1500],
                                       stderr=tg[2].decode("latin1")[-300:], **{"class": "inputs-do-not-concatenate:" + p["reader"].split(" --allow")[0]}))
        else:
            nerr += 1
            first_bad = next(i for i, a in enumerate(alone) if a[0] != 0)
            want_prefix = b"".join(a[1] for a in alone[:first_bad])
            if tg[0] == 0 or not tg[1].startswith(want_prefix):
                nbad += 1
                if nbad <= 3:
                    ctx.violation(dict(desc, broken="oracle: a file that cannot be read alone (data length differs from the header's, no --allow-ragged-csv-input) must make the "
                                                    "multi-file run fail too, after the records of the files before it", together_status=tg[0],
                                       observed_together=tg[1].decode("latin1")[:1500], failing_file=p["names"][first_bad],
                                       **{"class": "ragged-error-lost-in-multi-file-run:" + p["reader"]}))
    ctx.cov["multifile_fixed"] = {"readers": len(PER_FILE_READERS), "layouts": len(FIXED_LAYOUTS), "cases": len(plans), "runs": len(jobs), "expected_error_cases": nerr, "bad": nbad}


# ------------------------------------------------------------------------------------------ contexts travel with the records; end blocks
SELECTORS = [["cat"], ["tac"], ["filter", "$x >= 2"], ["filter", "$x < 3"], ["filter", "false"], ["tail", "-n", "2"], ["tail", "-n", "1", "-g", "a"], ["head", "-n", "1", "-g", "a"],
             ["head", "-n", "2", "-g", "a"], ["sort", "-f", "a"], ["sort", "-nr", "x"], ["sort", "-f", "a", "-nr", "x"], ["grep", "-v", "pan"], ["grep", "-i", "eks"],
             ["decimate", "-n", "2"], ["nothing"], ["group-like"], ["group-by", "a"], ["uniq", "-a"], ["sec2gmt", "nosuchfield"], ["fill-down", "-f", "nosuchfield"],
             ["regularize"], ["having-fields", "--at-least", "a"], ["unsparsify", "--fill-with", "X", "-f", "a"], ["fill-empty"], ["tee", "tee.out"], ["bootstrap_placeholder"]]


def context_through_chain(ctx, tmp):
    """every record carries the context it was read with through the whole then-chain, and the end-of-stream marker carries the reader's
    final context: (1) a record-selecting/reordering verb S followed by a put that evaluates NR/FNR/FILENAME/FILENUM (unconditionally, under an
    if, in a pattern-action block, in a ternary, in a filter) labels each surviving record with ITS OWN source (closed form spec_files, computed
    here from the file layout); (2) `S then put -q 'end{...}'` sees NR = all records read, FNR = records of the last file, FILENAME/FILENUM = the
    last file, also when the last files are empty and whatever S dropped."""
    rng = ctx.rng
    nlay = 5 if ctx.tier == "quick" else 60
    sels = [s for s in SELECTORS if s[0] != "bootstrap_placeholder"]
    jobs, plans = [], []
    for li in range(nlay):
        d = os.path.join(tmp, "cx%d" % li)
        os.mkdir(d)
        nfiles = rng.choice([2, 3, 4])
        sizes = [rng.choice([0, 1, 2, 3, 5]) for _ in range(nfiles)]
        if li % 2 == 0:
            sizes[-1] = 0                      # the file list ends with an empty file
        if li % 3 == 0 and nfiles > 2:
            sizes[-2] = 0
        if sum(sizes) == 0:
            sizes[0] = 3
        names, where, rid = [], {}, 0
        for j, n in enumerate(sizes):
            name = "g%d.dkvp" % (j + 1)
            names.append(name)
            lines = []
            for i in range(n):
                rid += 1
                where[b"r%d" % rid] = (rid, i + 1, name.encode(), j + 1)
                lines.append(b"id=r%d,a=%s,x=%d" % (rid, rng.choice([b"pan", b"eks", b"wye"]), rng.randint(0, 4)))
            Path(d, name).write_bytes(b"".join(l + b"\n" for l in lines))
        total, last = rid, sizes[-1]
        for s in rng.sample(sels, 9 if ctx.tier == "quick" else len(sels)):
            k = rng.randint(0, 4)
            annots = [("always", '$_nr = NR; $_fnr = FNR; $_fn = FILENAME; $_fnum = FILENUM', lambda x: True),
                      ("if", 'if ($x >= %d) {$_fn = FILENAME; $_nr = NR; $_fnr = FNR; $_fnum = FILENUM}' % k, lambda x, k=k: x >= k),
                      ("pattern-action", '$x < %d {$_fnum = FILENUM; $_fn = FILENAME; $_fnr = FNR; $_nr = NR}' % k, lambda x, k=k: x < k),
                      ("ternary", '$_fn = $x == %d ? "none" : FILENAME; $_nr = $x == %d ? "none" : NR; $_fnr = $x == %d ? "none" : FNR; $_fnum = $x == %d ? "none" : FILENUM' % (k, k, k, k), lambda x, k=k: x != k),
                      ("elif", 'if ($x == %d) {$y = 1} elif (FILENAME != "") {$_fn = FILENAME; $_nr = NR; $_fnr = FNR; $_fnum = FILENUM}' % k, lambda x, k=k: x != k)]
            an = rng.choice(annots)
            rpb = rng.choice([[], [], ["--records-per-batch", "1"], ["--records-per-batch", "2"]])
            plans.append(("annot", s, an, names, where, d, rpb)); jobs.append((rpb + s + ["then", "put", an[1]] + names, d))
            flt = rng.choice([('FILENUM == %d' % rng.randint(1, nfiles), lambda c: c[3]), ('FNR == 1', lambda c: c[1]), ('NR %% 2 == %d' % rng.randint(0, 1), lambda c: c[0]),
                              ('FILENAME =~ "g[13]"', lambda c: c[2])])
            plans.append(("filter", s, flt, names, where, d, rpb)); jobs.append((rpb + s + ["then", "filter", flt[0]] + names, d))
            if s[0] != "head" or "-g" in s:
                endp = 'end { print NR . ":" . FNR . ":" . FILENAME . ":" . FILENUM }'
                plans.append(("end", s, "%d:%d:%s:%d" % (total, last, names[-1], nfiles), names, where, d, rpb))
                jobs.append((rpb + s + ["then", "put", "-q", endp] + names, d))
                plans.append(("end2", s, "%d:%d:%s:%d" % (total, last, names[-1], nfiles), names, where, d, rpb))
                jobs.append((rpb + ["put", "$z = NR"] + ["then"] + s + ["then", "put", "-q", 'end { emit {"e": NR . ":" . FNR . ":" . FILENAME . ":" . FILENUM} }'] + names, d))
    res = c05_batch.run_batch(ctx, jobs)
    c05_batch.crosscheck(ctx, jobs, res, k=4)
    nbad = 0
    for (kind, s, what, names, where, d, rpb), job, (st, out, err) in zip(plans, jobs, res):
        ctx.count(("context-chain", kind, tuple(job[0]), tuple(sorted(where))))
        ctx.dist("context_chain:" + kind)
        files = {n: Path(d, n).read_text() for n in names}
        desc = {"kind": "context-chain", "sub": kind, "args": job[0], "files": files}
        if st != 0:
            ctx.violation(dict(desc, broken="context-chain run failed", status=st, stderr=err.decode("latin1")[-400:]), found_input=False)
            continue
        bad = None
        if kind in ("end", "end2"):
            got = out.decode("latin1").strip().splitlines()
            if got != [("e=" if kind == "end2" else "") + what]:
                bad = {"expected": what, "observed": out.decode("latin1"), "broken": "oracle: the end block must see the reader's final NR:FNR:FILENAME:FILENUM, whatever the verbs before it dropped and "
                       "also when the file list ends with empty files", "class": "end-block-context"}
        else:
            for r in parse_dkvp(out):
                dr = dict(r)
                c = where.get(dr.get(b"id"))
                if c is None:
                    bad = {"broken": "oracle: unknown record in the output", "observed": out.decode("latin1")}
                    break
                if kind == "annot":
                    on = what[2](int(dr[b"x"]))
                    exp = (b"%d" % c[0], b"%d" % c[1], c[2], b"%d" % c[3]) if on else ((b"none",) * 4 if what[0] == "ternary" else (None,) * 4)
                    got = (dr.get(b"_nr"), dr.get(b"_fnr"), dr.get(b"_fn"), dr.get(b"_fnum"))
                    if got != exp:
                        bad = {"broken": "oracle: NR/FNR/FILENAME/FILENUM evaluated after `%s` (%s) must be those of the record's own source" % (" ".join(s), what[0]),
                               "record": dr[b"id"].decode(), "expected_nr_fnr_filename_filenum": [None if e is None else e.decode() for e in exp],
                               "observed_nr_fnr_filename_filenum": [None if e is None else e.decode("latin1") for e in got], "observed": out.decode("latin1"),
                               "class": "context-does-not-travel-with-record"}
                        break
            if kind == "filter" and not bad:
                # records surviving S are known from the run without the filter: compare with S's own output restricted by the predicate on the true contexts
                pass
        if bad:
            nbad += 1
            if nbad <= 3:
                ctx.violation(dict(desc, **bad))
    # the context-filter runs: S then filter P(ctx)  ==  the records of `S` whose own context satisfies P (S run alone gives the survivors and their order)
    jobs2 = [((pl[6] + pl[1] + pl[3]), pl[5]) for pl in plans if pl[0] == "filter"]
    res2 = c05_batch.run_batch(ctx, jobs2)
    import re as _re
    for pl, (st, out, err), (st2, out2, err2) in zip([p for p in plans if p[0] == "filter"], [r for p, r in zip(plans, res) if p[0] == "filter"], res2):
        kind, s, (pred, proj), names, where, d, rpb = pl
        if st != 0 or st2 != 0:
            continue
        def holds(c):
            if pred.startswith("FILENUM"):
                return c[3] == int(pred.split("==")[1])
            if pred.startswith("FNR"):
                return c[1] == 1
            if pred.startswith("NR"):
                return c[0] % 2 == int(pred.split("==")[1])
            return _re.search(b"g[13]", c[2]) is not None
        exp = [r for r in parse_dkvp(out2) if dict(r).get(b"id") in where and holds(where[dict(r)[b"id"]])]
        if parse_dkvp(out) != exp and nbad < 3:
            nbad += 1
            ctx.violation({"kind": "context-chain", "sub": "filter", "args": rpb + s + ["then", "filter", pred] + names, "files": {n: Path(d, n).read_text() for n in names},
                           "broken": "oracle: `S then filter <predicate on NR/FNR/FILENAME/FILENUM>` must keep exactly the records of S whose own source satisfies the predicate",
                           "observed": out.decode("latin1"), "expected": dkvp(exp).decode("latin1"), "class": "context-does-not-travel-with-record"})
    ctx.cov["context_through_chain"] = {"runs": len(jobs) + len(jobs2), "bad": nbad}
    # head's early exit: the reader may stop before later files are opened; whatever it reached, the end block's context is a reader state:
    # NR = records of the files before FILENUM + FNR, FNR <= size of file FILENUM, FILENAME = name of file FILENUM
    d = os.path.join(tmp, "cxh")
    os.mkdir(d)
    sizes = [3, 0, 4, 2]
    for j, n in enumerate(sizes):
        Path(d, "h%d.dkvp" % (j + 1)).write_bytes(b"".join(b"id=%d_%d,x=%d\n" % (j, i, i) for i in range(n)))
    names = ["h%d.dkvp" % (j + 1) for j in range(len(sizes))]
    hj = [((rp + ["head", "-n", str(n), "then", "put", "-q", 'end { print NR . ":" . FNR . ":" . FILENAME . ":" . FILENUM }'] + names), d)
          for n in (0, 1, 4, 9, 20) for rp in ([], ["--records-per-batch", "1"])]
    seen = []
    for (args, _), (st, out, err) in zip(hj, c05_batch.run_batch(ctx, hj)):
        ctx.count(("head-early-exit", tuple(args)))
        got = out.decode("latin1").strip()
        seen.append(got)
        try:
            nr_, fnr_, fn_, fnum_ = got.split(":")
            nr_, fnr_, fnum_ = int(nr_), int(fnr_), int(fnum_)
            n = int(args[args.index("-n") + 1])
            ok = st == 0 and 1 <= fnum_ <= len(sizes) and fn_ == names[fnum_ - 1] and 0 <= fnr_ <= sizes[fnum_ - 1] and fnr_ <= nr_ <= sum(sizes[:fnum_ - 1]) + fnr_ and nr_ >= min(n, sum(sizes))
        except Exception:
            ok = False
        if not ok:
            ctx.violation({"kind": "context-chain", "sub": "head-early-exit", "args": args, "files": {n_: Path(d, n_).read_text() for n_ in names}, "observed": got, "status": st,
                           "broken": "oracle: after head's early exit the end block's NR:FNR:FILENAME:FILENUM must still be a state the reader went through "
                                     "(FNR <= NR <= records of earlier files + FNR -- the reader skips the rest of a file once head is satisfied --, FILENAME = file number FILENUM, at least the records head let through)", "class": "end-block-context"})
            break
    ctx.cov["head_early_exit_end_contexts"] = seen


# ------------------------------------------------------------------------------------------ inputs concatenate, every format / spelling / compression
def concat_sources(ctx, tmp):
    """reading a b (c) yields the concatenation of reading each alone, for every input format, for every way of naming the files
    (positional, --from a --from b, --mfrom a b --, --files listfile), for plain and compressed files mixed in one invocation, and -- for the
    formats without a per-file header -- equals reading the concatenated bytes (`cat a b | mlr`); -n reads nothing; seqgen as a source chains like a pipe."""
    rng = ctx.rng
    d = os.path.join(tmp, "cat")
    os.mkdir(d)
    def recs(n, keys):
        return [[(k.encode(), rng.choice([b"pan", b"eks", b"3", b"17", b"0.5", b"x y"])) for k in keys] for _ in range(n)]
    def render(fmt, rs):
        if fmt == "dkvp":
            return dkvp(rs)
        if fmt == "nidx":
            return b"".join(b" ".join(v.replace(b" ", b"_") for _, v in r) + b"\n" for r in rs)
        if fmt in ("json", "jsonl"):
            docs = [json.dumps({k.decode(): v.decode() for k, v in r}) for r in rs]
            return ("[\n" + ",\n".join(docs) + "\n]\n").encode() if (fmt == "json" and rng.random() < 0.5) else ("\n".join(docs) + ("\n" if docs else "")).encode()
        if fmt in ("csv", "csvlite", "tsv"):
            sep = b"\t" if fmt == "tsv" else b","
            if not rs:
                return b""
            return sep.join(k for k, _ in rs[0]) + b"\n" + b"".join(sep.join(v for _, v in r) + b"\n" for r in rs)
        if fmt == "xtab":
            return b"\n".join(b"".join(k + b" " + v.replace(b" ", b"_") + b"\n" for k, v in r) for r in rs)
        if fmt == "implicit":
            return b"".join(b",".join(v for _, v in r) + b"\n" for r in rs)
        raise ValueError(fmt)
    FL = {"dkvp": ["--idkvp"], "nidx": ["--inidx", "--ifs", " "], "json": ["--ijson"], "jsonl": ["--ijsonl"], "csv": ["--icsv"], "csvlite": ["--icsvlite"], "tsv": ["--itsv"],
          "xtab": ["--ixtab"], "implicit": ["--icsv", "--implicit-csv-header"]}
    HEADERLESS = ("dkvp", "nidx", "json", "jsonl", "implicit")
    jobs, plans = [], []
    for fmt in FL:
        for rep in range(2 if ctx.tier == "quick" else 10):
            sub = os.path.join(d, "%s%d" % (fmt, rep))
            os.mkdir(sub)
            nf = rng.choice([2, 3])
            keysets = [rng.sample(["a", "b", "c", "x"], rng.randint(1, 3)) for _ in range(nf)]
            if fmt in ("implicit", "nidx") or rng.random() < 0.4:
                keysets = [keysets[0]] * nf
            sizes = [rng.choice([0, 1, 2, 4]) for _ in range(nf)]
            if fmt == "xtab":
                sizes = [max(1, z) for z in sizes]
            names = []
            for j in range(nf):
                n = "p%d.%s" % (j + 1, fmt)
                Path(sub, n).write_bytes(render(fmt, recs(sizes[j], keysets[j])))
                names.append(n)
            Path(sub, "all.bin").write_bytes(b"".join(Path(sub, n).read_bytes() for n in names))
            Path(sub, "list.txt").write_text("".join(n + "\n" for n in names))
            comp = []
            for j, n in enumerate(names):
                raw = Path(sub, n).read_bytes()
                kind = ["gz", "bz2", "z", "plain"][(j + rep) % 4]
                cn = n + {"gz": ".gz", "bz2": ".bz2", "z": ".z", "plain": ""}[kind]
                if kind != "plain":
                    Path(sub, cn).write_bytes({"gz": gzip.compress, "bz2": bz2.compress, "z": zlib.compress}[kind](raw))
                comp.append(cn)
            pre = FL[fmt] + ["--ojsonl"]
            verb = ["put", "$_fnr = FNR; $_nr = NR; $_k = FILENUM"]
            plan = {"fmt": fmt, "dir": sub, "names": names, "j": {}}
            def add(tag, args):
                plan["j"][tag] = len(jobs); jobs.append((args, sub))
            add("positional", pre + ["cat"] + names)
            add("--from", pre + sum([["--from", n] for n in names], []) + ["cat"])
            add("--mfrom", pre + ["--mfrom"] + names + ["--", "cat"])
            add("--files", pre + ["--files", "list.txt", "cat"])
            add("mixed-compression", pre + ["cat"] + comp)
            add("then-chain", pre + ["cat", "then", "cat", "-n", "then", "cut", "-x", "-f", "n"] + names)
            for j, n in enumerate(names):
                add("alone%d" % j, pre + ["cat", n])
            if fmt in HEADERLESS:
                add("concatenated-bytes", pre + ["cat", "all.bin"])
            add("-n", pre + ["-n", "--from", names[0], "put", "-q", 'end { print "NR=" . NR }'])
            add("ctx", pre + verb + names)
            add("ctx-comp", pre + verb + comp)
            plans.append(plan)
    res = c05_batch.run_batch(ctx, jobs)
    c05_batch.crosscheck(ctx, jobs, res, k=4)
    nbad = 0
    for p in plans:
        g = lambda tag: res[p["j"][tag]]
        files = {n: Path(p["dir"], n).read_bytes().decode("latin1") for n in p["names"]}
        alone = [g("alone%d" % j) for j in range(len(p["names"]))]
        ctx.count(("concat", p["fmt"], tuple(files.items())))
        ctx.dist("concat_format:" + p["fmt"])
        if any(a[0] != 0 for a in alone):
            ctx.violation({"kind": "concat", "broken": "a generated file cannot be read alone (generator)", "format": p["fmt"], "files": files,
                           "stderr": b"".join(a[2] for a in alone).decode("latin1")[-400:]}, found_input=False)
            continue
        want = b"".join(a[1] for a in alone)
        for tag in ("positional", "--from", "--mfrom", "--files", "mixed-compression", "then-chain", "concatenated-bytes"):
            if tag not in p["j"]:
                continue
            st, out, err = g(tag)
            if st != 0 or out != want:
                nbad += 1
                if nbad <= 3:
                    ctx.violation({"kind": "concat", "sub": tag, "format": p["fmt"], "args": jobs[p["j"][tag]][0], "files": files, "status": st,
                                   "broken": "oracle: reading the files (%s) differs from the concatenation of reading each alone" % tag,
                                   "observed": out.decode("latin1")[:2000], "expected": want.decode("latin1")[:2000], "stderr": err.decode("latin1")[-300:],
                                   "class": "inputs-do-not-concatenate:%s:%s" % (p["fmt"], tag)})
        st, out, err = g("-n")
        if st != 0 or out.strip() != b"NR=0":
            ctx.violation({"kind": "concat", "sub": "-n", "format": p["fmt"], "args": jobs[p["j"]["-n"]][0], "files": files, "observed": out.decode("latin1"), "status": st,
                           "broken": "oracle: -n must read no input at all (the end block sees NR=0), also with --from", "class": "dash-n-reads-input"})
        if g("ctx")[0] != 0 or g("ctx")[1] != g("ctx-comp")[1]:
            ctx.violation({"kind": "concat", "sub": "ctx-comp", "format": p["fmt"], "args": jobs[p["j"]["ctx-comp"]][0], "files": files,
                           "broken": "oracle: NR/FNR/FILENUM of the records differ between plain and compressed copies of the same files",
                           "observed": g("ctx-comp")[1].decode("latin1")[:1500], "expected": g("ctx")[1].decode("latin1")[:1500], "class": "inputs-do-not-concatenate:compressed-contexts"})
    ctx.cov["concat_sources"] = {"layouts": len(plans), "runs": len(jobs), "bad": nbad}
    # seqgen as the record source: chain == pipe for verbs that do not consult the counters
    sj = []
    tails = [["put", "$y = $i . \"a\""], ["tac"], ["head", "-n", "3"], ["filter", "$i % 2 == 1"], ["cat", "-n"], ["sort", "-nr", "i"], ["nothing"], ["fill-empty"], ["sec2gmt", "i"]]
    for t in tails:
        sj.append((["seqgen", "--start", "1", "--stop", "7", "then"] + t, d))
        sj.append((["seqgen", "-f", "i", "--start", "1", "--stop", "7"], d))
    sres = c05_batch.run_batch(ctx, sj)
    Path(d, "seq.dkvp").write_bytes(sres[1][1])
    pres = c05_batch.run_batch(ctx, [(t + ["seq.dkvp"], d) for t in tails])
    for t, ch, pi in zip(tails, sres[0::2], pres):
        ctx.count(("seqgen-chain", tuple(t)))
        if ch[0] != 0 or pi[0] != 0 or ch[1] != pi[1]:
            ctx.violation({"kind": "concat", "sub": "seqgen", "args": ["seqgen", "--start", "1", "--stop", "7", "then"] + t, "files": {},
                           "broken": "oracle: `mlr seqgen ... then B` differs from `mlr seqgen ... | mlr B`", "observed_chained": ch[1].decode("latin1"),
                           "observed_piped": pi[1].decode("latin1"), "class": "chain-differs-from-pipe:seqgen+" + t[0]})


# ------------------------------------------------------------------------------------------ input sources, NF, end block
def sources(ctx, tmp):
    rng = ctx.rng
    recs = gen_records(rng, 40)
    data = dkvp(recs)
    d = os.path.join(tmp, "src")
    os.mkdir(d)
    Path(d, "plain.dkvp").write_bytes(data)
    Path(d, "data.dkvp.gz").write_bytes(gzip.compress(data))
    Path(d, "data.dkvp.bz2").write_bytes(bz2.compress(data))
    Path(d, "data.dkvp.z").write_bytes(zlib.compress(data))
    Path(d, "gz.bin").write_bytes(gzip.compress(data))
    Path(d, "bz2.bin").write_bytes(bz2.compress(data))
    Path(d, "z.bin").write_bytes(zlib.compress(data))
    have_zstd = shutil.which("zstd") is not None
    if have_zstd:
        rc, out, err = sh(["zstd", "-q", "-c", os.path.join(d, "plain.dkvp")], binary=True)
        have_zstd = rc == 0
        if have_zstd:
            Path(d, "data.dkvp.zst").write_bytes(out)
            Path(d, "zst.bin").write_bytes(out)
    prog = ["put", '$nr = NR; $fnr = FNR']
    # (name, args, stdin or None when the job can go through the batch driver)
    variants = [("file", prog + ["plain.dkvp"], None), ("stdin", prog, data), ("--from", ["--from", "plain.dkvp"] + prog, None),
                ("ext .gz", prog + ["data.dkvp.gz"], None), ("ext .bz2", prog + ["data.dkvp.bz2"], None), ("ext .z", prog + ["data.dkvp.z"], None),
                ("--gzin", ["--gzin"] + prog + ["gz.bin"], None), ("--bz2in", ["--bz2in"] + prog + ["bz2.bin"], None), ("--zin", ["--zin"] + prog + ["z.bin"], None),
                ("--gzin stdin", ["--gzin"] + prog, gzip.compress(data)), ("--bz2in stdin", ["--bz2in"] + prog, bz2.compress(data)),
                ("--prepipe gunzip", ["--prepipe", "gunzip"] + prog + ["gz.bin"], b""), ("--prepipex 'gunzip <'", ["--prepipex", "gunzip <"] + prog + ["gz.bin"], b""),
                ("--prepipe-gunzip", ["--prepipe-gunzip"] + prog + ["gz.bin"], b""), ("--prepipe cat", ["--prepipe", "cat"] + prog + ["plain.dkvp"], b""),
                ("--records-per-batch 1", ["--records-per-batch", "1"] + prog + ["plain.dkvp"], None), ("--records-per-batch 7", ["--records-per-batch", "7"] + prog + ["plain.dkvp"], None),
                ("--prepipe gunzip (batch driver)", ["--prepipe", "gunzip"] + prog + ["gz.bin"], None)]
    if have_zstd:
        variants += [("ext .zst", prog + ["data.dkvp.zst"], None), ("--zstdin", ["--zstdin"] + prog + ["zst.bin"], None)]
    else:
        ctx.cov["zstd"] = "zstd binary absent: .zst / --zstdin variants skipped"
    bidx = [i for i, v in enumerate(variants) if v[2] is None]
    bres = c05_batch.run_batch(ctx, [(variants[i][1], d) for i in bidx])
    pidx = [i for i, v in enumerate(variants) if v[2] is not None]
    pres = pmap(ctx, lambda i: mlr(ctx, variants[i][1], variants[i][2], cwd=d), pidx)
    results = [None] * len(variants)
    for i, r in zip(bidx, bres):
        results[i] = r
    for i, r in zip(pidx, pres):
        results[i] = r
    want = b"".join(line + b",nr=%d,fnr=%d\n" % (i + 1, i + 1) for i, line in enumerate(data.split(b"\n")[:-1]))
    for (name, args, inp), (st, out, err) in zip(variants, results):
        ctx.count(("source", name))
        ctx.dist("source:" + name)
        if st != 0 or out != want:
            lost = name.startswith("--prepipe") and st == 0 and want.startswith(out)
            ctx.violation({"broken": "oracle: the same records must arrive whatever the input source", "kind": "source", "source": name, "args": args,
                           "stdin_hex": (inp or b"").hex(), "files": "plain.dkvp = data; gz.bin/bz2.bin/z.bin/zst.bin and data.dkvp.{gz,bz2,z,zst} = data compressed",
                           "data": data.decode(), "status": st, "observed": out.decode("latin1")[:3000], "stderr": err.decode("latin1")[-300:],
                           "expected": want.decode()[:3000], "class": "prepipe-output-lost" if lost else "input-source:" + name})
    prepipe_race(ctx, d, data, want)
    # NF mid-expression
    nf_prog = '$nf1 = NF; $new = 1; $nf2 = NF; unset $new; $nf3 = NF; unset $nf1; $nf4 = NF'
    end_prog = 'end { print NR . ":" . FNR . ":" . FILENAME . ":" . FILENUM }'
    r_nf, r_end, r_n = c05_batch.run_batch(ctx, [(["put", nf_prog, "plain.dkvp"], d), (["put", "-q", end_prog, "plain.dkvp", "data.dkvp.gz", "data.dkvp.bz2"], d),
                                                 (["-n", "put", "-q", 'end { print NR . ":" . FNR . ":" . FILENUM }'], d)])
    st, out, err = r_nf
    ctx.count(("nf",))
    bad = None
    for r_in, r_out in zip(recs, parse_dkvp(out)):
        n = len(r_in)
        d_out = dict(r_out)
        got = (d_out.get(b"nf2"), d_out.get(b"nf3"), d_out.get(b"nf4"), len(r_out))
        exp = (b"%d" % (n + 2), b"%d" % (n + 2), b"%d" % (n + 2), n + 3)
        if got != exp:
            bad = (r_in, r_out, exp)
            break
    if st != 0 or bad or len(parse_dkvp(out)) != len(recs):
        ctx.violation({"broken": "oracle: NF equals the current field count mid-expression", "kind": "nf", "args": ["put", nf_prog], "stdin": data.decode(),
                       "observed": out.decode("latin1")[:2000], "first_bad": repr(bad), "class": "nf-mid-expression"})
    ctx.cov["end_block_mlr_-n"] = r_n[1].decode().strip()
    ctx.count(("endblock",))
    want_end = "%d:%d:data.dkvp.bz2:3" % (3 * len(recs), len(recs))
    if r_end[1].decode().strip() != want_end:
        ctx.violation({"broken": "oracle: the end block sees the final NR/FNR/FILENAME/FILENUM", "kind": "endblock", "args": ["put", "-q", end_prog], "data": data.decode(),
                       "observed": r_end[1].decode(), "expected": want_end, "class": "end-block-context"})


def prepipe_race(ctx, d, data, want):
    """the prepipe child can exit before its output has been read (repaired in /repo 8dd49cc3e): the same prepipe'd input, 40 times through the mlr binary"""
    n = 40 if ctx.tier == "quick" else 400
    args = ["--prepipe", "cat", "put", '$nr = NR; $fnr = FNR', "plain.dkvp"]
    results = pmap(ctx, lambda i: mlr(ctx, args, b"", cwd=d), range(n), label="impl_prepipe_40")
    short = [(st, out) for st, out, err in results if st == 0 and out != want]
    other = [(st, out, err) for st, out, err in results if st != 0]
    for i in range(n):
        ctx.count(("prepipe-race", i), nontrivial=(i == 0))
    ctx.cov["prepipe_race"] = {"runs": n, "runs_with_records_missing_and_exit_0": len(short), "runs_failing": len(other)}
    if short:
        st, out = short[0]
        ctx.violation({"broken": "oracle: records read through --prepipe are silently lost (exit 0) in some runs", "kind": "source", "source": "--prepipe cat (repeated)",
                       "args": args, "data": data.decode(), "stdin_hex": "", "runs": n, "runs_short": len(short), "observed_records": out.count(b"\n"),
                       "expected_records": want.count(b"\n"), "observed": out.decode("latin1")[:500], "expected": want.decode()[:3000], "class": "prepipe-output-lost"})
    if other:
        ctx.violation({"broken": "--prepipe run failed", "kind": "source", "args": args, "status": other[0][0], "stderr": other[0][2].decode("latin1")[-300:]}, found_input=False)


def run(ctx):
    ctx.cov["rule"] = ("(1) chains: 2..4 verbs; two thirds of the cases draw only from the 24 verb invocations that have a Coq model (cat, tac, head, tail, rename incl. a,a, cut, cut -x, "
                       "reorder, reorder -e, fill-down, fill-down -a, put dot-assignment, cat -n, count-similar, sort -f/-nf/-nr, label, regularize, nothing), the others also from ~33 "
                       "further type-stable verbs; inputs: 0..14 heterogeneous records over keys id,a,b,c,x with missing and empty fields, values canonical integers/words/empty; "
                       "half of the cases on WIDE records of 12..20 fields (Mlrmap's lazily built key index), two fifths of the chains are restructure-then-refer scenarios (rename / rename -r / unset / cut -x / reorder followed by verbs naming the old and the new field: is_present, cut -x, reorder, rename back, assignments, sort, label ...); `mlr A then B ...` vs the shell-style pipe through dkvp/json/csvlite files, with --records-per-batch 1/2/3/default; modelled chains are also compared with "
                       "the Coq model (vm_compute). (2) obliviousness of every pool verb: one file vs three files vs NR shifted by dropped records. (3) multi-file: 1..4 files "
                       "(empty, header-only, differing headers, duplicate header fields, duplicate dkvp keys, ragged lines with and without --allow-ragged-csv-input, blank lines "
                       "= csvlite schema change / csv one-empty-field row, --no-dedupe-field-names) in dkvp/csv/csvlite/tsv/implicit header (csv and csvlite)/nidx; NR/FNR/FILENAME/"
                       "FILENUM columns and the end block's NR, or the error exit, compared with the Coq reader model; bookkeeping laws and `mlr f1..fn` = concatenation of `mlr fi`. "
                       "(3b) DETERMINISTIC multi-file classes on every run: 13 readers with per-file state (csv, csv --implicit-csv-header / --hi / --headerless-csv-input, csvlite +- implicit, tsv +- implicit, "
                       "pprint, xtab, json, nidx, dkvp) x 8 fixed file lists (later file narrower / wider, empty files first / middle / last, other header, header-only file, three widths, ragged lines "
                       "with and without --allow-ragged-csv-input) against the per-file definition (concatenation of each file alone incl. FNR; failure exactly when a file fails alone). "
                       "(4) sources: file, stdin, --from, .gz/.bz2/.z/.zst, --gzin/--bz2in/--zin/--zstdin (also on stdin), --prepipe/--prepipex/--prepipe-gunzip, batch sizes; 40 "
                       "repetitions of a --prepipe run; NF mid-expression; end block context. Most runs go through implrun mlr-batch (real ParseCommandLine + stream.Stream in one "
                       "process), a sample is re-run through the mlr binary; stdin and prepipe variants always use the binary.")
    ctx.cov["trusted_base"] = ["Coq 8.16.1 kernel + vm_compute", "no axioms (Print Assumptions: closed under the global context)", "python harness (dkvp parser, file rendering)",
                               "implrun mlr-batch (entrypoint.Main's process wrapper replaced; crosschecked against the binary on every run)",
                               "python gzip/bz2/zlib and the zstd binary as compressors"]
    ctx.assumptions = ["goroutine scheduling of the chain is abstracted to its Kahn-network semantics (one verb's output list is the next one's input); schedules are C04's subject",
                       "`through any lossless intermediate format` is a hypothesis of C05_chain_equals_pipe (read (write s) = s); the formats' round trips are C01's subject",
                       "decompressors are not modelled (oracle: identical records from every source)",
                       "the Coq verb models are context-free by construction (C05_modelled_verbs_are_oblivious); that the Go verbs are is checked by the shifted-context runs",
                       "NF and the DSL are not modelled in Coq for this property (oracle only)", "TSV reader: only well-formed files (no ragged/duplicate/blank lines)"]
    ctx.cov["correspondence"] = {}
    forbidden_gate(ctx, ["Base", "C05"])
    ok, why = check_props(ctx, "C05/Props.v", ["C05/Harness.vo", "C05/Proofs.vo", "C05/CtxProofs.vo"])
    nviol = len(ctx.violations)
    tmp = tempfile.mkdtemp(prefix="verif-c05-")
    try:
        chains(ctx, ok, tmp)
        oblivious_impl(ctx, tmp)
        multifile(ctx, ok, tmp)
        multifile_fixed(ctx, tmp)
        context_through_chain(ctx, tmp)
        concat_sources(ctx, tmp)
        sources(ctx, tmp)
    finally:
        shutil.rmtree(tmp, ignore_errors=True)
    if not ok and len(ctx.violations) == nviol:
        ctx.violation({"broken": why}, found_input=False)


def replay(ctx, path):
    """re-run the stored input through the mlr BINARY and report again if it still fails"""
    obj = json.loads(Path(path).read_text())
    kind = obj.get("kind")
    ctx.count(("replay", 1)); ctx.count(("replay", 2))
    d = tempfile.mkdtemp(prefix="verif-c05-replay-")
    try:
        if kind == "chain":
            inp = obj["stdin"].encode()
            pre = ["--records-per-batch", obj["records_per_batch"]] if obj.get("records_per_batch") else []
            st, chained, err = mlr(ctx, pre + obj["args"], inp)
            cur, st2 = inp, 0
            for i, argv in enumerate(obj["verbs"]):
                fin = "dkvp" if i == 0 else obj["mid"]
                fout = "dkvp" if i == len(obj["verbs"]) - 1 else obj["mid"]
                st2, cur, err = mlr(ctx, ["--i" + fin, "--o" + fout] + argv, cur)
                if st2 != 0:
                    break
            print("replay: chained status=%s %r\n        piped status=%s %r" % (st, chained, st2, cur))
            if "observed_chained" in obj:
                if chained != cur:
                    ctx.violation(dict(obj, replayed=True))
            elif "observed" in obj:
                if st == 0 and chained.decode("latin1") == obj["observed"]:
                    ctx.violation(dict(obj, replayed=True), found_input=False)    # model/implementation difference still there
            elif st != 0 or st2 != 0:
                ctx.violation(dict(obj, replayed=True), found_input=False)
        elif kind == "oblivious":
            recs = parse_dkvp(obj["stdin"].encode())
            Path(d, "w.dkvp").write_bytes(dkvp(recs))
            for i, part in enumerate((recs[:2], recs[2:7], recs[7:])):
                Path(d, "p%d.dkvp" % (i + 1)).write_bytes(dkvp(part))
            a = mlr(ctx, obj["verb"] + ["w.dkvp"], cwd=d)
            b = mlr(ctx, obj["verb"] + ["p1.dkvp", "p2.dkvp", "p3.dkvp"], cwd=d)
            print("replay: one file %r\n        three files %r" % (a[1], b[1]))
            if a[0] != 0 or b[0] != 0 or a[1] != b[1]:
                ctx.violation(dict(obj, replayed=True))
        elif kind == "multifile":
            for n, body in obj["files"].items():
                Path(d, n).write_text(body)
            st, out, err = mlr(ctx, obj["args"], cwd=d)
            print("replay: status=%s\n%s%s" % (st, out.decode("latin1"), err.decode("latin1")))
            if "observed_together" in obj:
                alone = [mlr(ctx, obj["args"][:-len(obj["files"])] + [n], cwd=d) for n in obj["args"][-len(obj["files"]):]]
                if st != 0 or out != b"".join(a[1] for a in alone):
                    ctx.violation(dict(obj, replayed=True))
            elif obj.get("status") == 1:
                if st != 0:
                    ctx.violation(dict(obj, replayed=True))
            elif out.decode("latin1") == obj.get("observed"):
                ctx.violation(dict(obj, replayed=True))
        elif kind == "source":
            data = obj["data"].encode()
            Path(d, "plain.dkvp").write_bytes(data)
            for n, comp in (("gz", gzip.compress), ("bz2", bz2.compress), ("z", zlib.compress)):
                Path(d, "data.dkvp." + n).write_bytes(comp(data))
                Path(d, n + ".bin").write_bytes(comp(data))
            if shutil.which("zstd"):
                rc, out, err = sh(["zstd", "-q", "-c", os.path.join(d, "plain.dkvp")], binary=True)
                Path(d, "data.dkvp.zst").write_bytes(out); Path(d, "zst.bin").write_bytes(out)
            runs = obj.get("runs", 1)
            res = pmap(ctx, lambda i: mlr(ctx, obj["args"], bytes.fromhex(obj.get("stdin_hex", "")), cwd=d), range(runs))
            badn = sum(1 for st, out, err in res if st != 0 or out.decode("latin1")[:3000] != obj["expected"][:3000])
            print("replay: %d of %d runs differ from the expected records" % (badn, runs))
            if badn:
                ctx.violation(dict(obj, replayed=True, runs_bad_now=badn))
        elif kind == "multifile-fixed":
            for n, body in obj["files"].items():
                Path(d, n).write_bytes(body.encode("latin1"))
            names = list(obj["files"].keys())
            pre = obj["args"][:-len(names)]
            st, out, err = mlr(ctx, obj["args"], cwd=d)
            alone = [mlr(ctx, pre + [n], cwd=d) for n in names]
            print("replay: together status=%s\n%s%s" % (st, out.decode("latin1"), err.decode("latin1")))
            if all(a[0] == 0 for a in alone):
                if st != 0 or out != b"".join(a[1] for a in alone):
                    ctx.violation(dict(obj, replayed=True))
            elif st == 0:
                ctx.violation(dict(obj, replayed=True))
        elif kind == "context-chain":
            for n, body in obj["files"].items():
                Path(d, n).write_text(body)
            st, out, err = mlr(ctx, obj["args"], cwd=d)
            print("replay: status=%s\n%s%s" % (st, out.decode("latin1"), err.decode("latin1")))
            if "expected" in obj and obj.get("sub") in ("end", "end2", "filter"):
                if st != 0 or out.decode("latin1").strip() != ("e=" if obj.get("sub") == "end2" else "") + obj["expected"].strip():
                    ctx.violation(dict(obj, replayed=True))
            elif st != 0 or out.decode("latin1").strip() == obj.get("observed", "").strip():
                ctx.violation(dict(obj, replayed=True))
        elif kind in ("nf", "endblock"):
            tmp = tempfile.mkdtemp(prefix="verif-c05-")
            try:
                sources(ctx, tmp)
            finally:
                shutil.rmtree(tmp, ignore_errors=True)
        else:
            print("replay: nothing replayable in", path)
    finally:
        shutil.rmtree(d, ignore_errors=True)
