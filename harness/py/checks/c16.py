"""C16 — time conversion functions agree with the Gregorian/IANA calendar (DESIGN 3/C16)."""
import datetime, json, math, re, struct
from vlib import *

ZONES = ["Asia/Istanbul", "America/Sao_Paulo", "Asia/Kolkata", "America/New_York", "Australia/Lord_Howe",
         "Europe/London", "Asia/Kathmandu", "Pacific/Apia"]
WIN = (1900, 2037)
LO, HI = -62135596800, 253402300799          # 0001-01-01T00:00:00Z .. 9999-12-31T23:59:59Z
ERR = "(error)"


# ------------------------------------------------------------------ zone tables regenerated from the Go tzdata
def gen_zones(ctx):
    rc, out, err = sh([ctx.implrun(), "zones", str(WIN[0]), str(WIN[1])] + ZONES)
    if rc != 0:
        raise RuntimeError("implrun zones failed: " + err[-500:])
    zones, cur = [], None
    for l in out.splitlines():
        p = l.split()
        if p[0] == "zone":
            cur = {"name": p[1], "base": int(p[2]), "trans": []}
        elif p[0] == "t":
            off = int(p[2])
            prev = cur["trans"][-1][1] if cur["trans"] else cur["base"]
            if off != prev:
                cur["trans"].append((int(p[1]), off))
        elif p[0] == "end":
            zones.append(cur)
        else:
            raise RuntimeError("implrun zones: " + l)
    if [z["name"] for z in zones] != ZONES:
        raise RuntimeError("implrun zones: missing zone")
    lo = int(datetime.datetime(WIN[0], 1, 1, tzinfo=datetime.timezone.utc).timestamp())
    hi = int(datetime.datetime(WIN[1], 1, 1, tzinfo=datetime.timezone.utc).timestamp())
    body = ["(* REGENERATED on every run from the tzdata the Go runtime resolves (implrun zones: time.LoadLocation +",
            "   Time.ZoneBounds walked over the window %d..%d). *)" % WIN,
            "From Miller Require Import Base.Bytes C16.Model.", "Open Scope Z_scope.",
            "Definition gen_zone_names : list bytes := [" + "; ".join(coq_bytes(z["name"]) for z in zones) + "].",
            "Definition gen_zones : list ztable := ["]
    zs = []
    for z in zones:
        zs.append("  {| z_base := %s; z_trans := [%s] |}" % (coq_z(z["base"]), "; ".join("(%s, %s)" % (coq_z(t), coq_z(o)) for t, o in z["trans"])))
    body.append(";\n".join(zs) + "].")
    body.append("Definition gen_window : Z * Z := (%s, %s)." % (coq_z(lo), coq_z(hi)))
    write_if_changed(GEN / "Gen_Zones.v", "\n".join(body) + "\n")
    return zones, lo, hi


# ------------------------------------------------------------------ independent references (search oracle)
def ref_civil(days):
    """proleptic Gregorian (y, m, d, yday) of a day number relative to 1970-01-01; 400/100/4/1-year block walk"""
    n = days + 719162                      # days since 0001-01-01
    q400, n = divmod(n, 146097)
    q100 = min(n // 36524, 3); n -= q100 * 36524
    q4, n = divmod(n, 1461)
    q1 = min(n // 365, 3); n -= q1 * 365
    y = q400 * 400 + q100 * 100 + q4 * 4 + q1 + 1
    leap = y % 4 == 0 and (y % 100 != 0 or y % 400 == 0)
    ml = [31, 29 if leap else 28, 31, 30, 31, 30, 31, 31, 30, 31, 30, 31]
    yd = n + 1
    m = 0
    while n >= ml[m]:
        n -= ml[m]; m += 1
    return y, m + 1, n + 1, yd


def go_pad(v, w):
    return ("-" + str(-v).rjust(w - 1, "0")) if v < 0 else str(v).rjust(w, "0")


def ref_fmt(sec, nsec, nd, local=False):
    days, r = divmod(sec, 86400)
    y, m, d, _ = ref_civil(days)
    s = "%s-%s-%s%s%02d:%02d:%02d" % (go_pad(y, 4), go_pad(m, 2), go_pad(d, 2), " " if local else "T", r // 3600, r // 60 % 60, r % 60)
    nd = max(0, min(9, nd))
    if nd:
        s += "." + str(nsec // 10 ** (9 - nd)).rjust(nd, "0")
    return s if local else s + "Z"


def split_sec2gmt_py(x):
    ip = int(x)
    fp = x - float(ip)
    if fp < 0:
        ip -= 1
        fp += 1.0
    ns = int(fp * 1e9)
    return ip + ns // 10 ** 9, ns % 10 ** 9


def split_strftime_py(x):
    ip = int(x)
    fp = x - float(ip)
    ns = int(fp * 1e9)              # truncation towards zero
    q = abs(ns) // 10 ** 9 * (1 if ns >= 0 else -1)
    sec, ns = ip + q, ns - q * 10 ** 9
    if ns < 0:
        sec -= 1; ns += 10 ** 9
    return sec, ns


def ref_strftime(fmt, sec, nsec, documented=True):
    """documented meaning of the modelled codes; %kS prints k decimals"""
    days, r = divmod(sec, 86400)
    y, m, d, yd = ref_civil(days)
    out, i = "", 0
    while i < len(fmt):
        c = fmt[i]
        if c != "%":
            out += c; i += 1; continue
        v = fmt[i + 1]; i += 2
        if v in "123456789" and i < len(fmt) and fmt[i] == "S":
            k = int(v); i += 1
            out += "%02d.%s" % (r % 60, str(nsec // 10 ** (9 - k)).rjust(k, "0"))
        elif v == "Y": out += go_pad(y, 4)
        elif v == "m": out += "%02d" % m
        elif v == "d": out += "%02d" % d
        elif v == "H": out += "%02d" % (r // 3600)
        elif v == "M": out += "%02d" % (r // 60 % 60)
        elif v == "S": out += "%02d" % (r % 60)
        elif v == "j": out += "%03d" % yd
        elif v == "s": out += str(sec)
        elif v == "F": out += "%s-%02d-%02d" % (go_pad(y, 4), m, d)
        elif v == "T": out += "%02d:%02d:%02d" % (r // 3600, r // 60 % 60, r % 60)
        elif v == "N": out += "%09d" % nsec
        elif v == "O": out += str(nsec)
        elif v == "%": out += "%"
        else: return None
    return out


def has_literal_digit_S(f):
    """a digit 1-9 followed by S that is literal text (not a %kS verb): extensionRegex rewrites it all the same"""
    i = 0
    while i < len(f):
        if f[i] == "%" and i + 1 < len(f):
            i += 3 if (f[i + 1] in "123456789" and f[i + 2:i + 3] == "S") else 2
            continue
        if f[i] in "123456789" and f[i + 1:i + 2] == "S":
            return True
        i += 1
    return False


def ref_sec2dhms(n):
    u, sg = abs(n), (-1 if n < 0 else 1)
    s, u = u % 60, u // 60
    if u == 0: return "%ds" % (s * sg)
    m, u = u % 60, u // 60
    if u == 0: return "%dm%02ds" % (m * sg, s)
    h, u = u % 24, u // 24
    if u == 0: return "%dh%02dm%02ds" % (h * sg, m, s)
    return "%dd%02dh%02dm%02ds" % (u * sg, h, m, s)


def ref_sec2hms(n):
    u = abs(n)
    return "%s%02d:%02d:%02d" % ("-" if n < 0 else "", u // 3600, u // 60 % 60, u % 60)


def fbits(x):
    return struct.unpack(">Q", struct.pack(">d", x))[0]


# ------------------------------------------------------------------ running mlr on rows
def mlr_rows(ctx, cols, rows, prog, outs, args=(), env=None, verb=None):
    """rows: list of tuples of str (no tab/newline); returns list of dicts out-name -> text"""
    if not rows:
        return []
    inp = "\t".join(cols) + "\n" + "".join("\t".join(r) + "\n" for r in rows)
    cmd = list(args) + ["--itsv", "--otsv"] + (verb if verb else ["put", "-q", prog])
    st, out, err = mlr_run(ctx, cmd, inp.encode(), timeout=120, env=env)
    if st != 0:
        raise RuntimeError("mlr failed (%s): %s\n%s" % (st, err.decode("latin1")[-600:], " ".join(cmd)[:300]))
    lines = out.decode("utf-8", "replace").split("\n")
    if lines and lines[-1] == "":
        lines.pop()
    res = []
    if verb:
        hdr = lines[0].split("\t")
        for l in lines[1:]:
            res.append(dict(zip(hdr, l.split("\t"))))
    else:
        for l in lines:
            res.append(dict(zip(outs, l.split("\t"))))
    if len(res) != len(rows):
        raise RuntimeError("mlr row count %d != %d for %s" % (len(res), len(rows), prog[:200]))
    return res


def par(ctx, jobs, workers=2):
    """jobs: list of (args tuple, kwargs dict) for mlr_rows; run concurrently, results in order"""
    from concurrent.futures import ThreadPoolExecutor
    with ThreadPoolExecutor(max_workers=workers) as ex:
        futs = [ex.submit(mlr_rows, ctx, *a, **k) for a, k in jobs]
        return [f.result() for f in futs]


def emit_prog(assigns):
    """assigns: list of (name, expr) -> a put -q program printing the values tab-separated"""
    return "print " + ' . "\t" . '.join("format_values_str(%s)" % e for _, e in assigns)


def P(exprs):
    # every value rendered as string; error values print as (error)
    return 'print ' + ' . "\\t" . '.join('(is_error(%s) ? "(error)" : ((%s) . ""))' % (e, e) for e in exprs) + ';'


# ------------------------------------------------------------------ generators
def instants(ctx, zones, n_rand):
    rng = ctx.rng
    pts = set([0, 1, -1, 59, 60, 86399, 86400, -86400, -86401, LO, LO + 1, HI, HI - 1, 951782400, 951868799, 951868800,
               1234567890, 1500000000, 2147483647, 2147483648, -2147483648, -2147483649, 4102444800, 32503680000])
    dt0 = datetime.datetime(1970, 1, 1)
    years = [1, 2, 4, 99, 100, 101, 400, 1582, 1600, 1700, 1800, 1899, 1900, 1901, 1968, 1969, 1970, 1971, 1972, 1999, 2000, 2001, 2004, 2023, 2024, 2038,
             2100, 2399, 2400, 4000, 9996, 9999] + [rng.randint(1, 9999) for _ in range(12)]
    for y in years:
        for (m, d) in ((1, 1), (2, 28), (3, 1), (12, 31), (6, 30), (7, 1)):
            base = int((datetime.datetime(y, m, d) - dt0).total_seconds())
            for delta in (0, -1, 86399, 86400):
                t = base + delta
                if LO <= t <= HI:
                    pts.add(t)
    ctx.dist("instants_calendar_boundaries", len(pts))
    k = 0
    for z in zones:
        tr = z["trans"]
        npick = 5 if ctx.tier == 'quick' else 40
        pick = tr if len(tr) <= npick else [tr[i] for i in sorted(rng.sample(range(len(tr)), npick))]
        for t, _ in pick:
            for delta in (-3601, -3600, -1801, -1, 0, 1, 1799, 1800, 3599, 3600, 3601, 7200):
                pts.add(t + delta); k += 1
    ctx.dist("instants_zone_transitions", k)
    for _ in range(n_rand):
        r = rng.random()
        if r < 0.5:
            pts.add(rng.randint(LO, HI))
        elif r < 0.8:
            pts.add(rng.randint(-2 ** 31, 2 ** 32))
        else:
            pts.add(rng.randint(0, 2 * 10 ** 9))
    ctx.dist("instants_random", n_rand)
    return sorted(pts)


FRACS = ["0.5", "0.25", "0.999999999", "0.9999999999", "0.000000001", "0.123456789", "0.1", "0.7", "0.95", "0.995", "0.9995", "0.99999949",
         "0.9999995", "0.000001", "0.5000001", "0.4999999", "0.987654321987"]


def float_texts(ctx, n):
    rng = ctx.rng
    out = []
    for ip in ("0", "1", "-1", "59", "-59", "1500000000", "-1500000000", "951868799", "-62135596800", "253402300799", "86399", "-86400"):
        for fr in FRACS:
            out.append(ip + fr[1:] if not ip.startswith("-") else ip + fr[1:])
    out += ["-0.5", "-0.000000001", "-0.0000000001", "-0.9999999999", "1e9", "1.5e9", "-1e-20", "1e-20", "0.0", "-0.0", "1e3", "12345678.9e2"]
    for _ in range(n):
        ip = rng.choice([rng.randint(-2 * 10 ** 9, 2 * 10 ** 9), rng.randint(LO, HI), rng.randint(-100, 100)])
        nd = rng.randint(1, 12)
        out.append("%d.%s" % (ip, "".join(rng.choice("0123456789") for _ in range(nd))))
    return out


LITS = list("-/:. TZ,_#@x") + ["5S", "1S", " S"]
CODES = ["%Y", "%m", "%d", "%H", "%M", "%S", "%j", "%s", "%F", "%T", "%N", "%O", "%%"] + ["%%%dS" % k for k in range(1, 10)]


def gen_strftime_formats(ctx, n):
    rng = ctx.rng
    fs = ["%Y-%m-%dT%H:%M:%SZ", "%Y-%m-%d %H:%M:%S", "%Y-%m-%d", "%FT%TZ", "%s", "%j", "%Y-%j", "%N", "%O", "%Y%m%d%H%M%S", "%H:%M:%6S", "%%Y", "x5Sy", "%Y-1S", "%%5S", "%5", "%%%3S"]
    fs += ["%Y-%m-%dT%H:%M:%" + str(k) + "SZ" for k in range(1, 10)]
    for _ in range(n):
        parts = []
        for _ in range(rng.randint(1, 6)):
            parts.append(rng.choice(CODES) if rng.random() < 0.7 else rng.choice(LITS))
        fs.append("".join(parts))
    return fs


PCODES = ["Y", "m", "d", "H", "M", "S", "j"]
SEPS = ["-", "/", ":", " ", "T", "Z", "_", "--", " at ", "x"]


def gen_strptime_format(rng):
    r = rng.random()
    if r < 0.25:
        return rng.choice(["%Y-%m-%dT%H:%M:%SZ", "%Y-%m-%d %H:%M:%S", "%Y-%m-%d", "%Y-%j", "%Y/%m/%d %H:%M", "%d.%m.%Y %H:%M:%S", "%H:%M:%S %Y-%m-%d"]).replace(".", "_")
    codes = ["Y"] + rng.sample(["m", "d", "H", "M", "S"], rng.randint(0, 5))
    if rng.random() < 0.15:
        codes = ["Y", "j"] + rng.sample(["H", "M", "S"], rng.randint(0, 3))
    if rng.random() < 0.3:
        rng.shuffle(codes)
    f = rng.choice(["", "", "", "t=", "["])
    for i, c in enumerate(codes):
        f += "%" + c
        if i + 1 < len(codes) or rng.random() < 0.3:
            f += rng.choice(SEPS)
    return f


LAW_LITS = ["-", "/", ":", " ", "T", "Z", "_", "--", " at ", "x", "h", "m", "s", " day ", "|", "#", "S", "Y-", " %", ]


def gen_law_format(rng):
    """a format of the language of Coq C16.Format (parts_ok + determines): (prefix, [(code, literal)]) with codes
    Y m d H M S j and '1'..'9' (= %kS printing / %S parsing), any order, repeats allowed"""
    codes = ["Y", "H", "M"] + (["j"] if rng.random() < 0.3 else ["m", "d"])
    codes.append(rng.choice("123456789") if rng.random() < 0.5 else "S")
    for _ in range(rng.choice([0, 0, 1, 2, 3])):
        codes.append(rng.choice(["Y", "m", "d", "H", "M", "j"]))      # exactly one seconds field (Format.format_ok)
    rng.shuffle(codes)
    lits = [l for l in LAW_LITS if "%" not in l]
    parts = []
    for i, c in enumerate(codes):
        last = i + 1 == len(codes)
        parts.append((c, "" if (last and rng.random() < 0.5) else rng.choice(lits)))
    pre = rng.choice(["", "", "t=", "[", "on "])
    pf = pre + "".join("%" + (c + "S" if c in "123456789" else c) + l for c, l in parts)
    qf = pre + "".join("%" + ("S" if c in "123456789" else c) + l for c, l in parts)
    k = 0
    for c, _ in parts:
        if c in "123456789": k = int(c)
        elif c == "S": k = 0
    return pf, qf, k


# determining formats over the codes the Coq model does not cover (oracle on the binary only); y2: two-digit year
WIDE_FORMATS = [("%a %b %e %H:%M:%S %Y", 0), ("%A, %d %B %Y %T", 0), ("%FT%TZ", 0), ("%F %T", 0), ("%D %T", 1), ("%y-%m-%d %H:%M:%S", 1), ("%Y-%m-%e %H:%M:%S", 0),
                ("%Y-%m-%d %I:%M:%S %p", 0), ("%I%p %M:%S %d %h %Y", 0), ("%Y-%j %H:%M:%S", 0), ("%Y%j%H%M%S", 0), ("%Y%m%d%H%M%S", 0), ("%Y-%m-%d %H:%M:%S %Z", 0),
                ("%Y-%m-%d %H:%M:%S %z", 0), ("%c", 0), ("%x %X", 1), ("%Y-%m-%d %H:%M:%S%%", 0), ("%d/%m/%Y %Hh%Mm%Ss", 0), ("%H%M%S%d%m%Y", 0), ("%B %e, %Y at %I:%M:%S %p", 0),
                ("%Y-%m-%dT%H:%M:%SZ", 0), ("%e %b %Y %r", 0), ("%R:%S %F", 0)]


def render_for_parse(fmt, sec):
    """text of instant sec under a numeric strptime format (python reference renderer)"""
    return ref_strftime(fmt, sec, 0)


def mutate_time_text(rng, txt):
    r = rng.randrange(9)
    if not txt:
        return txt
    i = rng.randrange(len(txt))
    if r == 0:
        return txt[:i] + rng.choice("0123456789") + txt[i + 1:]
    if r == 1:
        return txt[:i] + txt[i + 1:]
    if r == 2:
        return txt[:i] + rng.choice("-:/ TZx9") + txt[i:]
    if r == 3:
        return txt + rng.choice(["Z", "0", " ", ".5", "x"])
    if r == 4:                                   # fractional seconds appended to the first SS: form
        return re.sub(r"(\d\d)(\D*)$", lambda m: m.group(1) + rng.choice([".5", ".123456789", ",25", ".1234567891", "."]) + m.group(2), txt, count=1)
    if r == 5:
        return re.sub(r"0(\d)", r"\1", txt, count=1)          # drop one zero pad
    if r == 6:
        return re.sub(r"\d\d", rng.choice(["13", "24", "31", "60", "61", "00", "29", "30", "99"]), txt, count=1) if rng.random() < 0.5 else \
            re.sub(r"(\d\d)(\D*)$", lambda m: rng.choice(["60", "24", "31", "00", "59", "32"]) + m.group(2), txt, count=1)
    if r == 7:
        return txt[:i]
    return txt


# ------------------------------------------------------------------ the check
def run(ctx):
    quick = ctx.tier == "quick"
    ctx.cov["rule"] = ("instants: calendar boundaries (leap days, year ends, epoch, year 1 and 9999, negative), every tested zone's transitions +-1h, random; "
                       "x decimals 0..9, float texts with boundary fractions, strftime formats over the modelled codes, strptime formats over numeric codes with "
                       "mutated inputs, d/h/m/s on int64 boundaries; compared: output text / int nanoseconds between mlr and the Coq model under vm_compute; "
                       "oracle: independent python calendar + zoneinfo + inverse/round-trip identities on mlr's own outputs")
    ctx.cov["trusted_base"] = ["Coq 8.16.1 kernel + vm_compute", "no axioms", "implrun zones (time.LoadLocation + ZoneBounds dump)", "python harness",
                               "Go time package modelled by specification (proleptic Gregorian, Unix time), tied by correspondence",
                               "float64 arithmetic of secToFormattedTime modelled on Coq.Floats.SpecFloat (axiom-free), tied by correspondence"]
    ctx.assumptions = ["lestrrat strftime / pbnjay strptime / time.Parse modelled for the numeric codes only", "tzdata content trusted as data (regenerated)",
                       "float64(t.Unix()) exact for |n| < 2^53: modelled on SpecFloat, tied by correspondence"]
    zones, wlo, whi = gen_zones(ctx)
    forbidden_gate(ctx, ["Base", "C16"])
    ok, why = check_props(ctx, "C16/Props.v", ["C16/Harness.vo", "C16/Proofs.vo", "C16/GmtProofs.vo", "C16/DhmsProofs.vo", "C16/ZoneProofs.vo", "C16/VerbProofs.vo", "C16/DatediffProofs.vo"])
    terms, meta = [], []
    oracle_bad = []

    def case(kind, a, b, s1, s2, info):
        terms.append("(%d, %s, %s, %s, %s)" % (kind, coq_z(a), coq_z(b), coq_bytes(s1), coq_bytes(s2)))
        meta.append(info)
        ctx.count((kind, a, b, s1, s2))

    def bad(cls, **kw):
        oracle_bad.append(dict(kw, **{"class": cls}))

    with ctx.timed("impl"):
        pts = instants(ctx, zones, 150 if quick else 5000)
        # ---- (A) sec2gmt / sec2gmtdate / nsec2gmt on ints
        nds = list(range(0, 10)) + [-1, 12]
        rows = [(str(t), str(ctx.rng.choice(nds))) for t in pts]
        rows += [(str(t), "0") for t in (10 ** 11, -10 ** 11, 10 ** 12, -10 ** 12, 253402300800, LO - 1)]
        res = mlr_rows(ctx, ["t", "n"], rows, P(["sec2gmt($t)", "sec2gmt($t,$n)", "sec2gmtdate($t)", "nsec2gmt($t * 1000000000 + 123456789, $n)", "gmt2sec(sec2gmt($t))", "typeof(gmt2sec(sec2gmt($t)))"]),
                       ["g", "gn", "d", "ng", "back", "ty"])
        for (ts, ns), o in zip(rows, res):
            t, nd = int(ts), int(ns)
            case(0, t, 0, o["g"], "", {"fn": "sec2gmt", "t": t})
            case(0, t, nd, o["gn"], "", {"fn": "sec2gmt", "t": t, "nd": nd})
            if nd % 2 == 0 or not quick:
                case(2, t, 0, o["d"], "", {"fn": "sec2gmtdate", "t": t})
            if abs(t) < 9 * 10 ** 9 and (nd % 2 == 1 or not quick):
                case(3, t * 10 ** 9 + 123456789, nd, o["ng"], "", {"fn": "nsec2gmt", "t": t, "nd": nd})
            if o["g"] != ref_fmt(t, 0, 0) or o["gn"] != ref_fmt(t, 0, nd) or o["d"] != ref_fmt(t, 0, 0)[:len(o["d"])].split("T")[0]:
                bad("sec2gmt-calendar", input={"t": t, "nd": nd}, observed=[o["g"], o["gn"], o["d"]], expected=[ref_fmt(t, 0, 0), ref_fmt(t, 0, nd)])
            if LO <= t <= HI and (o["back"] != str(t)):
                bad("strptime-unixnano-overflow" if abs(t) * 10 ** 9 >= 2 ** 63 else "strptime-seconds-float-rounding", input={"t": t, "text": o["g"]}, observed=o["back"], expected=str(t),
                    how="mlr -n put 'end{print gmt2sec(\"%s\")}'" % o["g"])
        ctx.dist("sec2gmt_int_cases", len(rows))
        # ---- (B) float arguments
        ftx = float_texts(ctx, 150 if quick else 3000)
        rows = [(x, str(ctx.rng.choice(nds[:10]))) for x in ftx]
        res = mlr_rows(ctx, ["t", "n"], rows, P(["typeof($t)", "sec2gmt($t,$n)", "sec2gmt($t, 9)", 'strftime($t, "%Y-%m-%d %H:%M:%9S")', 'strftime($t, "%s %N")']), ["ty", "gn", "g9", "sf", "sn"])
        for (xs, ns), o in zip(rows, res):
            if o["ty"] != "float":
                continue
            x = float(xs); nd = int(ns)
            case(1, fbits(x), nd, o["gn"], "", {"fn": "sec2gmt", "t": xs, "nd": nd})
            case(1, fbits(x), 9, o["g9"], "", {"fn": "sec2gmt", "t": xs, "nd": 9})
            if LO <= x <= HI:
                case(5, fbits(x), 0, o["sf"], "%Y-%m-%d %H:%M:%9S", {"fn": "strftime", "t": xs})
                case(5, fbits(x), 0, o["sn"], "%s %N", {"fn": "strftime", "t": xs})
            s, n9 = split_sec2gmt_py(x)
            if o["gn"] != ref_fmt(s, n9, nd):
                bad("sec2gmt-float", input={"t": xs, "nd": nd}, observed=o["gn"], expected=ref_fmt(s, n9, nd))
        ctx.dist("float_cases", len(rows))
        # ---- (C) strftime / strfntime over formats
        fmts = gen_strftime_formats(ctx, 60 if quick else 1500)
        rows = []
        for f in fmts:
            for t in ctx.rng.sample(pts, 3):
                if LO <= t <= HI:
                    rows.append((str(t), str(ctx.rng.randint(0, 999999999)), f))
        res = mlr_rows(ctx, ["t", "ns", "f"], rows, P(["strftime($t,$f)", "strfntime($t * 1000000000 + $ns, $f)"]), ["o", "on"])
        for (ts, nss, f), o in zip(rows, res):
            t, ns = int(ts), int(nss)
            case(4, t, 0, o["o"], f, {"fn": "strftime", "t": t, "f": f})
            if abs(t) < 9 * 10 ** 9:
                case(6, t * 10 ** 9 + ns, 0, o["on"], f, {"fn": "strfntime", "t": t, "ns": ns, "f": f})
                want = ref_strftime(f, t, ns)
                if want is not None and o["on"] != want:
                    lit_ds = has_literal_digit_S(f)
                    esc = re.search(r"(?<!%)(%%)+[1-9]S", f) is not None
                    bad("strftime-escaped-percent-digitS-mangled" if esc else "strftime-8S-nine-digits" if "%8S" in f and not lit_ds
                        else "strftime-literal-digitS-mangled" if lit_ds else "strftime-codes", input={"ns": t * 10 ** 9 + ns, "format": f}, observed=o["on"], expected=want,
                        how="mlr -n put 'end{print strfntime(%d, \"%s\")}'" % (t * 10 ** 9 + ns, f))
        ctx.dist("strftime_cases", len(rows))
        # ---- (D) strptime: rendered instants (round trip) and mutations
        rows, exp = [], []
        for _ in range(250 if quick else 6000):
            f = gen_strptime_format(ctx.rng)
            t = ctx.rng.choice(pts)
            if not (LO <= t <= HI):
                continue
            txt = render_for_parse(f, t)
            determines = all(("%" + c) in f for c in "YHMS") and (("%m" in f and "%d" in f) or "%j" in f)
            if ctx.rng.random() < 0.45:
                txt2 = mutate_time_text(ctx.rng, txt)
                pre = f.split("%")[0]
                if len(txt2) < len(pre) + 1:
                    txt2 = txt
                rows.append((txt2, f)); exp.append(None)
            else:
                rows.append((txt, f)); exp.append(t if determines else None)
        rows = [(a, f) for a, f in rows]
        res = mlr_rows(ctx, ["a", "f"], rows, P(["strpntime($a,$f)", "strptime($a,$f)"]), ["n", "s"], args=["-S"])
        for (a, f), o, e in zip(rows, res, exp):
            if o["n"] == ERR:
                case(7, 0, 1, a, f, {"fn": "strpntime", "a": a, "f": f})
            else:
                case(7, int(o["n"]), 0, a, f, {"fn": "strpntime", "a": a, "f": f})
                if o["s"] != ERR:
                    case(14, fbits(float(o["s"])), 0, a, f, {"fn": "strptime", "a": a, "f": f, "observed": o["s"]})
                # strpntime is int64 nanoseconds (representable for 1677-09-21 .. 2262-04-11 only); inside that range both must agree
                if o["s"] == ERR or (abs(float(o["s"])) < 9.2e9 and abs(float(o["s"]) - int(o["n"]) / 1e9) > 1e-6):
                    bad("strptime-vs-strpntime", input={"a": a, "f": f}, observed=[o["n"], o["s"]])
            if e is not None and abs(e) * 10 ** 9 < 2 ** 63 and o["n"] != str(e * 10 ** 9):
                bad("strptime-unixnano-overflow" if abs(e) * 10 ** 9 >= 2 ** 63 else "strptime-strftime-roundtrip", input={"text": a, "format": f}, observed=o["n"], expected=str(e * 10 ** 9),
                    how="mlr -n put 'end{print strpntime(\"%s\", \"%s\")}'" % (a, f))
            if e is not None and o["s"] != ERR and float(o["s"]) != float(e):
                bad("strptime-unixnano-overflow" if abs(e) * 10 ** 9 >= 2 ** 63 else "strptime-seconds-float-rounding", input={"text": a, "format": f}, observed=o["s"], expected=str(e),
                    how="mlr -n put 'end{print strptime(\"%s\", \"%s\")}'" % (a, f))
        ctx.dist("strptime_cases", len(rows))
        # ---- (D2) the general format law: formats of the Coq format language, printing side / parsing side
        rows, exp = [], []
        inr = [t for t in pts if LO <= t <= HI]
        for _ in range(70 if quick else 3000):
            pf, qf, k = gen_law_format(ctx.rng)
            t = ctx.rng.choice(inr) if ctx.rng.random() < 0.7 else ctx.rng.randint(LO, HI)
            ns = ctx.rng.choice([0, 1, 999999999, 500000000, 123456789, ctx.rng.randint(0, 999999999)])
            rows.append((str(t), str(ns), pf, qf)); exp.append(k)
        res = mlr_rows(ctx, ["t", "ns", "pf", "qf"], rows, P(["strftime($t,$pf)", "strptime(strftime($t,$pf),$qf)", "strpntime(strftime($t,$pf),$qf)",
                                                              "strfntime($t * 1000000000 + $ns, $pf)", "strpntime(strfntime($t * 1000000000 + $ns, $pf), $qf)"]),
                       ["txt", "back", "nback", "ntxt", "nnback"])
        for (ts, nss, pf, qf), o, k in zip(rows, res, exp):
            o2 = o
            t, ns = int(ts), int(nss)
            case(4, t, 0, o["txt"], pf, {"fn": "strftime", "t": t, "f": pf})
            if o["nback"] == ERR:
                case(7, 0, 1, o["txt"], qf, {"fn": "strpntime", "a": o["txt"], "f": qf})
            else:
                case(7, int(o["nback"]), 0, o["txt"], qf, {"fn": "strpntime", "a": o["txt"], "f": qf})
            if o2["back"] == ERR or float(o2["back"]) != float(t):
                bad("strptime-strftime-format-law", input={"t": t, "print_format": pf, "parse_format": qf, "text": o["txt"]}, observed=o2["back"], expected=str(t),
                    how="mlr -n put 'end{print strptime(strftime(%d, \"%s\"), \"%s\")}'" % (t, pf, qf))
            if abs(t) < 9 * 10 ** 9:
                want = t * 10 ** 9 + ns // 10 ** (9 - k) * 10 ** (9 - k)
                case(6, t * 10 ** 9 + ns, 0, o["ntxt"], pf, {"fn": "strfntime", "t": t, "ns": ns, "f": pf})
                if o["nnback"] != ERR:
                    case(7, int(o["nnback"]), 0, o["ntxt"], qf, {"fn": "strpntime", "a": o["ntxt"], "f": qf})
                if o["nnback"] != str(want):
                    bad("strptime-strftime-format-law", input={"ns": t * 10 ** 9 + ns, "print_format": pf, "parse_format": qf, "text": o["ntxt"]}, observed=o["nnback"], expected=str(want),
                        how="mlr -n put 'end{print strpntime(strfntime(%d, \"%s\"), \"%s\")}'" % (t * 10 ** 9 + ns, pf, qf))
        ctx.dist("format_law_cases", len(rows))
        # ---- (D3) determining formats over the codes outside the Coq model (names, %y, %e, %I/%p, %Z, %z, shorthands): binary only
        rows = []
        for f, y2 in WIDE_FORMATS:
            for t in ctx.rng.sample(inr, 3 if quick else 60) + [0, 43200, 46799, 3600, 951868799, 1709207999, 978307199, 1104537600 + 366 * 86400 - 1]:
                if y2 and not (-31536000 <= t < 3124224000):         # %y: 1969..2068 is the window time.Parse maps two-digit years to
                    continue
                rows.append((str(t), f))
        res = mlr_rows(ctx, ["t", "f"], rows, P(["strftime($t,$f)", "strptime(strftime($t,$f),$f)"]), ["txt", "back"])
        for (ts, f), o in zip(rows, res):
            ctx.count(("wide", ts, f))
            if o["back"] == ERR or float(o["back"]) != float(ts):
                bad("strptime-strftime-roundtrip-wide-codes", input={"t": int(ts), "format": f, "text": o["txt"]}, observed=o["back"], expected=ts,
                    how="mlr -n put 'end{print strptime(strftime(%s, \"%s\"), \"%s\")}'" % (ts, f, f))
        ctx.dist("wide_code_roundtrip_cases", len(rows))
        # formats strftime prints but strptime has no code for (known finding strptime-no-epoch-seconds-code)
        rows = [("0", "%Y-%m-%d PM %H:%M:%S"), ("1500000000", "%Y-%m-%d %H:%M#5%S")]
        res = mlr_rows(ctx, ["t", "f"], rows, P(["strftime($t,$f)", "strptime(strftime($t,$f),$f)"]), ["txt", "back"])
        for (ts, f), o in zip(rows, res):
            ctx.count(("layout-literal", ts, f))
            if o["back"] == ERR or float(o["back"]) != float(ts):
                bad("strptime-literal-read-as-layout", input={"t": int(ts), "format": f, "text": o["txt"]}, observed=o["back"], expected=ts,
                    how="mlr -n put 'end{print strptime(strftime(%s, \"%s\"), \"%s\")}'" % (ts, f, f))
        rows = [("1500000000", "%s"), ("-1", "%s"), ("1500000000", "%Y-%m-%d %H:%M:%6S"), ("0", "%Y-%m-%dT%H:%M:%3SZ")]
        res = mlr_rows(ctx, ["t", "f"], rows, P(["strftime($t,$f)", "strptime(strftime($t,$f),$f)", "strpntime(strftime($t,$f),$f)"]), ["txt", "back", "nback"])
        for (ts, f), o in zip(rows, res):
            case(7, 0, 1, o["txt"], f, {"fn": "strpntime", "a": o["txt"], "f": f}) if o["nback"] == ERR else case(7, int(o["nback"]), 0, o["txt"], f, {"fn": "strpntime", "a": o["txt"], "f": f})
            if o["back"] == ERR or float(o["back"]) != float(ts):
                bad("strptime-no-epoch-seconds-code", input={"t": int(ts), "format": f, "text": o["txt"]}, observed=o["back"], expected=ts,
                    how="mlr -n put 'end{print strptime(strftime(%s, \"%s\"), \"%s\")}'" % (ts, f, f))
        # ---- (E) d/h/m/s
        ints = set([0, 1, -1, 59, 60, 61, -59, -60, -61, 3599, 3600, 3601, -3600, 86399, 86400, 86401, -86400, -86401, 500000, 5000, -4000, -90000,
                    2 ** 63 - 1, -2 ** 63 + 1, -2 ** 63, 2 ** 62, -2 ** 62, 10 ** 18, -10 ** 18])
        for _ in range(200 if quick else 5000):
            ints.add(ctx.rng.choice([ctx.rng.randint(-10 ** 6, 10 ** 6), ctx.rng.randint(-2 ** 63, 2 ** 63 - 1), ctx.rng.randint(-10 ** 10, 10 ** 10), ctx.rng.randint(-4000, 4000)]))
        rows = [(str(n),) for n in sorted(ints)]
        res = mlr_rows(ctx, ["n"], rows, P(["sec2dhms($n)", "sec2hms($n)", "dhms2sec(sec2dhms($n))", "hms2sec(sec2hms($n))", "fsec2dhms($n + 0.25)", "fsec2hms($n + 0.25)",
                                            "dhms2fsec(fsec2dhms($n + 0.25))", "hms2fsec(fsec2hms($n + 0.25))"]), ["d", "h", "bd", "bh", "fd", "fh", "bfd", "bfh"])
        dh_texts = []
        for (ns,), o in zip(rows, res):
            n = int(ns)
            case(8, n, 0, o["d"], "", {"fn": "sec2dhms", "n": n})
            case(9, n, 0, o["h"], "", {"fn": "sec2hms", "n": n})
            dh_texts.append((o["d"], o["h"]))
            if o["d"] != ref_sec2dhms(n) or o["h"] != ref_sec2hms(n):  # every int64, -2**63 included (repaired 173961000)
                bad("dhms-roundtrip-minint64" if n == -2 ** 63 else "sec2dhms-text", input=n, observed=[o["d"], o["h"]], expected=[ref_sec2dhms(n), ref_sec2hms(n)],
                    how="mlr -n put 'end{print sec2dhms(%d) . \" \" . sec2hms(%d)}'" % (n, n))
            if o["bd"] != ns or o["bh"] != ns:
                bad("dhms-roundtrip-minint64" if n == -2 ** 63 else "dhms-roundtrip", input=n, observed={"sec2dhms": o["d"], "dhms2sec": o["bd"], "sec2hms": o["h"], "hms2sec": o["bh"]}, expected=ns,
                    how="mlr -n put 'end{print dhms2sec(sec2dhms(%d))}'" % n)
            if abs(n) < 10 ** 9:
                for k in ("bfd", "bfh"):
                    try:
                        if abs(float(o[k]) - (n + 0.25)) > 1e-6:
                            bad("fsec-roundtrip", input=n + 0.25, observed=o)
                    except ValueError:
                        bad("fsec-roundtrip", input=n + 0.25, observed=o)
        # parse direction incl. malformed texts
        ptx = set()
        for d, h in dh_texts[:400]:
            ptx.add(("d", d)); ptx.add(("h", h))
            if ctx.rng.random() < 0.3:
                ptx.add(("d", mutate_time_text(ctx.rng, d))); ptx.add(("h", mutate_time_text(ctx.rng, h)))
        ptx |= {("d", "1d2h3m4s"), ("d", "4s3m"), ("d", "-4s"), ("d", "--4s"), ("d", "+4s"), ("d", "5"), ("d", "5x"), ("d", "s"), ("d", "1d-2h"), ("d", "xyz"),
                ("d", "99999999999999999999s"), ("d", "106751991167301d"), ("h", "1:2:3"), ("h", "-1:2:3"), ("h", "1:2"), ("h", "1:2:3:4"), ("h", "a:b:c"), ("h", "01:02:03x"),
                ("h", "-0:0:0"), ("h", "+1:+2:+3"), ("h", "1:-2:3"), ("h", "00:00:60"), ("h", "100:00:00")}
        ptx = sorted(x for x in ptx if x[1] and "\t" not in x[1] and not x[1].startswith(" ") and " " not in x[1])
        rows = [(k, s) for k, s in ptx]
        res = mlr_rows(ctx, ["k", "s"], rows, P(['$k == "d" ? dhms2sec($s) : hms2sec($s)']), ["v"], args=["-S"])
        for (k, s), o in zip(rows, res):
            kind = 10 if k == "d" else 11
            if o["v"] == ERR:
                case(kind, 0, 1, s, "", {"fn": "dhms2sec" if k == "d" else "hms2sec", "s": s})
            else:
                case(kind, int(o["v"]), 0, s, "", {"fn": "dhms2sec" if k == "d" else "hms2sec", "s": s})
        ctx.dist("dhms_cases", len(ints) + len(ptx))
        # fsec functions: inverse to 1e-6 on generated floats (oracle only)
        frows = [("%d.%s" % (ctx.rng.choice([ctx.rng.randint(-10 ** 6, 10 ** 6), ctx.rng.randint(-100, 100), ctx.rng.randint(-10 ** 8, 10 ** 8)]),
                             "".join(ctx.rng.choice("0123456789") for _ in range(ctx.rng.randint(1, 9)))),) for _ in range(200 if quick else 4000)]
        frows += [("59.9999999",), ("3599.9999999",), ("-59.9999996",), ("0.0000004",), ("-0.0000004",), ("86399.9999999",), ("0.9999995",)]
        res = mlr_rows(ctx, ["x"], frows, P(["fsec2dhms($x)", "fsec2hms($x)", "dhms2fsec(fsec2dhms($x))", "hms2fsec(fsec2hms($x))"]), ["fd", "fh", "bd", "bh"])
        for (xs,), o in zip(frows, res):
            ctx.count(("fsec", xs))
            try:
                okk = abs(float(o["bd"]) - float(xs)) <= 1e-6 and abs(float(o["bh"]) - float(xs)) <= 1e-6
            except ValueError:
                okk = False
            if not okk:
                bad("fsec-roundtrip", input=xs, observed=o, expected="inverse within 1e-6")
        ctx.dist("fsec_cases", len(frows))
        # ---- (F) zones
        zone_cases(ctx, zones, wlo, whi, pts, case, bad)
        # ---- (G) verbs and non-numeric inputs
        verb_cases(ctx, bad)
        # ---- (H) datediff over the whole 1..9999 span, every unit
        datediff_cases(ctx, pts, case, bad)
        # ---- (I) zone switched mid-process
        zone_switch_cases(ctx, zones, wlo, whi, pts, case, bad)

    ctx.sample(meta[0]); ctx.sample(meta[len(meta) // 3]); ctx.sample(meta[len(meta) // 2]); ctx.sample(meta[-1])
    if not ok:
        if oracle_bad:
            ctx.violation(dict(oracle_bad[0], broken=why))
        else:
            ctx.violation({"broken": why}, found_input=False)
        return
    with ctx.timed("coq_cases"):
        badi, err = coq_eval_mismatches(ctx, "C16", "C16.Model C16.Harness", "Z * Z * Z * bytes * bytes", "chk", terms, shard=len(terms) // 2 + 1)
    ctx.cov["correspondence"] = {"cases": len(terms), "mismatches": len(badi)}
    if err:
        ctx.violation({"broken": "correspondence-evaluation", "detail": err[-2000:]}, found_input=False)
    rep = 0
    for i in badi:
        if i < 0 or rep >= 5:
            continue
        rep += 1
        ctx.violation({"broken": "correspondence C16.Harness.chk (model and implementation differ)", "case": meta[i], "term": terms[i][:400]}, found_input=False)
    seen = set()
    for b in oracle_bad:
        if b["class"] in seen:
            continue
        seen.add(b["class"])
        ctx.violation(b)
    ctx.cov["oracle_disagreements"] = len(oracle_bad)
    hist = {}
    for b in oracle_bad:
        hist.setdefault(b["class"], []).append({k: b[k] for k in ("input", "observed", "expected") if k in b})
    ctx.cov["oracle_disagreement_classes"] = {k: {"count": len(v), "examples": v[:6]} for k, v in hist.items()}


def zone_cases(ctx, zones, wlo, whi, pts, case, bad):
    try:
        import zoneinfo
    except ImportError:
        zoneinfo = None
    margin = 5 * 86400
    n = 0
    jobs, allrows = [], []
    for zi, z in enumerate(zones):
        name = z["name"]
        ts = [t for t in pts if wlo + margin <= t <= whi - margin]
        near = [t + d for t, _ in z["trans"] for d in (-3600, -1, 0, 1, 3600) if wlo + margin <= t + d <= whi - margin]
        nz = 40 if ctx.tier == "quick" else 400
        ts = sorted(set(ctx.rng.sample(ts, min(len(ts), nz)) + ctx.rng.sample(near, min(len(near), nz))))
        rows = [(str(t),) for t in ts]
        allrows.append(rows)
        jobs.append(((["t"], rows, P(['sec2localtime($t, 0, "%s")' % name, 'localtime2sec(sec2localtime($t, 0, "%s"), "%s")' % (name, name),
                                      'gmt2localtime(sec2gmt($t), "%s")' % name, 'localtime2gmt(sec2localtime($t, 0, "%s"), "%s")' % (name, name), "sec2gmt($t)",
                                      'strftime_local($t, "%%Y-%%m-%%d %%H:%%M:%%S", "%s")' % name,
                                      'sec2localtime(localtime2sec(sec2localtime($t, 0, "%s"), "%s"), 0, "%s")' % (name, name, name),
                                      # texts with a fraction just below the next second: the fraction is dropped, never rounded up
                                      'gmt2localtime(nsec2gmt($t * 1000000000 + 999999999, 9), "%s")' % name,
                                      'localtime2gmt(nsec2localtime($t * 1000000000 + 999999900, 9, "%s"), "%s")' % (name, name)]),
                      ["l", "back", "g2l", "l2g", "g", "sfl", "l2", "g2lf", "l2gf"]), {}))
    # the text-to-text conversions over the whole range of years 1..9999 (fixed 0736195cc: they went through int64
    # nanoseconds and wrapped around outside 1678..2262); fixed probes + random instants, every zone
    wide = [-14831769600, 16725225600, -62135596800 + 400 * 86400, 253402300799 - 400 * 86400, -9223372037, 9223372037, -9223372036, 9223372036] + \
           [ctx.rng.randint(-62135596800 + 400 * 86400, 253402300799 - 400 * 86400) for _ in range(8 if ctx.tier == "quick" else 200)]
    wrows = [(str(t),) for t in wide]
    wjobs = []
    for z in zones:
        name = z["name"]
        wjobs.append(((["t"], wrows, P(['sec2localtime($t, 0, "%s")' % name, 'gmt2localtime(sec2gmt($t), "%s")' % name,
                                        'localtime2gmt(sec2localtime($t, 0, "%s"), "%s")' % (name, name),
                                        'sec2gmt(localtime2sec(sec2localtime($t, 0, "%s"), "%s"))' % (name, name), "sec2gmt($t)"]),
                       ["l", "g2l", "l2g", "gl", "g"]), {}))
    wres = par(ctx, wjobs)
    for z, res in zip(zones, wres):
        for (tstr,), o in zip(wrows, res):
            ctx.count(("wide-range-text-conversion", z["name"], tstr))
            if o["g2l"] != o["l"] or o["l2g"] != o["gl"] or ERR in (o["l"], o["g"]):
                bad("gmt2localtime-localtime2gmt-wide-range", input={"t": int(tstr), "zone": z["name"], "gmt_text": o["g"]}, observed={"gmt2localtime": o["g2l"], "localtime2gmt": o["l2g"]},
                    expected={"gmt2localtime = sec2localtime": o["l"], "localtime2gmt = sec2gmt(localtime2sec)": o["gl"]},
                    how="mlr -n put 'end{print gmt2localtime(\"%s\", \"%s\")}'" % (o["g"], z["name"]))
    results = par(ctx, jobs)
    for zi, z in enumerate(zones):
        name = z["name"]
        tz = None
        if zoneinfo:
            try:
                tz = zoneinfo.ZoneInfo(name)
            except Exception:
                tz = None
        rows, res = allrows[zi], results[zi]
        for (tstr,), o in zip(rows, res):
            t = int(tstr); n += 1
            case(12, t, zi, o["l"], "", {"fn": "sec2localtime", "zone": name, "t": t})
            if o["back"] != ERR:
                case(13, int(o["back"]), zi, o["l"], "", {"fn": "localtime2sec", "zone": name, "text": o["l"]})
            if o["g2l"] != o["l"] or o["sfl"] != o["l"]:
                bad("gmt2localtime-vs-sec2localtime", input={"t": t, "zone": name}, observed=o)
            if abs(t) < 9000000000 and (o["g2lf"] != o["l"] or o["l2gf"] != o["l2g"]):
                bad("gmt2localtime-localtime2gmt-fraction-dropped", input={"t": t, "zone": name, "fraction": ".999999999 / .999999900"},
                    observed={"gmt2localtime": o["g2lf"], "localtime2gmt": o["l2gf"]}, expected={"gmt2localtime": o["l"], "localtime2gmt": o["l2g"]})
            if tz is not None:
                want = datetime.datetime.fromtimestamp(t, tz).strftime("%Y-%m-%d %H:%M:%S")
                if want != o["l"]:
                    bad("localtime-iana", input={"t": t, "zone": name}, observed=o["l"], expected=want)
            # round trip outside overlaps: t unambiguous iff no other instant shows the same wall clock
            offs = set([z["base"]] + [off for _, off in z["trans"]])
            def off_at(u):
                o_ = z["base"]
                for tt, of in z["trans"]:
                    if tt <= u:
                        o_ = of
                    else:
                        break
                return o_
            wall = t + off_at(t)
            cands = [wall - of for of in offs if off_at(wall - of) == of]
            if len(cands) == 1 and (o["back"] != str(t) or o["l2g"] != o["g"]):
                bad("localtime-roundtrip", input={"t": t, "zone": name}, observed=o, expected=str(t))
            # EVERY instant, overlap hours included (C16_local_round_trip_all_instants): the instant returned shows the same wall clock,
            # and it is t or t shifted by the difference of two offsets of the table
            if o["back"] == ERR or o["l2"] != o["l"] or (int(o["back"]) - t) not in set(a - b for a in offs for b in offs):
                bad("localtime-roundtrip-same-reading", input={"t": t, "zone": name}, observed=o, expected="localtime2sec returns an instant with the same local text")
            if len(cands) > 1:
                ctx.dist("zone_overlap_instants")
    ctx.dist("zone_cases", n)
    # selection of the zone: --tz, TZ env, ENV["TZ"]; GMT functions unaffected
    t = 1500000000
    want = {}
    for name in ("Asia/Istanbul", "America/Sao_Paulo", "Asia/Kolkata"):
        exprs = ["sec2localtime($t)", "sec2gmt($t)", 'strftime($t, "%Y-%m-%d %H:%M:%S")', 'gmt2sec("2017-07-14T02:40:00Z")', 'localtime2sec(sec2localtime($t))']
        rr = par(ctx, [((["t"], [(str(t),)], P(['sec2localtime($t, 0, "%s")' % name, "sec2gmt($t)", 'strftime($t, "%Y-%m-%d %H:%M:%S")', 'gmt2sec("2017-07-14T02:40:00Z")']), ["l", "g", "s", "p"]), {}),
                       ((["t"], [(str(t),)], P(exprs), ["l", "g", "s", "p", "b"]), {"args": ["--tz", name]}),
                       ((["t"], [(str(t),)], P(exprs), ["l", "g", "s", "p", "b"]), {"env": {"TZ": name}})])
        r0, r1, r2 = rr[0][0], rr[1][0], rr[2][0]
        st, out, err = mlr_run(ctx, ["-n", "put", 'end{ENV["TZ"]="%s"; print sec2localtime(%d) . "\\t" . sec2gmt(%d) . "\\t" . strftime(%d, "%%Y-%%m-%%d %%H:%%M:%%S") . "\\t" . gmt2sec("2017-07-14T02:40:00Z") . "\\t" . localtime2sec(sec2localtime(%d))}' % (name, t, t, t, t)], env={"TZ": "Asia/Tokyo"})
        r3 = dict(zip(["l", "g", "s", "p", "b"], out.decode().rstrip("\n").split("\t")))
        ctx.count(("tzsel", name))
        for tag, r in (("--tz", r1), ("TZ", r2), ("ENV", r3)):
            if r.get("l") != r0["l"] or r.get("g") != r0["g"] or r.get("s") != r0["s"] or r.get("p") != r0["p"] or r.get("b") != str(t):
                bad("tz-selection", input={"zone": name, "via": tag, "t": t}, observed=r, expected=r0)

    one_argument_zone_forms(ctx, zones, bad)


def one_argument_zone_forms(ctx, zones, bad):
    """every function that takes its zone either as an argument or from --tz / TZ / ENV["TZ"]: the form WITHOUT the
    zone argument, with the zone selected in each of the three ways, equals the form WITH the zone argument, over the
    whole range of years and on texts with a fraction just below the next second (dropped, never rounded up).
    Deterministic part first (fixed instants), then a few random ones; every zone, every way, every seed."""
    fixed = [1500000000, 1499999999, 0, -1, -1869872216, 1510462800, 1521941400, -14831769600, 16725225600,
             -62135596800 + 400 * 86400, 253402300799 - 400 * 86400, -9223372037, 9223372037]
    ts = fixed + [ctx.rng.randint(-62135596800 + 400 * 86400, 253402300799 - 400 * 86400) for _ in range(4 if ctx.tier == "quick" else 100)] + \
         [ctx.rng.randint(-2000000000, 4000000000) for _ in range(6 if ctx.tier == "quick" else 200)]
    rows = [(str(t),) for t in ts]
    NARROW = "(abs($t) < 9000000000)"
    def exprs(z):
        L = 'sec2localtime($t, 0, "%s")' % z
        G = "sec2gmt($t)"
        GF = "nsec2gmt($t * 1000000000 + 999999999, 9)"
        LF = 'nsec2localtime($t * 1000000000 + 999999900, 9, "%s")' % z
        pairs = [("sec2localtime", "sec2localtime($t)", L),
                 ("sec2localtime-3", "sec2localtime($t, 3)", 'sec2localtime($t, 3, "%s")' % z),
                 ("sec2localdate", "sec2localdate($t)", 'sec2localdate($t, "%s")' % z),
                 ("localtime2sec", "localtime2sec(%s)" % L, 'localtime2sec(%s, "%s")' % (L, z)),
                 ("gmt2localtime", "gmt2localtime(%s)" % G, 'gmt2localtime(%s, "%s")' % (G, z)),
                 ("localtime2gmt", "localtime2gmt(%s)" % L, 'localtime2gmt(%s, "%s")' % (L, z)),
                 ("gmt2localtime-is-sec2localtime", "gmt2localtime(%s)" % G, L),
                 ("localtime2gmt-is-sec2gmt-of-localtime2sec", "localtime2gmt(%s)" % L, 'sec2gmt(localtime2sec(%s, "%s"))' % (L, z)),
                 ("gmt2localtime-fraction", '(%s ? gmt2localtime(%s) : "skip")' % (NARROW, GF), '(%s ? %s : "skip")' % (NARROW, L)),
                 ("gmt2localtime-fraction-2arg", '(%s ? gmt2localtime(%s, "%s") : "skip")' % (NARROW, GF, z), '(%s ? %s : "skip")' % (NARROW, L)),
                 ("localtime2gmt-fraction", '(%s ? localtime2gmt(%s) : "skip")' % (NARROW, LF), '(%s ? localtime2gmt(%s, "%s") : "skip")' % (NARROW, L, z)),
                 ("localtime2gmt-fraction-2arg", '(%s ? localtime2gmt(%s, "%s") : "skip")' % (NARROW, LF, z), '(%s ? localtime2gmt(%s, "%s") : "skip")' % (NARROW, L, z)),
                 ("nsec2localtime", '(%s ? nsec2localtime($t * 1000000000, 6) : "skip")' % NARROW, '(%s ? nsec2localtime($t * 1000000000, 6, "%s") : "skip")' % (NARROW, z)),
                 ("nsec2localdate", '(%s ? nsec2localdate($t * 1000000000) : "skip")' % NARROW, '(%s ? nsec2localdate($t * 1000000000, "%s") : "skip")' % (NARROW, z)),
                 ("localtime2nsec", '(%s ? localtime2nsec(%s) : "skip")' % (NARROW, L), '(%s ? localtime2nsec(%s, "%s") : "skip")' % (NARROW, L, z))]
        return pairs
    jobs, tags = [], []
    for z in zones:
        name = z["name"]
        pairs = exprs(name)
        flat = [e for _, a, b in pairs for e in (a, b)]
        outs = ["c%d" % i for i in range(len(flat))]
        other = "Asia/Tokyo" if name != "Asia/Tokyo" else "America/New_York"
        for via, prefix, kw in (("--tz", "", {"args": ["--tz", name]}),
                                ("TZ", "", {"env": {"TZ": name}}),
                                ('ENV["TZ"]', 'ENV["TZ"] = "%s"; ' % name, {"env": {"TZ": other}}),
                                ("--tz over TZ", "", {"args": ["--tz", name], "env": {"TZ": other}})):
            jobs.append(((["t"], rows, prefix + P(flat), outs), kw))
            tags.append((name, via, pairs))
    results = par(ctx, jobs)
    for (name, via, pairs), res in zip(tags, results):
        for (tstr,), o in zip(rows, res):
            ctx.count(("one-argument-zone-form", name, via, tstr))
            for i, (label, a, b) in enumerate(pairs):
                got, want = o["c%d" % (2 * i)], o["c%d" % (2 * i + 1)]
                if got != want or got == ERR:
                    bad("zone-from-context-equals-zone-argument", input={"t": int(tstr), "zone": name, "zone_selected_via": via, "law": label, "without_zone_argument": a, "reference": b},
                        observed=got, expected=want,
                        how="mlr %s-n put 'end{%sprint %s}'  with $t = %s" % ("--tz %s " % name if via.startswith("--tz") else "", 'ENV["TZ"]="%s"; ' % name if via.startswith("ENV") else "", a, tstr))
                    break


UNITS = ["d", "m", "y", "ym", "md", "yd"]


def ref_datediff(a, b, u):
    """spreadsheet DATEDIF on the GMT calendar dates of a and b (python reference)"""
    if b < a:
        return -ref_datediff(b, a, u)
    da, db = a // 86400, b // 86400
    y1, m1, d1, _ = ref_civil(da); y2, m2, d2, _ = ref_civil(db)
    months = (y2 - y1) * 12 + m2 - m1 - (1 if d2 < d1 else 0)
    years = y2 - y1 - (1 if (m2, d2) < (m1, d1) else 0)
    def dn(y, m, d):                       # day number with time.Date-style normalisation of month 0 / day overflow
        if m == 0:
            y, m = y - 1, 12
        return days_from_civil_py(y, m, 1) + d - 1
    if u == "d": return db - da
    if u == "m": return months
    if u == "y": return years
    if u == "ym": return months - 12 * years
    if u == "md": return d2 - d1 if d2 >= d1 else dn(y2, m2, d2) - dn(y2, m2 - 1, d1)
    anchor = y2 - 1 if (m2, d2) < (m1, d1) else y2
    return dn(y2, m2, d2) - dn(anchor, m1, d1)


def days_from_civil_py(y, m, d):
    """day number of a valid date by counting whole years and months (independent of ref_civil)"""
    y0 = y - 1
    n = y0 * 365 + y0 // 4 - y0 // 100 + y0 // 400
    leap = y % 4 == 0 and (y % 100 != 0 or y % 400 == 0)
    ml = [31, 29 if leap else 28, 31, 30, 31, 30, 31, 31, 30, 31, 30, 31]
    return n + sum(ml[:m - 1]) + d - 1 - 719162


def datediff_cases(ctx, pts, case, bad):
    rng = ctx.rng
    inr = [t for t in pts if LO <= t <= HI]
    pairs = [(LO, HI), (HI, LO), (LO, 0), (0, HI), (951782400, 1709164800), (1709164800, 951782400), (-2208988800, 7258118400)]
    n = 250 if ctx.tier == "quick" else 6000
    for _ in range(n):
        a = rng.choice(inr) if rng.random() < 0.6 else rng.randint(LO, HI)
        r = rng.random()
        if r < 0.35:
            b = rng.choice(inr)
        elif r < 0.6:
            b = rng.randint(LO, HI)                                   # usually centuries apart
        elif r < 0.8:
            b = a + rng.randint(-400, 400) * 86400 + rng.randint(-86400, 86400)
        else:
            b = a + rng.choice([-1, 1]) * rng.randint(106000, 108000) * 86400      # around the 292-year mark
        if LO <= b <= HI:
            pairs.append((a, b))
    rows = [(str(a), str(b), rng.choice(UNITS)) for a, b in pairs]
    rows += [(str(a), str(b), u) for a, b in pairs[:7] for u in UNITS]
    res = mlr_rows(ctx, ["a", "b", "u"], rows, P(["datediff($a,$b,$u)", "datediff($a,$b,toupper($u))", 'datediff($a,$b,"d")', 'datediff($b,$a,$u)']), ["v", "vu", "d", "rev"])
    for (a, b, u), o in zip(rows, res):
        a, b = int(a), int(b)
        if o["v"] != ERR:
            case(15, a, b, str(UNITS.index(u)), o["v"], {"fn": "datediff", "a": a, "b": b, "unit": u})
        want = ref_datediff(a, b, u)
        how = "mlr -n put 'end{print datediff(%d, %d, \"%s\")}'" % (a, b, u)
        if o["v"] != str(want) or o["vu"] != str(want):
            bad("datediff-calendar", input={"a": a, "b": b, "unit": u, "dates": [ref_fmt(a, 0, 0), ref_fmt(b, 0, 0)]}, observed=[o["v"], o["vu"]], expected=str(want), how=how)
        if o["d"] != str(b // 86400 - a // 86400):
            bad("datediff-calendar", input={"a": a, "b": b, "unit": "d", "dates": [ref_fmt(a, 0, 0), ref_fmt(b, 0, 0)]}, observed=o["d"], expected=str(b // 86400 - a // 86400),
                how="mlr -n put 'end{print datediff(%d, %d, \"d\")}'" % (a, b))
        if a != b and o["rev"] != str(-want):
            bad("datediff-calendar", input={"a": b, "b": a, "unit": u}, observed=o["rev"], expected=str(-want), how="mlr -n put 'end{print datediff(%d, %d, \"%s\")}'" % (b, a, u))
    ctx.dist("datediff_cases", len(rows))


def zone_switch_cases(ctx, zones, wlo, whi, pts, case, bad):
    """one mlr process, the zone is changed per record through ENV["TZ"] (after --tz / TZ / nothing at start-up);
    functions without an explicit zone must follow the zone named NOW, exactly like the explicit-zone forms"""
    rng = ctx.rng
    margin = 5 * 86400
    ts = [t for t in pts if wlo + margin <= t <= whi - margin]
    fmt = "%Y-%m-%d %H:%M:%S"
    exprs = ["sec2localtime($t)", "localtime2sec(sec2localtime($t))", 'strptime_local(sec2localtime($t), "%s")' % fmt, "localtime2gmt(sec2localtime($t))",
             'strftime_local($t, "%s")' % fmt, "sec2localdate($t)", "gmt2localtime(sec2gmt($t))",
             "sec2localtime($t, 0, $z)", "localtime2sec(sec2localtime($t, 0, $z), $z)", "sec2gmt(localtime2sec(sec2localtime($t, 0, $z), $z))", "sec2localdate($t, $z)",
             "sec2gmt($t)", "gmt2sec(sec2gmt($t))", 'strptime(sec2gmt($t), "%Y-%m-%dT%H:%M:%SZ")', "localtime2sec($w)", "localtime2sec($w, $z)"]
    names = ["l", "p", "q", "lg", "sfl", "ld", "g2l", "le", "pe", "lge", "lde", "g", "gp", "gq", "pw", "pwe"]
    prog = 'ENV["TZ"] = $z; ' + P(exprs)
    jobs, allrows = [], []
    starts = [([], None), (["--tz", "Asia/Tokyo"], None), ([], {"TZ": "America/New_York"}), (["--tz", "Asia/Kolkata"], {"TZ": "Europe/London"})]
    for args, env in starts:
        rows = []
        order = list(range(len(zones)))
        for rnd in range(3 if ctx.tier == "quick" else 20):
            rng.shuffle(order)
            for zi in order:
                rows.append((str(rng.choice(ts)), zones[zi]["name"], "2023-07-01 12:00:00"))
                if rng.random() < 0.3:                      # the same zone twice in a row, then back
                    rows.append((str(rng.choice(ts)), zones[zi]["name"], "2001-01-15 00:30:00"))
        allrows.append(rows)
        jobs.append(((["t", "z", "w"], rows, prog, names), {"args": args, "env": env}))
    results = par(ctx, jobs)
    zidx = {z["name"]: i for i, z in enumerate(zones)}
    n = 0
    for (args, env), rows, res in zip(starts, allrows, results):
        prev = None
        for (t, zn, w), o in zip(rows, res):
            n += 1
            t = int(t)
            case(12, t, zidx[zn], o["l"], "", {"fn": "sec2localtime after ENV[TZ] switch", "zone": zn, "t": t, "start": args or env})
            if o["p"] != ERR:
                case(13, int(o["p"]), zidx[zn], o["l"], "", {"fn": "localtime2sec after ENV[TZ] switch", "zone": zn, "text": o["l"]})
            if o["pw"] != ERR:
                case(13, int(o["pw"]), zidx[zn], w, "", {"fn": "localtime2sec after ENV[TZ] switch", "zone": zn, "text": w})
            info = {"zone_now": zn, "zone_before": prev, "t": t, "startup": {"args": args, "env": env}}
            if (o["l"], o["sfl"], o["g2l"], o["ld"]) != (o["le"], o["le"], o["le"], o["lde"]):
                bad("tz-switch-format", input=info, observed={k: o[k] for k in ("l", "sfl", "g2l", "ld")}, expected={"explicit-zone": o["le"], "date": o["lde"]})
            if (o["p"], o["q"], o["pw"]) != (o["pe"], o["pe"], o["pwe"]) or o["lg"] != o["lge"]:
                bad("tz-switch-parse", input=dict(info, text=o["l"], text2=w), observed={k: o[k] for k in ("p", "q", "lg", "pw")},
                    expected={"localtime2sec(text, zone)": o["pe"], "localtime2gmt": o["lge"], "localtime2sec(text2, zone)": o["pwe"]},
                    how="mlr -n put 'end{ENV[\"TZ\"]=\"%s\"; x = localtime2sec(\"%s\"); ENV[\"TZ\"]=\"%s\"; print localtime2sec(\"%s\")}'  (expected %s)" % (prev or "Asia/Tokyo", w, zn, w, o["pwe"]))
            if o["gp"] != str(t) or o["gq"] != str(t) or o["g"] != ref_fmt(t, 0, 0):
                bad("tz-affects-gmt-functions", input=info, observed={k: o[k] for k in ("g", "gp", "gq")}, expected=[ref_fmt(t, 0, 0), t])
            prev = zn
    ctx.dist("zone_switch_records", n)


def verb_cases(ctx, bad):
    vals = ["0", "1500000000", "-1", "1.7", "-1.5", "abc", "", "0x10", "1e3", "2001-02-03", "true", "-", "1500000000123"]
    rows = [tuple(ctx.rng.choice(vals) for _ in range(3)) for _ in range(40)]
    optsets = ((" ", 0, 1), ("-3", 3, 1), ("-9", 9, 1), ("--millis", 0, 1000), ("--micros -6", 6, 10 ** 6))
    jobs = []
    for opts, nd, div in optsets:
        o = [x for x in opts.split() if x]
        jobs.append(((["a", "b", "c"], rows, None, None), {"verb": ["sec2gmt"] + o + ["a,c,zz"]}))
        jobs.append(((["a", "b", "c"], rows, P(["is_numeric($a) ? sec2gmt($a / %d, %d) : $a" % (div, nd) if (div != 1) else "is_numeric($a) ? sec2gmt($a, %d) : $a" % nd, "$b",
                                                "is_numeric($c) ? sec2gmt($c / %d, %d) : $c" % (div, nd) if (div != 1) else "is_numeric($c) ? sec2gmt($c, %d) : $c" % nd]), ["a", "b", "c"]), {}))
    jobs.append(((["a", "b", "c"], rows, None, None), {"verb": ["sec2gmtdate", "a,c,zz"]}))
    jobs.append(((["a", "b", "c"], rows, P(["sec2gmtdate($a)", "$b", "sec2gmtdate($c)"]), ["a", "b", "c"]), {}))
    results = par(ctx, jobs)
    for i, (opts, nd, div) in enumerate(optsets):
        res, fn = results[2 * i], results[2 * i + 1]
        for r, v, f in zip(rows, res, fn):
            ctx.count(("verb", opts, r))
            if (v.get("a"), v.get("b"), v.get("c")) != (f["a"], r[1], f["c"]) or list(v.keys()) != ["a", "b", "c"]:
                bad("sec2gmt-verb", input={"row": r, "opts": opts}, observed=v, expected=f)
            for k, x in zip("abc", r):
                if not re.fullmatch(r"[-+]?(0x[0-9a-fA-F]+|\d+\.?\d*([eE][-+]?\d+)?|\.\d+)", x) and v.get(k) != x:
                    bad("sec2gmt-verb-nonnumeric-changed", input={"row": r, "opts": opts}, observed=v)
    res, fn = results[-2], results[-1]
    for r, v, f in zip(rows, res, fn):
        ctx.count(("verb-date", r))
        if (v.get("a"), v.get("b"), v.get("c")) != (f["a"], r[1], f["c"]):
            bad("sec2gmtdate-verb", input={"row": r}, observed=v, expected=f)
    # functions on non-numeric input: documented "Leaves non-numbers as-is"
    nn = [("abc",), ("2001-02-03",), ("true",), ("-",)]
    res = mlr_rows(ctx, ["x"], nn, P(["sec2gmt($x)", "sec2gmt($x, 3)", "sec2gmtdate($x)", "nsec2gmt($x)", "nsec2gmt($x, 3)", "nsec2gmtdate($x)"]), ["s1", "s2", "sd", "n1", "n2", "nd"])
    for (x,), o in zip(nn, res):
        ctx.count(("nonnumeric", x))
        if o["s1"] != x or o["sd"] != x or o["nd"] != x or o["n2"] != x:
            bad("sec2gmt-nonnumeric-changed", input=x, observed=o, expected=x)
        if o["s2"] != x:
            bad("sec2gmt-binary-nonnumeric-error", input=x, observed=o["s2"], expected=x, how="mlr -n put 'end{print sec2gmt(\"%s\", 3)}'" % x,
                doc="reference-dsl-builtin-functions.md sec2gmt: Leaves non-numbers as-is")
        if o["n1"] != x:
            bad("nsec2gmt-unary-nonnumeric-error", input=x, observed=o["n1"], expected=x, how="mlr -n put 'end{print nsec2gmt(\"%s\")}'" % x,
                doc="reference-dsl-builtin-functions.md nsec2gmt: Leaves non-numbers as-is")


def replay(ctx, path):
    obj = json.loads(Path(path).read_text())
    how = obj.get("how")
    if how and how.startswith("mlr -n put '"):
        prog = how[len("mlr -n put '"):-1]
        st, out, err = mlr_run(ctx, ["-n", "put", prog])
        got = out.decode("utf-8", "replace").strip()
        print("replay: %s -> %r (expected %r)" % (how, got, obj.get("expected")))
        ctx.count(how)
        if str(obj.get("expected")) != got:
            ctx.violation(dict(obj, replayed=True, observed=got))
    else:
        print("replay: no direct command stored; re-running the check")
        run(ctx)
