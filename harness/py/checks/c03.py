"""C03 — fields a chain does not assign pass through byte-for-byte (DESIGN 3/C03)."""
import csv, io, json, re
from vlib import *
from checks import c06
from checks import c05_batch
import os, shutil, tempfile

FLAGS = ["default", "S", "A", "O"]
FLAGN = {"default": 0, "S": 1, "A": 2, "O": 3}
FLAGARGS = {"default": [], "S": ["-S"], "A": ["-A"], "O": ["-O"]}

# every numeric spelling class of the property statement, plus strings
SPELLINGS = [b"0xff", b"0xFF", b"0XfF", b"-0xff", b"+0xff", b"0b101", b"-0b101", b"0B11", b"0o17", b"-0o17", b"+5", b"+5.0", b"007", b"-007", b"08", b"0089",
             b"1e3", b"1E3", b"1e+3", b"1.5e-3", b"-1E03", b"1.500", b"1.0000000000000000001", b"-0", b"-0.0", b"+0", b"1_000", b".5", b"5.", b"-.5", b"+.5e1",
             b"0", b"1", b"-1", b"42", b"00", b"0.0", b"0e0", b"100000000000000000000", b"9223372036854775807", b"9223372036854775808", b"-9223372036854775808",
             b"0xffffffffffffffff", b"0x8000000000000000", b"0x10000000000000000", b"3.14159265358979323846264338327950288", b"1e308", b"1e309", b"1e-400",
             b"123456789.123456789123", b"1.10", b"10.00", b"0.10", b"1e5", b"1.e5", b"Inf", b"NaN", b"-inf", b"true", b"false", b"abc", b"ABC", b"a b", b" 12", b"12 ", b" ",
             b"", b"\xc3\xa9t\xc3\xa9", b"\xe2\x82\xac5", b"caf\xc3\xa9 0x1F", b"\xf0\x9f\x98\x80", b"0x", b"1e", b"--1", b"1-", b"1.2.3", b"0b2", b"0o8", b"1,5".replace(b",", b";"),
             b"12abc", b"0x1p3", b"1d5", b"1f", b"(error)", b"(absent)", b"-", b"+", b".", b"1:2", b"2023-01-01", b"00:00:01", b"1/2", b"$5", b"5%", b"#ff0000"]

UNARY = ["Type", "IsLegit", "IsErrorOrAbsent", "IsError", "IsAbsent", "IsNull", "IsVoid", "IsErrorOrVoid", "IsEmptyString", "IsString", "IsStringOrVoid",
         "IsStringOrInt", "IsBytes", "IsInt", "IsFloat", "IsNumeric", "IsIntZero", "IsBool", "IsTrue", "IsFalse", "IsArray", "IsMap", "IsArrayOrMap", "IsFunction",
         "GetTypeBit", "GetTypeName", "GetStringValue", "GetIntValue", "GetFloatValue", "GetNumericToFloatValue", "GetBoolValue", "GetArray", "GetMap",
         "GetNumericNegativeGuarded", "String", "OriginalString", "StringMaybeQuoted", "FormatAsJSON", "StringifyValuesRecursively",
         "FormatD", "FormatX", "FormatF", "FormatS",
         "BifTypeof", "BifStrlen", "BifString", "BifToupper", "BifAbs", "BifSec2gmt", "BifHexfmt", "BifInt", "BifFloat", "BifBoolean", "BifIsString", "BifFmtnum",
         "BifFmtifnum", "BifNegate", "BifMd5", "BifTruncate", "BifSplitax", "BifSub", "BifStrptime", "BifBitwiseNot", "BifCeiling"]
BINARY = ["Equals", "GreaterThan", "GreaterThanOrEquals", "LessThan", "LessThanOrEquals", "Cmp", "LexicalAscending", "LexicalDescending", "CaseFoldAscending",
          "CaseFoldDescending", "NumericAscending", "NumericDescending", "NaturalAscending", "NaturalDescending",
          "BifPlus", "BifTimes", "BifDivide", "BifDot", "BifLessThan", "BifEquals", "BifMin", "BifMax", "BifBitwiseAnd", "BifCmp"]   # BifStringMatches exits the process on a data value that is not a regex


def coq_uop(name):
    if name == "StringifyValuesRecursively":
        return "UStringify"
    if name in ("FormatD", "FormatX", "FormatF"):
        return "(UFormat false)"
    if name == "FormatS":
        return "(UFormat true)"
    if name == "BifString":
        return "(UBif false true)"     # String() only: the type is forced only under --ofmt
    if name.startswith("Bif"):
        return "(UBif true false)"
    return "U" + name


def coq_bop(name):
    if name.startswith("Bif"):
        return "(BBif %s)" % ("true" if name == "BifDot" else "false")
    return "B" + name


def coq_rop(tok):
    if tok in ("Cx", "Cy"):
        return "(On%s UCopy)" % tok[1].upper()
    if tok[0] in "xy":
        return "(On%s %s)" % (tok[0].upper(), coq_uop(tok[1:]))
    if tok[0] == "b":
        return "(Bin %s)" % coq_bop(tok[1:])
    return "(BinSwapped %s)" % coq_bop(tok[1:])


def rand_numeral(rng):
    d = lambda k, pool="0123456789": "".join(rng.choice(pool) for _ in range(k))
    sign = rng.choice(["", "", "-", "+"])
    k = rng.randrange(8)
    if k == 0:
        s = sign + d(rng.randint(1, 21))
    elif k == 1:
        s = sign + "0" + rng.choice("xX") + d(rng.choice([1, 2, 8, 16, 17]), "0123456789abcdefABCDEF")
    elif k == 2:
        s = sign + "0" + rng.choice("bB") + d(rng.choice([1, 5, 63, 64]), "01")
    elif k == 3:
        s = sign + "0" + rng.choice("oO") + d(rng.choice([1, 3, 21, 22]), "01234567")
    elif k == 4:
        s = sign + "0" * rng.randint(1, 3) + d(rng.randint(1, 6))
    elif k == 5:
        s = sign + d(rng.randint(0, 12)) + "." + d(rng.randint(0, 22)) + "0" * rng.randint(0, 3)
    elif k == 6:
        s = sign + d(rng.randint(1, 6)) + rng.choice(["", ".", "." + d(2)]) + rng.choice("eE") + rng.choice(["", "-", "+"]) + d(rng.randint(1, 3))
    else:
        s = d(rng.randint(1, 4)) + rng.choice(["_", " ", "a", "x", "e", ".", "-"]) + d(rng.randint(0, 3))
    return s.encode()


def gen_value(rng):
    return rng.choice(SPELLINGS) if rng.random() < 0.6 else rand_numeral(rng)


def hx(b):
    return b.hex() if b else "-"


def unhx(s):
    return b"" if s == "-" else bytes.fromhex(s)


def parse_state(txt):
    p = txt.split()
    return (unhx(p[0]), int(p[1]), int(p[2]), unhx(p[3]))


def run_ops(ctx, flag, ofmt, cases):
    inp = "".join("%s %s %s\n" % (hx(s1), hx(s2), ",".join(ops)) for s1, s2, ops in cases)
    rc, out, err = sh([ctx.implrun(), "mlrval-ops", flag, ofmt], inp=inp, timeout=600)
    lines = out.split("\n")[:len(cases)]
    if rc != 0 or len(lines) != len(cases):
        raise RuntimeError(f"implrun mlrval-ops {flag} failed rc={rc}: {err[-800:]}")
    res = []
    for l in lines:
        o, sx, sy = [x.strip() for x in l.split("|")]
        obs = []
        if o:
            for item in o.split(";"):
                z, b = item.split(":")
                obs.append((int(z), unhx(b)))
        res.append((obs, parse_state(sx), parse_state(sy)))
    return res


def ops_correspondence(ctx, props_ok):
    rng = ctx.rng
    n_per = 160 if ctx.tier == "quick" else 4000
    terms, meta = [], []
    oracle_bad = []
    for flag in FLAGS:
        for ofmt in ("", "%.4lf"):
            cases = []
            n = n_per if not ofmt else n_per // 3
            for _ in range(n):
                s1, s2 = gen_value(rng), gen_value(rng)
                ops = []
                for _ in range(rng.choice([0, 1, 2, 3, 4, 6, 9])):
                    r = rng.random()
                    if r < 0.62:
                        u = rng.choice(UNARY)
                        if ofmt and u == "StringifyValuesRecursively":
                            u = "String"      # --jvquoteall + --ofmt re-renders floats: an assignment, outside the property
                        ops.append(rng.choice("xy") + u)
                    elif r < 0.7:
                        ops.append(rng.choice(["Cx", "Cy"]))
                    else:
                        ops.append(rng.choice("br") + rng.choice(BINARY))
                cases.append((s1, s2, ops))
            # each spelling once with every unary op and every comparator (systematic part)
            if not ofmt:
                for i, s in enumerate(SPELLINGS):
                    cases.append((s, SPELLINGS[(i * 7 + 3) % len(SPELLINGS)], ["x" + u for u in UNARY[(i % 4)::4]] + ["b" + b for b in BINARY[(i % 3)::3]]))
            with ctx.timed("impl"):
                res = run_ops(ctx, flag, ofmt, cases)
            ctx.dist(f"ops:{flag}:{'ofmt' if ofmt else 'plain'}", len(cases))
            for (s1, s2, ops), (obs, sx, sy) in zip(cases, res):
                ctx.count(("ops", flag, ofmt, s1, s2, tuple(ops)), nontrivial=bool(ops))
                for o, (z, b) in zip(ops, obs):
                    ctx.dist("op:" + o[1:] if o[0] in "xybr" else "op:Copy")
                    if z == -99 and b == b"panic":
                        # a built-in function panicked on this argument: not a matter of this property (the value's text is still checked below)
                        inc = ctx.cov.setdefault("incidental_panics_in_builtins", {})
                        inc.setdefault(o[1:], []).append((s1 if o[0] in "xb" else s2).decode("latin1")) if len(inc.get(o[1:], [])) < 5 else None
                # ---- property oracle on the implementation's own output
                for s, st in ((s1, sx), (s2, sy)):
                    p, valid, ty, out = st
                    is_float = (ty == 1) or (ty == -1 and c06.ref_infer(s, flag)[0] == "float")
                    want_out = out == s or (ofmt and is_float)
                    if p != s or valid != 1 or not want_out:
                        oracle_bad.append({"flag": flag, "ofmt": ofmt, "input_hex": s.hex(), "input": s.decode("latin1"), "ops": ops, "s1_hex": s1.hex(), "s2_hex": s2.hex(),
                                           "observed_printrep": p.decode("latin1"), "observed_valid": valid, "observed_type": ty, "observed_String": out.decode("latin1"),
                                           "expected": "printrep and String() equal to the input text" + (" (String() may be --ofmt-formatted only for floats)" if ofmt else "")})
                st = lambda t: "(%s, %d, %s, %s)" % (coq_bytes(t[0]), t[1], coq_z(t[2]), coq_bytes(t[3]))
                terms.append("(%d, %d, %s, %s, %s, %s, %s, %s)" % (
                    FLAGN[flag], 1 if ofmt else 0, coq_bytes(s1), coq_bytes(s2), coq_list([coq_rop(o) for o in ops]),
                    coq_list(["(%s, %s)" % (coq_z(z), coq_bytes(b)) for z, b in obs]), st(sx), st(sy)))
                meta.append((flag, ofmt, s1, s2, ops, obs, sx, sy))
    for i in (3, 50, 400):
        if i < len(meta):
            m = meta[i]
            ctx.sample({"kind": "mlrval-ops", "flag": m[0], "ofmt": m[1], "s1": m[2].decode("latin1"), "s2": m[3].decode("latin1"), "ops": m[4],
                        "final_state_x": [m[6][0].decode("latin1"), m[6][1], m[6][2]]})
    for ob in sorted(oracle_bad, key=lambda o: len(o["ops"]))[:3]:
        ctx.violation(dict(ob, broken="oracle: read ops changed the text of a value taken from data", kind="mlrval-ops",
                           **{"class": "read-op-changes-text"}))
    if not props_ok:
        return
    with ctx.timed("coq_cases"):
        bad, err = coq_eval_mismatches(ctx, "C03ops", "Base.Record C06.Model C03.Model C03.Harness", "ops_case", "chk", terms, shard=len(terms) // 2 + 1)
    ctx.cov["correspondence"]["mlrval_ops"] = {"cases": len(terms), "mismatches": len(bad)}
    if err:
        ctx.violation({"broken": "correspondence-evaluation C03ops", "detail": err[-2000:]}, found_input=False)
        return
    for i in bad[:3]:
        m = meta[i]
        ctx.violation({"broken": "correspondence C03.Harness.chk (model and implementation differ on a read history; the text oracle "
                                 + ("also fails" if oracle_bad else "holds") + ")", "kind": "mlrval-ops",
                       "flag": m[0], "ofmt": m[1], "s1_hex": m[2].hex(), "s2_hex": m[3].hex(), "ops": m[4], "observed_results": [(z, b.decode("latin1")) for z, b in m[5]],
                       "observed_x": [m[6][0].decode("latin1"), m[6][1], m[6][2], m[6][3].decode("latin1")],
                       "observed_y": [m[7][0].decode("latin1"), m[7][1], m[7][2], m[7][3].decode("latin1")]}, found_input=False)


# methods of *Mlrval that assign by design (not read operations)
ASSIGNERS = {"SetFromString", "SetFromPrevalidatedIntString", "SetFromPrevalidatedFloatString", "PutIndexed", "RemoveIndexed", "ArrayAppend", "MapPut",
             "UnmarshalJSON"}


def method_sweep(ctx):
    """every exported method of *Mlrval (reflection) applied to values from data: which ones change String()?"""
    inp = "".join(hx(s) + "\n" for s in SPELLINGS)
    table = {}
    for flag in FLAGS:
        rc, out, err = sh([ctx.implrun(), "mlrval-methods", flag], inp=inp, timeout=300)
        if rc != 0:
            raise RuntimeError("implrun mlrval-methods failed: " + err[-500:])
        for l in out.splitlines():
            name, status, ncalled, nchanged, first = l.split()
            ent = table.setdefault(name, {"status": status, "called": 0, "changed": 0, "first": None})
            ent["called"] += int(ncalled)
            ent["changed"] += int(nchanged)
            if int(nchanged) and ent["first"] is None:
                ent["first"] = (flag, first)
            ctx.count(("method", flag, name))
    modelled = set(UNARY) | {"Copy"}
    ev = {"exported_methods": len(table),
          "called_and_text_preserved": sorted(n for n, e in table.items() if e["status"] == "called" and not e["changed"]),
          "skipped": {n: e["status"][8:] for n, e in table.items() if e["status"] != "called"},
          "changed_text": {n: e["first"] for n, e in table.items() if e["changed"]},
          "modelled_as_read_ops": sorted(n for n in table if n in modelled),
          "readers_not_in_the_model_(oracle_only)": sorted(n for n, e in table.items() if e["status"] == "called" and not e["changed"] and n not in modelled and n not in ASSIGNERS)}
    ctx.cov["mlrval_method_sweep"] = ev
    nrep = 0
    for n, e in sorted(table.items()):
        if e["changed"] and n not in ASSIGNERS and not n.startswith("Set") and nrep < 3:
            nrep += 1
            flag, first = e["first"]
            ctx.violation({"broken": "oracle: an exported *Mlrval method that is not an assignment changes the text of a value taken from data",
                           "kind": "method-sweep", "method": n, "flag": flag, "input_hex": "" if first == "(empty)" else first,
                           "class": "mlrval-method-changes-text:" + n})


# ------------------------------------------------------------------------------------------ pipeline level
KEYS = ["a", "b", "c", "d", "e"]
SAFE = re.compile(rb"^[^,=\n\r\"]*$")


def cell_values(rng, n, nospace=False):
    out = []
    while len(out) < n:
        v = gen_value(rng)
        if not SAFE.match(v) or b";" in v or b"\t" in v:
            continue
        if nospace and (b" " in v or v == b"" or v == b"-"):
            continue
        out.append(v)
    return out


def gen_program(rng, allkeys=None):
    """a per-record program over fields a..e: (Coq ract terms, mlr chain, origin) where origin maps every field present
    afterwards to the INPUT field whose value it still carries (renames move values, never assign them), or None once a
    statement assigned it.  Names that existed earlier in the program (renamed away / removed) stay candidate targets of
    later assignments, renames and lookups."""
    present = list(KEYS)
    origin = {k: k for k in (allkeys or (["id"] + KEYS))}
    gone = []
    racts, chain = [], []
    newi = [0]

    def newkey():
        newi[0] += 1
        return "n%d" % newi[0]
    for _ in range(rng.randint(1, 5)):
        r = rng.random()
        if r < 0.30 and present:
            k = rng.choice(present)
            kind = rng.randrange(9) if k in KEYS else rng.randrange(5, 9)      # derived fields may hold (error): only sort keys read them
            verb = [["filter", f'is_present(${k}) || true'], ["filter", f'${k} < 5 || true'], ["filter", f'typeof(${k}) == "int" || true'],
                    ["filter", f'${k} =~ "^a" || true'], ["filter", f'is_not_empty(${k}) || true'], ["sort", "-f", k], ["sort", "-nr", k],
                    ["sort", "-c", k], ["sort", "-t", k]][kind]
            racts.append("RRead %s [UType; UString]" % coq_bytes(k.encode()))
            chain.append(verb)
        elif r < 0.62 and present:
            k = rng.choice(present)
            new = rng.choice(gone) if gone and rng.random() < 0.3 else newkey()
            dk = rng.randrange(14)
            sfx = rng.choice(["a", "_x", "0"])
            expr, d = [(f'typeof(${k})', "DTypeof"), (f'asserting_not_null(typeof(${k}))', "DTypeof"), (f'${k} . "{sfx}"', "(DDotSuffix %s)" % coq_bytes(sfx.encode())),
                       (f'${k}', "DCopyOf"), (f'"lit{sfx}"', "(DConst %s)" % coq_bytes(("lit" + sfx).encode())),
                       (f'${k} + 1', "DOpaque"), (f'${k} * 2', "DOpaque"), (f'-${k}', "DOpaque"), (f'abs(${k})', "DOpaque"), (f'${k} < 3', "DOpaque"),
                       (f'fmtifnum(${k}, "%.2lf")', "DOpaque"), (f'toupper(${k})', "DOpaque"), (f'is_string(${k})', "DOpaque"), (f'${k} ?? "dflt"', "DOpaque")][dk]
            racts.append("RDerive %s [UType] %s %s" % (coq_bytes(k.encode()), d, coq_bytes(new.encode())))
            chain.append(["put", f'${new} = {expr}'])
            if new not in present:
                present.append(new)
            if new in gone:
                gone.remove(new)
            origin[new] = None
        elif r < 0.70:
            k = rng.choice(present + gone + gone + ["zz"])
            v = rng.choice(["X", "0x10", "007", "1.50", ""])
            racts.append("RPut %s %s" % (coq_bytes(k.encode()), coq_bytes(v.encode())))
            chain.append(["put", f'${k} = "{v}"'])
            if k not in present:
                present.append(k)
            if k in gone:
                gone.remove(k)
            origin[k] = None
        elif r < 0.78:
            k = rng.choice(present + gone + ["zz"])
            racts.append("RRemove %s" % coq_bytes(k.encode()))
            chain.append(rng.choice([["put", f'unset ${k}'], ["cut", "-x", "-f", k]]))
            if k in present:
                present.remove(k)
                gone.append(k)
                origin.pop(k, None)
        elif r < 0.88:
            old = rng.choice(present + gone + ["zz"])
            new = rng.choice(present + gone + ["r1", "r2"])
            racts.append("RRename %s %s" % (coq_bytes(old.encode()), coq_bytes(new.encode())))
            chain.append(["rename", f"{old},{new}"])
            if old in present and old != new:
                if new in present:
                    present.remove(old)
                else:
                    present[present.index(old)] = new
                origin[new] = origin.pop(old)
                gone.append(old)
                if new in gone:
                    gone.remove(new)
        else:
            k = rng.choice(present + ["zz"])
            if rng.random() < 0.5:
                racts.append("RMoveToHead %s" % coq_bytes(k.encode()))
                chain.append(["reorder", "-f", k])
            else:
                racts.append("RMoveToTail %s" % coq_bytes(k.encode()))
                chain.append(["reorder", "-e", "-f", k])
    return racts, chain, origin


def chain_args(chain):
    args = []
    for i, v in enumerate(chain):
        if i:
            args.append("then")
        args += v
    return args


def parse_dkvp(out):
    recs = []
    for line in out.split(b"\n"):
        if line == b"":
            continue
        rec = []
        for f in line.split(b","):
            k, _, v = f.partition(b"=")
            rec.append((k, v))
        recs.append(rec)
    return recs


def pmap_mlr(ctx, jobs, ext="dat"):
    """run [(args, stdin)] with the stdin bytes in a scratch file named last on the command line, all inside a few
    implrun mlr-batch processes; results in order as (status, stdout, stderr)"""
    d = tempfile.mkdtemp(prefix="verif-c03-")
    try:
        bj = []
        for i, (args, inp) in enumerate(jobs):
            name = "in%d.%s" % (i, ext)
            Path(d, name).write_bytes(inp)
            bj.append((list(args) + [name], d))
        res = c05_batch.run_batch(ctx, bj)
        c05_batch.crosscheck(ctx, bj, res, k=4)
        return res
    finally:
        shutil.rmtree(d, ignore_errors=True)


def program_correspondence(ctx, props_ok):
    rng = ctx.rng
    nprog = 80 if ctx.tier == "quick" else 1500
    terms, meta = [], []
    plans = []
    for pi in range(nprog):
        flag = rng.choice(FLAGS)
        # record width: Mlrmap switches representation (lazily built key index) at 12 fields; both regimes and the boundary
        npad = rng.choice(PAD_WIDTHS)
        pads = ["w%d" % j for j in range(npad)]
        ctx.dist("program_record_width:%d" % (1 + len(KEYS) + npad))
        # repeated field names on the input line (reader: RecordArena.PutDeferred): default a, a_2, ...; with
        # --no-dedupe-field-names the first position keeps the last value
        dups = rng.sample(KEYS + pads, rng.choice([1, 1, 2])) if rng.random() < 0.3 else []
        dedupe = rng.random() < 0.4
        ctx.dist("program_repeated_names:%s" % ("none" if not dups else "dedupe" if dedupe else "no-dedupe"))
        nrec = 8
        lines, recs = [], []
        for i in range(nrec):
            vals = cell_values(rng, len(KEYS) + npad + len(dups))
            if rng.random() < 0.3:
                vals[rng.randrange(len(vals))] = rng.choice(EQ_VALUES)      # a DKVP value containing the pair separator
            fields = [(k.encode(), v) for k, v in zip(KEYS + pads, vals)]
            if npad:
                rng_state_free_shuffle(fields, pi)                           # pads interleaved with a..e
            for j, dk in enumerate(dups):                                    # the repeat comes after the first occurrence
                first = [x for x, (k, _) in enumerate(fields) if k == dk.encode()][0]
                fields.insert(first + 1 + (pi + j) % (len(fields) - first), (dk.encode(), vals[len(KEYS) + npad + j]))
            line = [(b"id", b"r%d" % i)] + fields
            lines.append(line)
            recs.append(ref_read(line, dedupe or not dups))
        racts, chain, origin = gen_program(rng, [k.decode() for k, _ in recs[0]])
        margs = [] if (dedupe or not dups) else ["--no-dedupe-field-names"]
        plans.append((flag, racts, chain, recs, dkvp(lines), margs + FLAGARGS[flag] + chain_args(chain), origin, lines, dedupe or not dups))
    results = pmap_mlr(ctx, [(p[5], p[4]) for p in plans])
    flow_reported = 0
    for (flag, racts, chain, recs, inp, args, origin, lines, dedupe), (st, out, err) in zip(plans, results):
        line_of = {r[0][1]: l for r, l in zip(recs, lines)}
        ctx.dist("program_len:%d" % len(chain))
        if st != 0:
            ctx.violation({"broken": "pipeline run failed", "kind": "program", "args": args, "stdin": inp.decode("latin1"), "status": st, "stderr": err.decode("latin1")[-500:]},
                          found_input=False)
            continue
        outs = parse_dkvp(out)
        byid = {}
        for r in outs:
            byid.setdefault(dict(r).get(b"id"), []).append(r)
        for r in recs:
            o = byid.get(r[0][1], [])
            ctx.count(("program", flag, tuple(map(tuple, chain)), tuple(r)))
            if len(o) != 1:
                ctx.violation({"broken": "oracle: a per-record program lost or duplicated a record", "kind": "program", "args": args, "stdin": inp.decode("latin1"),
                               "record_id": r[0][1].decode(), "observed_count": len(o), "class": "program-record-count"})
                continue
            terms.append("(%d, %s, %s, %s, %s)" % (FLAGN[flag], coq_bool(dedupe), coq_list(racts), coq_record(line_of[r[0][1]]), coq_record(o[0])))
            meta.append((flag, args, r, o[0], racts))
            # ---- property oracle on the implementation's own output (value flow): every field whose value no statement
            # assigned (renames move values, they do not assign them) carries the bytes of the input field it came from,
            # and no field is missing or extra
            rin, rout = dict(r), dict(o[0])
            wrong = [(k, rin[src.encode()].decode("latin1"), rout.get(k.encode(), b"(missing)").decode("latin1")) for k, src in origin.items()
                     if src is not None and rout.get(k.encode()) != rin[src.encode()]]
            extra = [k.decode("latin1") for k in rout if k.decode("latin1") not in origin]
            missing = [k for k in origin if k.encode() not in rout]
            if (wrong or extra or missing) and flow_reported < 3:
                flow_reported += 1
                ln = line_of[r[0][1]]
                ctx.violation({"broken": "oracle: a value that no statement assigned did not arrive unchanged under the name the chain gave it",
                               "kind": "program", "flag": flag, "args": args, "stdin": dkvp([ln]).decode("latin1"), "stdin_hex": dkvp([ln]).hex(),
                               "input_record": [(k.decode(), v.decode("latin1")) for k, v in r],
                               "observed_record": [(k.decode(), v.decode("latin1")) for k, v in o[0]],
                               "unassigned_fields_changed(name, expected, observed)": wrong, "unexpected_fields": extra, "missing_fields": missing,
                               "changed_fields": [(k, w) for k, w, _ in wrong],
                               "class": "unassigned-field-changed:program"})
    if meta:
        m = meta[0]
        ctx.sample({"kind": "program", "flag": m[0], "args": m[1], "input_record": [(k.decode(), v.decode("latin1")) for k, v in m[2]],
                    "output_record": [(k.decode(), v.decode("latin1")) for k, v in m[3]]})
    if not props_ok:
        return
    with ctx.timed("coq_cases"):
        bad, err = coq_eval_mismatches(ctx, "C03prog", "Base.Record C06.Model C03.Model C03.Harness", "prog_case2", "chk_prog2", terms, shard=len(terms) // 2 + 1)
    ctx.cov["correspondence"]["record_programs"] = {"cases": len(terms), "mismatches": len(bad)}
    if err:
        ctx.violation({"broken": "correspondence-evaluation C03prog", "detail": err[-2000:]}, found_input=False)
        return
    for i in bad[:3]:
        flag, args, r, o, racts = meta[i]
        # does the implementation itself violate the property on this record?  (fields never named by the program)
        named = set(re.findall(r"[a-z]+[0-9]*", " ".join(args)))
        lost = [(k, v) for k, v in r if k.decode() not in named and (k, v) not in o]
        rep = {"kind": "program", "flag": flag, "args": args, "input_record": [(k.decode(), v.decode("latin1")) for k, v in r], "stdin": dkvp([r]).decode("latin1"),
               "observed_record": [(k.decode(), v.decode("latin1")) for k, v in o], "model_program": racts}
        if lost:
            ctx.violation(dict(rep, broken="correspondence C03.Harness.chk_prog + oracle: an unassigned field changed", changed_fields=[(k.decode(), v.decode("latin1")) for k, v in lost],
                               **{"class": "unassigned-field-changed"}))
        else:
            ctx.violation(dict(rep, broken="correspondence C03.Harness.chk_prog (model and implementation differ; no unassigned field changed)"), found_input=False)


def ref_read(line, dedupe):
    """the record a reader builds from the (key, value) pairs of one line (reference-main-flag-list.md, --no-dedupe-field-names:
    'By default, if an input file has a field named x appearing more than once, the second is renamed x_2, and so on. With this
    flag provided, the second x's value will replace the first x's value')"""
    rec = []
    for k, v in line:
        ks = [x[0] for x in rec]
        if k not in ks:
            rec.append([k, v])
        elif dedupe:
            i = 2
            while k + b"_%d" % i in ks:
                i += 1
            rec.append([k + b"_%d" % i, v])
        else:
            rec[ks.index(k)][1] = v
    return [tuple(x) for x in rec]


PAD_WIDTHS = [0, 0, 0, 3, 5, 6, 7, 9, 14, 30]      # + id + a..e: 6, 9, 11, 12, 13, 15, 20, 36 fields


def rng_state_free_shuffle(fields, salt):
    """deterministic interleaving (does not consume ctx.rng): rotate by salt, then riffle"""
    n = len(fields)
    k = salt % n
    rot = fields[k:] + fields[:k]
    fields[:] = rot[::2] + rot[1::2]


# ---- the oracle over a wide pool of verbs: (argv, keys the verb may assign/remove, keys it may move)
def verb_pool(rng, keys, allkeys=None):
    """keys: the fields verbs are pointed at; allkeys: every non-id field of the records (verbs that drop or move the
    fields they do not name are given all of them)"""
    k, k2 = rng.sample(keys, 2)
    allk = list(allkeys or keys)
    pool = [
        (["cat"], [], []), (["tac"], [], []), (["head", "-n", "100"], [], []), (["tail", "-n", "100"], [], []), (["group-like"], [], []),
        (["group-by", k], [], []), (["regularize"], [], []), (["unsparsify"], [], []), (["unsparsify", "--fill-with", "X"], [], []),
        (["sort", "-f", k], [], []), (["sort", "-r", k], [], []), (["sort", "-nf", k], [], []), (["sort", "-nr", k, "-f", k2], [], []), (["sort", "-c", k], [], []),
        (["sort", "-t", k], [], []), (["sort", "-cr", k], [], []),
        (["filter", f'${k} != "nosuchvalue"'], [], []), (["filter", f'is_present(${k})'], [], []), (["filter", f'${k} < ${k2} || true'], [], []),
        (["filter", "-x", f'${k} == "nosuchvalue"'], [], []),
        (["put", f'$new = ${k} + 1'], ["new"], []), (["put", f'$new = ${k} . ${k2}'], ["new"], []), (["put", f'$new = typeof(${k}) . asserting_not_null(${k2})'], ["new"], []),
        (["put", f'$new = ${k} < ${k2}'], ["new"], []), (["put", f'$new = is_string(${k}) || is_numeric(${k}) || is_empty(${k})'], ["new"], []),
        (["put", f'$new = min(${k}, ${k2}) . max(${k}, ${k2})'], ["new"], []), (["put", f'$new = fmtifnum(${k}, "%.3lf")'], ["new"], []),
        (["put", f'$new = format_values is absent'.replace("format_values is absent", f'strlen(${k}) + length(${k2})')], ["new"], []),
        (["put", f'if (${k} > 0) {{$new = "pos"}} elif (${k} =~ "^[a-z]") {{$new = "alpha"}} else {{$new = "other"}}'], ["new"], []),
        (["put", "-q", f'@s[string(${k})] = ${k2}; emit mapsum($*, {{"new": NR}})'], ["new"], []),
        (["put", f'map m = $*; $new = m["{k}"] . ":" . joink($*, ";")'], ["new"], []),
        (["put", f'func f(x) {{ return x . "" }} $new = f(${k})'], ["new"], []),
        (["put", f'$* = mapsum($*, {{"new": ${k} . "!"}})'], ["new"], []),
        (["put", f'$*  = mapdiff($*, {{"{k}": 0}})'], [k], []),
        (["stats1", "-a", "p50,count,min,max,mode,antimode,first,last,distinct_count", "-f", k, "-s"], None, []),
        (["merge-fields", "-k", "-a", "sum,count,min,max", "-f", f"{k},{k2}", "-o", "new"], ["new_sum", "new_count", "new_min", "new_max"], []),
        (["step", "-a", "delta,shift,counter,from-first,ratio,rsum", "-f", k], [k + s for s in ("_delta", "_shift", "_counter", "_from-first", "_ratio", "_rsum")], []),
        (["count-similar", "-g", k], ["count"], []), (["count-similar", "-g", f"{k},{k2}", "-o", "new"], ["new"], []),
        (["fill-down", "-f", k], [k], []), (["fill-down", "--only-if-absent", "-f", k], [], []), (["fill-down", "-a", "--only-if-blank"], None, []),
        (["nest", "--explode", "--values", "--across-records", "-f", k, "--nested-fs", ";"], [k], []),
        (["nest", "--explode", "--values", "--across-fields", "-f", k, "--nested-fs", ";"], [k], [k]),
        (["reorder", "-f", k], [], [k]), (["reorder", "-e", "-f", f"{k},{k2}"], [], [k, k2]), (["rename", f"{k},renamed"], [k, "renamed"], []),
        (["rename", "-r", f"^{k}$,renamed"], [k, "renamed"], []), (["cut", "-x", "-f", k], [k], []), (["cut", "-o", "-f", ",".join(["id"] + allk[::-1])], [], allk + ["id"]),
        (["having-fields", "--at-least", k], [], []), (["cat", "-n", "-g", k], ["n"], []), (["cat", "-N", "idx"], ["idx"], []), (["nl"], None, []),
        (["sec2gmt", "-3", "nosuch"], [], []), (["sec2gmtdate", "nosuch"], [], []), (["top", "-n", "100", "-f", k, "-a"], [], []),
        (["top", "-n", "100", "-f", k2, "-g", k, "-a", "--min"], [], []), (["decimate", "-n", "1"], [], []), (["sec2str", "nosuch", "%Y"], None, []),
        (["label", "id"], [], []), (["sort-within-records"], [], allk + ["id"]),
        (["seqgen", "--start", "1", "--stop", "0", "then", "cat"], None, []),
        (["fraction", "-f", "nosuch"], [], []), (["histogram", "-f", "nosuch", "--lo", "0", "--hi", "1", "--nbins", "1"], None, []),
        (["json-stringify", "-f", "nosuch"], [], []), (["utf8-to-latin1"], None, []), (["gap", "-n", "1000"], [], []), (["grep", "-i", "r"], [], []),
        (["sec2gmt", k], "sec2gmt:" + k, []), (["altkv"], None, []), (["bar", "-f", "nosuch", "--lo", "0", "--hi", "1"], None, []),
        (["unspace"], None, []), (["fill-empty", "--only-if-blank"], None, []), (["template", "-f", ",".join(["id"] + allk)], [], []),
        (["split-join", "nosuch"], None, []), (["case", "-u", "-k", "-f", "nosuch"], None, []), (["sparsify", "-f", "nosuch"], [], []),
        (["summary", "-a", "minlen", "--transpose"], None, []), (["tee", "/dev/null"], [], []),
    ]
    return [p for p in pool if p[1] is not None]


OUT_FORMATS = ["dkvp", "csv", "tsv", "xtab", "nidx", "pprint", "csvlite", "markdown"]
IN_FORMATS = ["dkvp", "csv", "tsv"]


def render_input(fmt, recs):
    if fmt == "dkvp":
        return dkvp(recs)
    sep = b"," if fmt == "csv" else b"\t"
    lines = [sep.join(k for k, _ in recs[0])] + [sep.join(v for _, v in r) for r in recs]
    return b"\n".join(lines) + b"\n"


def tsv_decode(b):
    """TSV cell text -> value: \\t \\n \\r \\\\ escapes (pkg/lib TSVDecodeField)"""
    out, i = bytearray(), 0
    while i < len(b):
        if b[i] == 0x5c and i + 1 < len(b) and b[i + 1] in b"tnr\\":
            out.append({0x74: 9, 0x6e: 10, 0x72: 13, 0x5c: 0x5c}[b[i + 1]])
            i += 2
        else:
            out.append(b[i]); i += 1
    return bytes(out)


def tsv_encode(v):
    return v.replace(b"\\", b"\\\\").replace(b"\t", b"\\t").replace(b"\n", b"\\n").replace(b"\r", b"\\r")


def csv_encode(v):
    if v == b"" or any(c in v for c in b',"\n\r') or v[:1] == b" " or v[-1:] == b" ":
        return b'"' + v.replace(b'"', b'""') + b'"'
    return v


def parse_dkvp_sep(out, fs, ps):
    recs = []
    for line in out.split(b"\n"):
        if line == b"":
            continue
        rec = []
        for f in line.split(fs):
            k, _, v = f.partition(ps)
            rec.append((k, v))
        recs.append(rec)
    return recs


def parse_output(fmt, out, nkeys_hint=None):
    """records as lists of (key, value) bytes; None when the format/values combination is not parseable unambiguously"""
    if fmt == "dkvp":
        return parse_dkvp(out)
    if fmt in ("csv", "csvlite", "tsv"):
        blocks, cur = [], []
        text = out.decode("latin1")
        if fmt == "tsv":
            rows = [[tsv_decode(c.encode("latin1")).decode("latin1") for c in l.split("\t")] for l in text.split("\n")]
            rows = [r if r != [""] else [] for r in rows]
            if rows and rows[-1] == []:
                rows.pop()
        else:
            rows = list(csv.reader(io.StringIO(text, newline="")))
        recs, hdr = [], None
        for row in rows:
            if not row:
                hdr = None
                continue
            if hdr is None:
                hdr = row
                continue
            if len(row) != len(hdr):       # schema change printed as a new header block without a blank line (csv "unset" fill) -> treat as header
                hdr = row
                continue
            recs.append([(k.encode("latin1"), v.encode("latin1")) for k, v in zip(hdr, row)])
        return recs
    if fmt == "xtab":
        recs, cur = [], []
        for line in out.split(b"\n"):
            if line == b"":
                if cur:
                    recs.append(cur); cur = []
                continue
            k, _, v = line.partition(b" ")
            cur.append((k, v.lstrip(b" ")))
        if cur:
            recs.append(cur)
        return recs
    if fmt == "nidx":
        return [[(b"%d" % (i + 1), v) for i, v in enumerate(line.split(b" "))] for line in out.split(b"\n") if line != b""]
    if fmt in ("pprint", "markdown"):
        recs, hdr = [], None
        for line in out.split(b"\n"):
            if line.strip() == b"":
                hdr = None
                continue
            if fmt == "markdown":
                cells = [c.strip() for c in line.strip().strip(b"|").split(b"|")]
                if all(set(c) <= set(b"-: ") for c in cells):
                    continue
                if line.startswith(b"| ") and hdr is not None and len(cells) != len(hdr):
                    hdr = None
            else:
                cells = line.split()
            if hdr is None:
                hdr = cells
                continue
            if len(cells) != len(hdr):
                hdr = cells
                continue
            recs.append(list(zip(hdr, cells)))
        return recs
    return None


EQ_VALUES = [b"YWJjZA==", b"QQ==", b"http://h/p?q=1&r=2", b"a==b", b"=leading", b"trailing=", b"0x1F=", b"k=v", b"1=2=3", b"=", b"==", b"+5=+5", b"1.500=1.5"]
COLON_VALUES = [b"12:30:45", b"[::1]:8080", b"example.org:443", b"a,b", b"k=v", b"::", b":x", b"x:", b"0x1F:0b101", b"00:00:01", b"1,000.50", b"a : b", b"http://h/p?q=1&r=2"]
MULTI_VALUES = [b"a;b", b"x:y=z", b":", b"=", b"a:b", b"1;2;3x", b"k:v", b"=:", b"0xff", b"1.500", b"p=q;r"]
CSV_VALUES = [b"a,b", b'say "hi"', b" lead", b"trail ", b'x,"y",z', b'"', b",", b",,", b'""', b"l1\nl2", b"a\tb", b"1,5", b"0xff,0xFF", b"=", b"a=b", b"plain", b"1.500", b"+5"]
TSV_VALUES = [b"a\tb", b"l1\nl2", b"back\\slash", b"\\t", b"a,b", b'say "hi"', b"x\\", b"\t", b"tab\tand\\n", b"plain", b"007", b"a=b", b" lead", b"1e3"]
SEP_DROP_OTHERS = {"cut -o", "template"}      # verbs of the pool that drop fields they do not name


def build_chain(rng, recs, flag, sep_safe=False):
    chain, wset, mset = [], set(), set()
    for _ in range(rng.randint(1, 3)):
        while True:
            argv, w, mv = rng.choice(verb_pool(rng, KEYS, [k.decode("latin1") for k, _ in recs[0] if k != b"id"]))
            if not sep_safe:
                break
            name = " ".join(argv[:2]) if argv[0] == "cut" and "-o" in argv else argv[0]
            if name not in SEP_DROP_OTHERS and not any("joink" in a for a in argv) and argv[0] not in ("nest", "grep", "sec2gmt", "sort-within-records", "fill-down", "unsparsify", "regularize"):
                break
        if isinstance(w, str) and w.startswith("sec2gmt:"):
            # sec2gmt assigns only numeric values: keep it a reader by pointing it at a column of non-numeric text
            col = w.split(":")[1].encode()
            for r in recs:
                for j, (k, v) in enumerate(r):
                    if k == col and (c06.ref_infer(v, flag)[0] in ("int", "float") or v == b""):
                        r[j] = (k, b"x" + v)
            w = []
        chain.append(argv)
        wset |= set(w)
        mset |= set(mv)
    return chain, wset, mset


def standard_plans(ctx, nruns):
    rng = ctx.rng
    plans = []
    for ri in range(nruns):
        flag = rng.choice(FLAGS)
        ifmt = rng.choice(IN_FORMATS)
        ofmt = rng.choice(OUT_FORMATS)
        nospace = ofmt in ("xtab", "nidx", "pprint", "markdown") or ifmt != "dkvp"
        nrec = rng.randint(8, 24)
        recs = []
        col_pool = cell_values(rng, 14, nospace)
        if ifmt == "dkvp":
            col_pool += [rng.choice(EQ_VALUES) for _ in range(5)]       # DKVP values containing the pair separator
        pads = ["w%d" % j for j in range(rng.choice(PAD_WIDTHS))]          # widths on both sides of Mlrmap's key-index threshold
        ctx.dist("pipeline_record_width:%d" % (1 + len(KEYS) + len(pads)))
        for i in range(nrec):
            vals = [rng.choice(col_pool) if rng.random() < 0.5 else cell_values(rng, 1, nospace)[0] for _ in KEYS + pads]
            fields = [(k.encode(), v) for k, v in zip(KEYS + pads, vals)]
            if pads:
                rng_state_free_shuffle(fields, ri)
            recs.append([(b"id", b"r%d" % i)] + fields)
        if ofmt == "markdown":
            recs = [[(k, v.replace(b"|", b"!")) for k, v in r] for r in recs]
        chain, wset, mset = build_chain(rng, recs, flag)
        inp = render_input(ifmt, recs)
        args = FLAGARGS[flag] + ["--i" + ifmt, "--o" + ofmt] + chain_args(chain)
        plans.append({"flag": flag, "ifmt": ifmt, "ofmt": ofmt, "recs": recs, "chain": chain, "wset": wset, "mset": mset, "inp": inp, "args": args,
                      "parse": (lambda out, f=ofmt: parse_output(f, out)), "ext": "dat"})
    return plans


def separator_plans(ctx, nruns):
    """values (and one key) containing the INPUT format's own separators, wherever the format can carry them:
    DKVP values with the pair separator (default, --ips, --ips-regex, multi-character separators) and a key-less field;
    CSV cells and a header cell with commas / quotes / edge spaces / line breaks via quoting; TSV cells and a header cell with escapes"""
    rng = ctx.rng
    plans = []
    for ri in range(nruns):
        flag = rng.choice(FLAGS)
        variant = ["dkvp-eq", "dkvp-colon", "dkvp-regex", "dkvp-multi", "csv-quoted", "tsv-escaped"][ri % 6]
        nrec = rng.randint(4, 10)
        special, xkey, iargs, outs = {
            "dkvp-eq": (EQ_VALUES, None, ["--idkvp"], [("dkvp", ["--odkvp"]), ("csv", ["--ocsv"]), ("tsv", ["--otsv"]), ("xtab", ["--oxtab"])]),
            "dkvp-colon": (COLON_VALUES, None, ["--idkvp", "--ifs", ";", "--ips", ":"], [("dkvp;:", ["--odkvp", "--ofs", ";", "--ops", ":"]), ("csv", ["--ocsv"]), ("tsv", ["--otsv"])]),
            "dkvp-regex": ([v for v in COLON_VALUES if not v.startswith(b":") and v != b"::"], None, ["--idkvp", "--ifs", ";", "--ips-regex", " *: *"],
                           [("dkvp;=", ["--odkvp", "--ofs", ";", "--ops", "="]), ("csv", ["--ocsv"])]),
            "dkvp-multi": (MULTI_VALUES, None, ["--idkvp", "--ifs", ";;", "--ips", ":="], [("dkvp;;:=", ["--odkvp", "--ofs", ";;", "--ops", ":="]), ("csv", ["--ocsv"])]),
            "csv-quoted": (CSV_VALUES, b"k,1", ["--icsv"], [("csv", ["--ocsv"]), ("tsv", ["--otsv"])]),
            "tsv-escaped": (TSV_VALUES, b"k\tx", ["--itsv"], [("tsv", ["--otsv"]), ("csv", ["--ocsv"])]),
        }[variant]
        oname, oargs = rng.choice(outs)
        plain = cell_values(rng, 8, nospace=True)
        recs = []
        for i in range(nrec):
            r = [(b"id", b"r%d" % i)]
            for k in KEYS:
                v = rng.choice(special) if rng.random() < 0.55 else rng.choice(plain)
                if oname == "xtab" and (b" " in v or v == b""):
                    v = rng.choice(plain)
                r.append((k.encode(), v))
            if xkey is not None:
                r.append((xkey, rng.choice(special)))
            recs.append(r)
        chain, wset, mset = build_chain(rng, recs, flag, sep_safe=True)
        keyless = variant == "dkvp-eq" and rng.random() < 0.5
        if variant.startswith("dkvp"):
            fs, ps = {"dkvp-eq": (b",", b"="), "dkvp-colon": (b";", b":"), "dkvp-regex": (b";", rng.choice([b" : ", b": ", b" :", b":"])), "dkvp-multi": (b";;", b":=")}[variant]
            lines = []
            for r in recs:
                fields = [k + ps + v for k, v in r]
                if keyless:
                    fields.append(b"solo")          # a field without pair separator: key = its 1-up position
                lines.append(fs.join(fields))
            inp = b"\n".join(lines) + b"\n"
            if keyless:
                recs = [r + [(b"%d" % (len(r) + 1), b"solo")] for r in recs]
        elif variant == "csv-quoted":
            inp = b"\n".join([b",".join(csv_encode(k) for k, _ in recs[0])] + [b",".join(csv_encode(v) if v != b"" else b"" for _, v in r) for r in recs]) + b"\n"
        else:
            inp = b"\n".join([b"\t".join(tsv_encode(k) for k, _ in recs[0])] + [b"\t".join(tsv_encode(v) for _, v in r) for r in recs]) + b"\n"
        if oname.startswith("dkvp") and oname != "dkvp":
            ofs, ops = {"dkvp;:": (b";", b":"), "dkvp;=": (b";", b"="), "dkvp;;:=": (b";;", b":=")}[oname]
            parse = lambda out, a=ofs, b=ops: parse_dkvp_sep(out, a, b)
        else:
            parse = lambda out, f=oname: parse_output(f, out)
        args = FLAGARGS[flag] + iargs + oargs + chain_args(chain)
        plans.append({"flag": flag, "ifmt": variant, "ofmt": oname, "recs": recs, "chain": chain, "wset": wset, "mset": mset, "inp": inp, "args": args, "parse": parse,
                      "ext": "dat"})
    return plans


def repeated_name_plans(ctx, nruns):
    """input lines / headers in which a field name occurs more than once, with and without --no-dedupe-field-names, over
    narrow and wide records: the record the reader builds is given by the documentation (ref_read); every field of it
    that the chain does not assign must come out with its bytes"""
    rng = ctx.rng
    plans = []
    for ri in range(nruns):
        flag = rng.choice(FLAGS)
        ifmt = ["dkvp", "csv", "tsv"][ri % 3]
        ofmt = rng.choice(["dkvp", "csv", "tsv"])
        dedupe = (ri // 3) % 2 == 0
        pads = ["w%d" % j for j in range(rng.choice(PAD_WIDTHS))]
        names = [b"id"] + [k.encode() for k in KEYS + pads]
        for dk in rng.sample(KEYS + pads, rng.choice([1, 1, 2, 3])):
            first = names.index(dk.encode())
            names.insert(rng.randint(first + 1, len(names)), dk.encode())      # the last field of the line may be the repeat
        nrec = rng.randint(3, 9)
        lines = []
        for i in range(nrec):
            vals = cell_values(rng, len(names) - 1, nospace=True)
            lines.append([(b"id", b"r%d" % i)] + list(zip(names[1:], vals)))
        recs = [ref_read(l, dedupe) for l in lines]
        chain, wset, mset = build_chain(rng, recs, flag, sep_safe=True)
        args = ([] if dedupe else ["--no-dedupe-field-names"]) + FLAGARGS[flag] + ["--i" + ifmt, "--o" + ofmt] + chain_args(chain)
        plans.append({"flag": flag, "ifmt": ifmt + ("-repeated-names" if dedupe else "-repeated-names-nodedupe"), "ofmt": ofmt, "recs": recs, "chain": chain,
                      "wset": wset, "mset": mset, "inp": render_input(ifmt, lines), "args": args, "parse": (lambda out, f=ofmt: parse_output(f, out)), "ext": "dat"})
    return plans


def pipeline_oracle(ctx):
    """read-only chains over every spelling class x inference flags x non-JSON writers: unassigned cells byte-identical, same relative order"""
    nruns = 200 if ctx.tier == "quick" else 6000
    nsep = 90 if ctx.tier == "quick" else 2400
    checked_cells = 0
    reported = 0
    nrep = 60 if ctx.tier == "quick" else 1200
    plans = standard_plans(ctx, nruns) + separator_plans(ctx, nsep) + repeated_name_plans(ctx, nrep)
    results = pmap_mlr(ctx, [(p["args"], p["inp"]) for p in plans])
    for p, (st, out, err) in zip(plans, results):
        flag, ifmt, ofmt, recs, chain, wset, mset, inp, args = (p[k] for k in ("flag", "ifmt", "ofmt", "recs", "chain", "wset", "mset", "inp", "args"))
        ctx.dist("pipeline:%s>%s" % (ifmt, ofmt))
        ctx.dist("pipeline_flag:" + flag)
        for v in chain:
            ctx.dist("verb:" + v[0])
        if st == "died" and b"type-assertion failed" in err:
            st = 1        # an asserting_* function ended the process: a legitimate error exit
        if st not in (0, 1):
            ctx.violation({"broken": "pipeline run died (panic, exit inside a verb, or hang)", "kind": "pipeline", "args": args, "stdin": inp.decode("latin1"),
                           "stdin_hex": inp.hex(), "status": st, "stderr": err.decode("latin1")[-600:]}, found_input=False)
            continue
        if st != 0:
            # e.g. asserting_* failing is a legitimate error exit; not this property's concern
            ctx.dist("pipeline_nonzero_exit")
            ctx.cov.setdefault("pipeline_nonzero_exit_samples", [])
            if len(ctx.cov["pipeline_nonzero_exit_samples"]) < 6:
                ctx.cov["pipeline_nonzero_exit_samples"].append({"args": args, "stderr": err.decode("latin1")[:200]})
            continue
        outs = p["parse"](out)
        if ofmt == "nidx":
            # positional keys: recover names only when no field was added, removed or moved
            if wset or mset:
                continue
            outs = [[(k, v) for (k, _), (_, v) in zip(recs[0], r)] for r in outs if len(r) == len(recs[0])]
        byid = {}
        for r in outs:
            byid.setdefault(dict(r).get(b"id"), []).append(r)
        for r in recs:
            ctx.count(("pipeline", flag, ifmt, ofmt, tuple(map(tuple, chain)), tuple(r)))
            rid = dict(r)[b"id"]
            for o in byid.get(rid, []):
                od = dict(o)
                keep = [(k, v) for k, v in r if k.decode("latin1") not in wset]
                for k, v in keep:
                    checked_cells += 1
                    want = v
                    if ofmt in ("pprint", "xtab", "markdown") and v == b"":
                        want = None
                    if k not in od or (want is not None and od[k] != want):
                        if reported < 3:
                            reported += 1
                            ctx.violation({"broken": "oracle: a field no verb assigns changed between input and output", "kind": "pipeline", "args": args,
                                           "stdin": inp.decode("latin1"), "stdin_hex": inp.hex(), "record_id": rid.decode(), "field": k.decode("latin1"),
                                           "expected": v.decode("latin1"), "observed": od.get(k, b"(missing)").decode("latin1"), "input_variant": ifmt, "output_format": ofmt,
                                           "class": "unassigned-field-changed:" + "+".join(sorted({c[0] for c in chain}))})
                # relative order of the fields that are neither assigned nor moved
                stay = [k for k, _ in r if k.decode("latin1") not in wset and k.decode("latin1") not in mset]
                got = [k for k, _ in o if k in set(stay)]
                if got != stay and reported < 3:
                    reported += 1
                    ctx.violation({"broken": "oracle: unassigned fields changed relative order", "kind": "pipeline", "args": args, "stdin": inp.decode("latin1"),
                                   "stdin_hex": inp.hex(), "record_id": rid.decode(), "expected_order": [k.decode("latin1") for k in stay],
                                   "observed_order": [k.decode("latin1") for k in got], "input_variant": ifmt, "output_format": ofmt,
                                   "class": "unassigned-field-order:" + "+".join(sorted({c[0] for c in chain}))})
    ctx.cov["pipeline_oracle"] = {"runs": nruns, "separator_runs": nsep, "repeated_name_runs": nrep, "cells_compared": checked_cells}


def run(ctx):
    ctx.cov["rule"] = ("(1) read histories: pairs of values (60% from the list of numeric spelling classes of the property statement, 40% random numerals per grammar production "
                       "with mutations) x {default,-S,-A,-O} x {no --ofmt, --ofmt %.4lf} x random sequences (length 0..9) over 64 unary read operations, Copy and 25 binary "
                       "operations in both operand orders, applied to real *mlrval.Mlrval objects by implrun; compared with the Coq model under vm_compute: every operation's "
                       "result, and (printrep, printrepValid, mvtype, String()) of both values at the end. (2) reflective sweep of every exported *Mlrval method. "
                       "(3) per-record programs (reads, derived assignments, put, unset, rename, reorder) rendered as mlr chains; full output record compared with the model "
                       "(assigned cells the model does not predict are wildcards). (4) oracle: chains of 1-3 verbs from a pool of ~90 verb invocations x 3 input formats x "
                       "8 non-JSON writers: every cell outside the chain's write set byte-identical and in original relative order. A case is non-trivial when distinct.")
    ctx.cov["rule"] += (" (4b) separator-bearing inputs: DKVP values containing the pair separator (default '=', --ips ':', --ips-regex, multi-character --ifs/--ips) and "
                        "key-less fields; CSV cells and a header cell with commas/quotes/edge spaces/line breaks via RFC quoting; TSV cells and a header cell with \\t \\n \\\\ "
                        "escapes; each through the writers that can carry them (dkvp with matching separators, csv, tsv, xtab).")
    ctx.cov["trusted_base"] = ["Coq 8.16.1 kernel + vm_compute", "no axioms (Print Assumptions: closed under the global context)",
                               "implrun driver + add-only export VerifState (pkg/mlrval/zz_verif_c03.go, tag verif)", "python harness (output-format parsers of the oracle)",
                               "C06 model of inference (only as the instantiation of the inferrer parameter; the theorems hold for every inferrer)"]
    ctx.assumptions = ["verbs and DSL built-ins are modelled only by the read operations they apply to a value (UBif: Type() and/or String()); their results are not modelled",
                       "JSON/YAML writers and --ofmt re-render by design (documented); the oracle covers non-JSON writers without --ofmt, the model covers --ofmt on floats",
                       "write sets of the verbs in the oracle pool are declared in the harness from the reference documentation"]
    ctx.cov["correspondence"] = {}
    c06.gen_tables(ctx)
    forbidden_gate(ctx, ["Base", "C03"])
    ok, why = check_props(ctx, "C03/Props.v", ["C03/Harness.vo", "C03/RecordProofs.vo", "C03/Proofs.vo", "C03/MovedProofs.vo", "C03/VerbProofs.vo", "C03/ReaderProofs.vo"])
    nviol = len(ctx.violations)
    ops_correspondence(ctx, ok)
    method_sweep(ctx)
    program_correspondence(ctx, ok)
    pipeline_oracle(ctx)
    if not ok and len(ctx.violations) == nviol:
        ctx.violation({"broken": why}, found_input=False)


def replay(ctx, path):
    obj = json.loads(Path(path).read_text())
    kind = obj.get("kind")
    if kind == "mlrval-ops":
        s1, s2 = bytes.fromhex(obj["s1_hex"]), bytes.fromhex(obj["s2_hex"])
        obs, sx, sy = run_ops(ctx, obj["flag"], obj["ofmt"], [(s1, s2, obj["ops"])])[0]
        print("replay: x=%r y=%r" % (sx, sy))
        ctx.count(("replay", 1)); ctx.count(("replay", 2))
        for s, st in ((s1, sx), (s2, sy)):
            if st[0] != s or st[1] != 1 or (st[3] != s and not (obj["ofmt"] and st[2] in (1, -1))):
                ctx.violation(dict(obj, replayed=True))
                return
    elif kind in ("pipeline", "program"):
        inp = bytes.fromhex(obj["stdin_hex"]) if "stdin_hex" in obj else obj["stdin"].encode("latin1")
        st, out, err = mlr_run(ctx, obj["args"], inp)
        print("replay: status=%s\n%s" % (st, out.decode("latin1")))
        ctx.count(("replay", 1)); ctx.count(("replay", 2))
        if "expected" in obj and obj.get("field"):
            of = obj.get("output_format") or ([a[3:] for a in obj["args"] if a.startswith("--o") and a not in ("--ofs", "--ops")] or ["dkvp"])[0]
            seps = {"dkvp;:": (b";", b":"), "dkvp;=": (b";", b"="), "dkvp;;:=": (b";;", b":=")}
            outs = (parse_dkvp_sep(out, *seps[of]) if of in seps else parse_output(of, out)) or []
            hit = [dict(r).get(obj["field"].encode()) for r in outs if dict(r).get(b"id", b"").decode() == obj.get("record_id")]
            if not hit or any(h is None or h.decode("latin1") != obj["expected"] for h in hit):
                ctx.violation(dict(obj, replayed=True, observed_now=[h.decode("latin1") if h else None for h in hit]))
        elif obj.get("changed_fields"):
            outs = parse_dkvp(out)
            still = [kv for kv in obj["changed_fields"] if not any((kv[0].encode(), kv[1].encode("latin1")) in r for r in outs)]
            if st != 0 or still:
                ctx.violation(dict(obj, replayed=True, still_changed=still))
        elif st != 0:
            ctx.violation(dict(obj, replayed=True), found_input=False)
    elif kind == "method-sweep":
        method_sweep(ctx)
    else:
        print("replay: nothing replayable in", path)
