"""C14 precedence, mechanism (B): translate the operator chain of pkg/parsing/mlr.bnf into coq/gen/Gen_Precedence.v,
and the behavioural tie: expressions printed with the minimal parentheses the DOCUMENTED table requires must parse
(mlr -n put -v -X) to the generating tree."""
import re
from vlib import *

# the documented table (docs/src/reference-dsl-operators.md), lowest precedence first; used ONLY by the behavioural tie
# (the Coq side states the same table independently in Props.v)
DOC_LEVELS = [
    (["?:"], "R", "ternary"),
    (["||"], "L", "bin"), (["^^"], "L", "bin"), (["&&"], "L", "bin"),
    (["=~", "!=~", "==", "!=", "<=>"], "L", "bin"),
    (["<", "<=", ">", ">="], "L", "bin"),
    (["|"], "L", "bin"), (["^"], "L", "bin"), (["&"], "L", "bin"),
    (["<<", ">>", ">>>"], "L", "bin"),
    (["+", "-"], "L", "bin"),
    (["*", "/", "//", "%"], "L", "bin"),
    (["."], "L", "bin"),
    (["!", "~", "+", "-"], "R", "unary"),
    (["??"], "L", "bin"), (["???"], "L", "bin"),
    (["**"], "R", "bin"),
]


def strip_comments(txt):
    return "\n".join(l for l in txt.splitlines() if not l.lstrip().startswith("#"))


def parse_bnf(path):
    txt = strip_comments(Path(path).read_text())
    toks = {}
    for m in re.finditer(r"^(op_\w+|colon)\s*::=\s*((?:'[^']*'\s*)+);", txt, re.M):
        toks[m.group(1)] = "".join(re.findall(r"'([^']*)'", m.group(2)))
    prods = {}
    heads = list(re.finditer(r"^([!\w]+)\s*::=", txt, re.M))
    for i, m in enumerate(heads):
        name = m.group(1)
        if not name[0].isupper():
            continue
        body = txt[m.end():heads[i + 1].start() if i + 1 < len(heads) else len(txt)]
        body = body.rstrip()
        if body.endswith(";"):
            body = body[:-1]
        alts = []
        for alt in re.split(r"\n\s*\|", "\n" + body):
            alt = re.sub(r"->\s*\{.*?\}", "", alt, flags=re.S).strip()
            alt = alt.lstrip("|").strip()
            if alt:
                alts.append(alt.split())
        prods[name] = alts
    return toks, prods


def chain_levels(toks, prods):
    """walk PrecedenceChainStart ... PrecedenceChainEnd; returns [(ops, assoc, kind)] lowest precedence first"""
    cur = prods["PrecedenceChainStart"][0][0]
    levels = []
    seen = set()
    while cur != "PrecedenceChainEnd":
        if cur in seen or cur not in prods:
            raise RuntimeError("precedence chain broken at " + cur)
        seen.add(cur)
        ops, assoc, kind, nxt = [], None, None, None
        for alt in prods[cur]:
            if len(alt) == 1:
                nxt = alt[0]
            elif len(alt) == 5 and alt[1] in toks and alt[3] in toks:
                ops.append(toks[alt[1]] + toks[alt[3]])
                kind = "ternary"
                assoc = "R" if alt[2] == cur and alt[4] == cur and alt[0] != cur else "?"
            elif len(alt) == 3 and alt[1] in toks:
                ops.append(toks[alt[1]])
                kind = "bin"
                rhs_right = alt[2] == cur or (alt[2] in prods and alt[2] != cur and all(a[-1] == cur for a in prods[alt[2]]))
                if alt[0] == cur and not rhs_right:
                    a = "L"
                elif alt[0] != cur and rhs_right:
                    a = "R"
                else:
                    a = "?"
                assoc = a if assoc in (None, a) else "?"
            elif len(alt) == 2 and alt[0] in toks:
                if toks[alt[0]] not in ops:
                    ops.append(toks[alt[0]])
                kind = "unary"
                a = "R" if alt[1] == cur else "?"
                assoc = a if assoc in (None, a) else "?"
            else:
                raise RuntimeError("unrecognised alternative in %s: %r" % (cur, alt))
        if nxt is None:
            raise RuntimeError("no fall-through alternative in " + cur)
        if ops:
            levels.append((ops, assoc, kind))
        cur = nxt
    return levels


def gen_precedence(repo):
    toks, prods = parse_bnf(Path(repo) / "pkg" / "parsing" / "mlr.bnf")
    levels = chain_levels(toks, prods)
    rows = []
    for ops, assoc, kind in levels:
        rows.append("  (%s, %s, %s)" % ("[" + "; ".join(coq_bytes(o.encode()) for o in ops) + "]",
                                        {"L": "AssocL", "R": "AssocR", "?": "AssocBroken"}[assoc],
                                        {"bin": "KBinary", "unary": "KUnary", "ternary": "KTernary"}[kind]))
    txt = ("(* REGENERATED on every run from pkg/parsing/mlr.bnf (the grammar parser.go is generated from): the operator\n"
           "   chain PrecedenceChainStart ... PrecedenceChainEnd, lowest precedence first; operators per level in production order;\n"
           "   associativity from left/right recursion of the productions. *)\n"
           "From Miller Require Import Base.Bytes.\n"
           "Inductive assoc := AssocL | AssocR | AssocBroken.\n"
           "Inductive opkind := KBinary | KUnary | KTernary.\n"
           "Definition gen_levels : list (list bytes * assoc * opkind) := [\n" + ";\n".join(rows) + "\n].\n")
    write_if_changed(GEN / "Gen_Precedence.v", txt)
    return levels


# ------------------------------------------------------------------ behavioural tie
BIN_OPS = [(o, i, a) for i, (ops, a, k) in enumerate(DOC_LEVELS) if k == "bin" for o in ops if o not in ("=~", "!=~")]
UN_LEVEL = [i for i, (ops, a, k) in enumerate(DOC_LEVELS) if k == "unary"][0]
TOP = len(DOC_LEVELS)


def gen_tree(rng, d):
    if d == 0 or rng.random() < 0.2:
        return ("leaf", rng.choice("abcdefg"))
    c = rng.random()
    if c < 0.12:
        return ("un", rng.choice(["-", "!", "~", "+"]), gen_tree(rng, d - 1))
    if c < 0.22:
        return ("tern", gen_tree(rng, d - 1), gen_tree(rng, d - 1), gen_tree(rng, d - 1))
    o, lvl, a = rng.choice(BIN_OPS)
    return ("bin", o, gen_tree(rng, d - 1), gen_tree(rng, d - 1))


def level_of(t):
    if t[0] == "leaf":
        return TOP
    if t[0] == "un":
        return UN_LEVEL
    if t[0] == "tern":
        return 0
    return [lvl for o, lvl, a in BIN_OPS if o == t[1]][0]


def show(t, need):
    """minimal parentheses: the subtree is parenthesised iff its level is below what the context needs"""
    lv = level_of(t)
    if t[0] == "leaf":
        s = t[1]
    elif t[0] == "un":
        s = t[1] + " " + show(t[2], UN_LEVEL)
    elif t[0] == "tern":
        s = show(t[1], 1) + " ? " + show(t[2], 0) + " : " + show(t[3], 0)
    else:
        a = [a for o, lvl, a in BIN_OPS if o == t[1]][0]
        l = show(t[2], lv if a == "L" else lv + 1)
        r = show(t[3], lv + 1 if a == "L" else lv)
        s = l + " " + t[1] + " " + r
    return "(" + s + ")" if lv < need else s


def parse_ast(lines):
    """indented `"tok" [tt:..] [nt:Type]` lines -> nested (tok, type, children)"""
    root = ("root", "root", [])
    stack = [(-1, root)]
    for ln in lines:
        m = re.match(r'^( *)"(.*)" \[tt:[^\]]*\] \[nt:(\w+)\]\s*$', ln)
        if not m:
            continue
        ind = len(m.group(1))
        node = (m.group(2), m.group(3), [])
        while stack and stack[-1][0] >= ind:
            stack.pop()
        stack[-1][1][2].append(node)
        stack.append((ind, node))
    return root


def norm_ast(n):
    tok, ty, ch = n
    if ty == "Parenthesized":
        return norm_ast(ch[0])
    if ty == "LocalVariable":
        return ("leaf", tok)
    if ty in ("Operator", "DotOperator"):
        if len(ch) == 1:
            return ("un", tok, norm_ast(ch[0]))
        if len(ch) == 3:
            return ("tern", norm_ast(ch[0]), norm_ast(ch[1]), norm_ast(ch[2]))
        return ("bin", tok, norm_ast(ch[0]), norm_ast(ch[1]))
    return ("other", tok, ty)


def behavioural_tie(ctx, n):
    rng = ctx.rng
    trees = [gen_tree(rng, rng.randint(2, 4)) for _ in range(n)]
    # fixed probes: every adjacent pair of documented levels, both nestings
    for (o1, l1, a1) in BIN_OPS:
        for (o2, l2, a2) in BIN_OPS:
            if abs(l1 - l2) <= 1 and rng.random() < 0.35:
                trees.append(("bin", o1, ("bin", o2, ("leaf", "a"), ("leaf", "b")), ("leaf", "c")))
                trees.append(("bin", o1, ("leaf", "a"), ("bin", o2, ("leaf", "b"), ("leaf", "c"))))
    prog = ";\n".join("x%d = %s" % (i, show(t, 0)) for i, t in enumerate(trees)) + "\n"
    st, out, err = mlr_run(ctx, ["-n", "put", "-v", "-X", prog], timeout=120)
    txt = out.decode("utf-8", "replace")
    ctx.cov["precedence_tie"] = {"expressions": len(trees), "status": str(st)}
    if st != 0 or "AST:" not in txt:
        # find one expression that does not parse
        return {"broken": "precedence-tie: minimally parenthesised expressions do not parse", "program_head": prog[:300], "stderr": err.decode("utf-8", "replace")[-300:]}, trees, None
    root = parse_ast(txt.split("AST:", 1)[1].splitlines())
    block = root[2][0]
    bad = None
    nchecked = 0
    for i, (t, node) in enumerate(zip(trees, block[2])):
        ctx.count(("prec", show(t, 0)))
        nchecked += 1
        got = norm_ast(node[2][1]) if len(node[2]) == 2 else None
        if got != t and bad is None:
            bad = {"broken": "precedence-tie", "expression": show(t, 0), "generated_tree": t, "parsed_tree": got,
                   "how": "mlr -n put -v -X 'x = %s'" % show(t, 0), "class": "documented-precedence-differs-from-parser"}
    ctx.cov["precedence_tie"]["checked"] = nchecked
    if len(block[2]) != len(trees) and bad is None:
        bad = {"broken": "precedence-tie: statement count", "expected": len(trees), "got": len(block[2])}
    return bad, trees, block
