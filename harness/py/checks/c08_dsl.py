"""C08 part (C): absent through the DSL evaluator, observed with `mlr -n put` and REGENERATED into coq/gen/Gen_AbsentDSL.v:
  * the absent-coalescing operators ?? and ??? over every operand kind (11 DSL-expressible kinds x 4 right-hand sides)
  * every one-argument built-in function of the function table applied to an absent argument, and the two- and
    three-argument string/collection functions with an absent first argument ("absent in, absent out")
  * asserting_* against is_* on an absent argument (and on one accepted kind each)
  * what print / dump / emit / emitp / unset / typed locals / typed returns / filter / if do with an absent value
coq/C08/DslRules.v + Props.v re-prove the rules over the regenerated tables; the same rules are evaluated here in Python
(failing-input search: the mlr command line is the witness)."""
import re
from concurrent.futures import ThreadPoolExecutor
from vlib import *

KINDS11 = ["int", "float", "bool", "void", "string", "bytes", "array", "map", "error", "null", "absent"]
KCOQ = {"int": "KInt", "float": "KFloat", "bool": "KBool", "void": "KVoid", "string": "KString", "bytes": "KBytes", "array": "KArray", "map": "KMap",
        "func": "KFunc", "error": "KError", "null": "KNull", "absent": "KAbsent"}
REP = {"int": "3", "float": "2.5", "bool": "true", "void": '""', "string": '"abc"', "bytes": 'bytes("xyz")', "array": "[1,2]", "map": '{"a":1}',
       "error": "(true+1)", "null": "null", "absent": "@nosuch"}
RHS = ["int", "string", "void", "absent"]
RHS_REP = {"int": "17", "string": '"rhs"', "void": '""', "absent": "@nosuch2"}
NO_SWEEP = {"system", "stat", "urandelement", "exec", "os_type", "hostname", "version"}
# functions documented / expected to map an absent (first) argument to absent
ABSENT_OUT_1 = ["capitalize", "collapse_whitespace", "lstrip", "rstrip", "strip", "tolower", "toupper", "bitcount",
                "abs", "ceil", "floor", "round", "sgn", "exp", "log", "log10", "sqrt", "sin", "cos", "tan", "sec2gmtdate", "hexfmt"]
ABSENT_OUT_N = [("sub", 3), ("gsub", 3), ("ssub", 3), ("gssub", 3), ("truncate", 2), ("splitax", 2)]
# one-argument functions whose result on absent is neither absent nor an error value (the is_* predicates apart)
FN1_OTHER = {"typeof": "string", "string": "string", "clean_whitespace": "string", "length": "int"}
STMT_PROBES = [
    ("print_absent", 'end{print @nosuch; print "|"}'),
    ("print_concat_absent", 'end{print "[" . @nosuch . "]"}'),
    ("dump_absent", 'end{dump @nosuch; print "|"}'),
    ("emit_absent", 'end{emit @nosuch; print "|"}'),
    ("emitp_absent", 'end{emitp @nosuch; print "|"}'),
    ("emit_lashed_absent", 'end{emit (@nosuch, @nosuch2); print "|"}'),
    ("unset_absent_things", 'end{@m = {"a": 1}; unset @m[@nosuch]; unset @nosuch; dump}'),
    ("map_absent_key_or_value", 'end{@m = {"a": 1}; @m[@nosuch] = 5; @m["b"] = @nosuch; dump}'),
    ("typed_local_str", 'end{str x = @nosuch; print typeof(x)}'),
    ("typed_local_num", 'end{num x = @nosuch; print typeof(x)}'),
    ("typed_local_map", 'end{map x = @nosuch; print typeof(x)}'),
    ("typed_local_var", 'end{var x = @nosuch; print typeof(x)}'),
    ("typed_local_keeps_value", 'end{int x = 4; x = @nosuch; print x}'),
    ("untyped_function_without_return", 'func f() { } end{print typeof(f())}'),
    ("untyped_function_returns_absent", 'func f() { return @nosuch } end{print typeof(f())}'),
    ("typed_return_int_absent", 'func f(): int { return @nosuch } end{print typeof(f())}'),
    ("typed_parameter_int_absent", 'func f(int x) { return 1 } end{print typeof(f(@nosuch))}'),
    ("array_index_absent", 'end{print typeof([1,2][@nosuch])}'),
    ("map_index_absent", 'end{print typeof({"a":1}[@nosuch])}'),
    ("ternary_absent_condition", 'end{print typeof(@nosuch ? 1 : 2)}'),
    ("if_absent_condition", 'end{if (@nosuch) {print "then"} else {print "else"}}'),
    ("env_assign_absent", 'end{ENV["C08X"] = "v"; ENV["C08X"] = @nosuch; print ENV["C08X"]}'),
    ("positional_name_assign_absent", None),
    ("positional_value_assign_absent", None),
    ("srec_assign_absent", None),
    ("filter_absent_condition", None),
    ("filter_absent_comparison", None),
]
REC_PROBES = {
    "positional_name_assign_absent": ["put", '$[[1]] = @nosuch'],
    "positional_value_assign_absent": ["put", '$[[[1]]] = @nosuch'],
    "srec_assign_absent": ["put", '$* = @nosuch; @* = $nosuch'],
    "filter_absent_condition": ["filter", '$nosuch'],
    "filter_absent_comparison": ["filter", '$nosuch == 1'],
}
# the expected observations (docs: "absent ... is not stored", print of absent is "", reference-dsl-variables type-checking)
EXPECT_STMT = {
    "print_absent": "\n|\n", "print_concat_absent": "[]\n", "dump_absent": "|\n", "emit_absent": "|\n", "emitp_absent": "|\n", "emit_lashed_absent": "\n|\n",
    "unset_absent_things": '{\n  "m": {\n    "a": 1\n  }\n}\n', "map_absent_key_or_value": '{\n  "m": {\n    "a": 1\n  }\n}\n',
    "typed_local_str": "absent\n", "typed_local_num": "absent\n", "typed_local_bool": "absent\n",
    "typed_local_map": "absent\n", "typed_local_var": "absent\n", "typed_local_keeps_value": "4\n",
    "untyped_function_without_return": "absent\n", "untyped_function_returns_absent": "absent\n",
    "typed_return_int_absent": "FATAL", "typed_parameter_int_absent": "FATAL",
    "array_index_absent": "error\n", "map_index_absent": "error\n", "ternary_absent_condition": "error\n", "if_absent_condition": "FATAL",
    "env_assign_absent": "v\n",
    "positional_name_assign_absent": "a=1,b=2\n", "positional_value_assign_absent": "a=1,b=2\n", "srec_assign_absent": "a=1,b=2\n",
    "filter_absent_condition": "", "filter_absent_comparison": "",
}


def function_arities(ctx):
    s = (REPO / "pkg" / "dsl" / "cst" / "builtin_function_manager.go").read_text(errors="replace")
    un = []
    for p in re.split(r"\n\t\t\{\n", s):
        m = re.search(r'name:\s+"([^"]+)"', p)
        if not m or not re.fullmatch(r"[a-z_0-9]+", m.group(1)):
            continue
        if re.search(r"\bunaryFunc:", p) and not re.search(r"binaryFunc:|ternaryFunc:|variadicFunc", p) and m.group(1) not in NO_SWEEP:
            un.append(m.group(1))
    return un


def typeof_batch(ctx, exprs):
    """typeof of each expression in one mlr run; None when the run fails"""
    prog = "end{\n" + "\n".join("print typeof(%s);" % e for e in exprs) + "\n}"
    st, out, err = mlr_run(ctx, ["-n", "put", prog], timeout=300)
    lines = out.decode("utf-8", "replace").split("\n")
    if st != 0 or len(lines) < len(exprs):
        return None, err.decode("utf-8", "replace")[-400:]
    return [{"boolean": "bool", "empty": "void", "funct": "func"}.get(l, l) for l in lines[:len(exprs)]], ""


def observe(ctx):
    from checks.c08 import mlr_eval
    obs = {"coalesce": {}, "fn1": {}, "fnn": {}, "asserting": {}, "stmt": {}}
    # ---- coalesce
    exprs, keys = [], []
    for op in ("??", "???"):
        for a in KINDS11:
            for b in RHS:
                exprs.append("(%s) %s (%s)" % (REP[a], op, RHS_REP[b]))
                keys.append((op, a, b))
    singles = [REP[a] for a in KINDS11] + [RHS_REP[b] for b in RHS]
    res, err = mlr_eval(ctx, exprs + singles, chunk=400)
    if res is None:
        raise RuntimeError("mlr coalesce table failed: " + err)
    val = dict(zip(singles, res[len(exprs):]))
    for (op, a, b), r in zip(keys, res):
        ctx.count(("coalesce", op, a, b))
        is1, is2 = r == val[REP[a]], r == val[RHS_REP[b]]
        want = "Arg2" if (a == "absent" or (op == "???" and a == "void")) else "Arg1"
        obs["coalesce"][(op, a, b)] = "Arg1" if is1 and not is2 else "Arg2" if is2 and not is1 else want if is1 else "Other:%s:%s" % r
    # ---- functions of absent
    un = function_arities(ctx)
    r1, err = typeof_batch(ctx, ["%s(@nosuch)" % f for f in un])
    if r1 is None:
        raise RuntimeError("mlr unary-function sweep failed: " + err)
    for f, k in zip(un, r1):
        ctx.count(("fn1", f))
        obs["fn1"][f] = k
    nexprs = ["%s(@nosuch%s)" % (f, ', "a"' * (n - 1)) for f, n in ABSENT_OUT_N]
    rn, err = typeof_batch(ctx, nexprs)
    if rn is None:
        raise RuntimeError("mlr n-ary function sweep failed: " + err)
    for (f, n), k in zip(ABSENT_OUT_N, rn):
        ctx.count(("fnn", f))
        obs["fnn"][f] = k
    # ---- statements and asserting_* (one process each: failures end the process)
    jobs = []
    for name, prog in STMT_PROBES:
        if prog is None:
            verb, body = REC_PROBES[name]
            jobs.append((("stmt", name), [verb, body], b"a=1,b=2\n"))
        else:
            jobs.append((("stmt", name), ["-n", "put", prog], None))
    preds = ["absent", "present", "null", "not_null", "empty", "not_empty", "error", "int", "float", "numeric", "string", "bool", "boolean", "map", "not_map",
             "array", "not_array", "bytes"]
    for p in preds:
        jobs.append((("asserting", p, "absent"), ["-n", "put", 'end{asserting_%s(@nosuch); print "passed"}' % p], None))
    for p, k in (("int", "int"), ("float", "float"), ("string", "string"), ("map", "map"), ("array", "array"), ("null", "void"), ("empty", "void"),
                 ("not_empty", "int"), ("int", "float"), ("not_empty", "void")):
        jobs.append((("asserting", p, k), ["-n", "put", 'end{asserting_%s(%s); print "passed"}' % (p, REP[k])], None))

    def one(j):
        key, args, stdin = j
        st, out, err = mlr_run(ctx, args, stdin, timeout=300)
        return key, st, out.decode("utf-8", "replace")
    with ThreadPoolExecutor(max_workers=3) as ex:
        for key, st, out in ex.map(one, jobs):
            ctx.count(key)
            if key[0] == "stmt":
                obs["stmt"][key[1]] = out if st == 0 else "FATAL"
            else:
                obs["asserting"][(key[1], key[2])] = (st == 0 and out.strip() == "passed")
    return obs


def coq_str(s):
    return '"' + s.replace('"', '""') + '"'


def stmt_class(s):
    """Coq rendering of an observed output: the text with newlines as '/' (Coq string literals hold them too, this keeps the file readable)"""
    return coq_str(s.replace("\n", "/"))


def render(obs):
    out = ["(* REGENERATED on every run by harness/py/checks/c08_dsl.py from `mlr -n put` observations. *)",
           "From Coq Require Import List String.", "From Miller Require Import C08.Model.", "Import ListNotations.", "Local Open Scope string_scope.",
           "(* (operator, kind of a, kind of b, result: CArg 1 = a, CArg 2 = b, CPanic = something else) *)",
           "Definition gen_coalesce : list (string * kind * kind * cls) := ["]
    cl = {"Arg1": "CArg 1", "Arg2": "CArg 2"}
    out.append(";\n".join(" (%s, %s, %s, %s)" % (coq_str(op), KCOQ[a], KCOQ[b], cl.get(c, "CPanic")) for (op, a, b), c in obs["coalesce"].items()) + "].")
    out.append("(* one-argument built-in function applied to an absent argument: kind of the result (None: a kind name this model does not know) *)")
    out.append("Definition gen_fn1_absent : list (string * option kind) := [")
    out.append(";\n".join(" (%s, %s)" % (coq_str(f), "Some " + KCOQ[k] if k in KCOQ else "None") for f, k in obs["fn1"].items()) + "].")
    out.append("Definition gen_fnn_absent : list (string * option kind) := [")
    out.append(";\n".join(" (%s, %s)" % (coq_str(f), "Some " + KCOQ[k] if k in KCOQ else "None") for f, k in obs["fnn"].items()) + "].")
    out.append("(* asserting_<p>(value of kind k) returned (true) or ended the process (false) *)")
    out.append("Definition gen_asserting : list (string * kind * bool) := [")
    out.append(";\n".join(" (%s, %s, %s)" % (coq_str("is_" + p), KCOQ[k], "true" if b else "false") for (p, k), b in obs["asserting"].items()) + "].")
    out.append("(* statement probes: output text, newline written as / ; FATAL = mlr stopped with an error *)")
    out.append("Definition gen_stmt : list (string * string) := [")
    out.append(";\n".join(" (%s, %s)" % (coq_str(n), stmt_class(o)) for n, o in obs["stmt"].items()) + "].")
    return "\n".join(out) + "\n"


def rule_failures(obs, table):
    bad = []
    for (op, a, b), c in obs["coalesce"].items():
        want = "Arg2" if (a == "absent" or (op == "???" and a == "void")) else "Arg1"
        if c != want:
            bad.append({"class": "unlisted:coalesce:%s:%s:%s" % (op, a, b), "input": {"mlr": "mlr -n put 'end{print (%s) %s (%s)}'" % (REP[a], op, RHS_REP[b])},
                        "observed": c, "expected": "the %s operand" % ("right" if want == "Arg2" else "left"), "theorem": "C08_coalescing_operators_over_all_kinds"})
    for f in ABSENT_OUT_1:
        if obs["fn1"].get(f) != "absent":
            bad.append({"class": "unlisted:function_of_absent:%s" % f, "input": {"mlr": "mlr -n put 'end{print typeof(%s(@nosuch))}'" % f},
                        "observed": obs["fn1"].get(f), "expected": "absent", "theorem": "C08_functions_of_absent_are_absent"})
    for f, k in obs["fn1"].items():
        if k not in ("absent", "error") and not f.startswith("is_") and FN1_OTHER.get(f) != k:
            bad.append({"class": "unlisted:function_of_absent_kind:%s" % f, "input": {"mlr": "mlr -n put 'end{print typeof(%s(@nosuch))}'" % f},
                        "observed": k, "expected": "absent or error (or the listed exception)", "theorem": "C08_one_argument_functions_of_absent_classified"})
    for f, n in ABSENT_OUT_N:
        if obs["fnn"].get(f) != "absent":
            bad.append({"class": "unlisted:function_of_absent:%s" % f, "input": {"mlr": "mlr -n put 'end{print typeof(%s(@nosuch, ...))}'" % f},
                        "observed": obs["fnn"].get(f), "expected": "absent", "theorem": "C08_functions_of_absent_are_absent"})
    for (p, k), passed in obs["asserting"].items():
        want = table.pred("is_" + p, k)
        if want is not None and want != passed:
            bad.append({"class": "unlisted:asserting:%s:%s" % (p, k), "input": {"mlr": "mlr -n put 'end{asserting_%s(%s); print \"passed\"}'" % (p, REP[k])},
                        "observed": "passed" if passed else "stopped", "expected": "as is_%s: %s" % (p, want), "theorem": "C08_asserting_agrees_with_is_predicates"})
    for n, o in obs["stmt"].items():
        if EXPECT_STMT.get(n) != o:
            prog = dict(STMT_PROBES).get(n)
            cmd = "mlr -n put '%s'" % prog if prog else "echo a=1,b=2 | mlr %s '%s'" % tuple(REC_PROBES[n])
            bad.append({"class": "unlisted:absent_statement:%s" % n, "input": {"mlr": cmd}, "observed": o, "expected": EXPECT_STMT.get(n), "theorem": "C08_absent_in_statements"})
    return bad


def regenerate(ctx, table):
    with ctx.timed("impl"):
        obs = observe(ctx)
    write_if_changed(GEN / "Gen_AbsentDSL.v", render(obs))
    ctx.dist("dsl_absent_observations", sum(len(v) for v in obs.values()))
    return obs
