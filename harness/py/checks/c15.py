"""C15 — string, regex, formatting and hash functions match independent references (DESIGN 3/C15)."""
import base64, hashlib, json, re
from vlib import *
ERR = "(error)"
NSHARD = 4

VALID_MB = [b"\xc3\xa9", b"\xe2\x82\xac", b"\xf0\x9f\x98\x80", b"e\xcc\x81", b"\xe4\xb8\xad", b"\xc2\xa0", b"\xef\xbf\xbd", b"\xdf\xbf", b"\xf4\x8f\xbf\xbf"]
CASELESS_MB = [b"\xe2\x82\xac", b"\xf0\x9f\x98\x80", b"\xe4\xb8\xad", b"\xcc\x81", b"\xc2\xa0"]
INVALID = [b"\xff", b"\xc0\xaf", b"\x80", b"\xe2\x82", b"\xed\xa0\x80", b"\xf4\x90\x80\x80", b"\xc1\xbf", b"\xe0\x9f\xbf", b"\xf0\x8f\xbf\xbf", b"\xc3", b"\xf0\x9f\x98", b"\xf5\x80\x80\x80"]
ASCII = b"abcxyzABCXYZ019 .,;:-_*+?()[]{}|^$/#@!~<>='\"%&"


def P(exprs, hexed=()):
    parts = []
    for i, e in enumerate(exprs):
        if i in hexed:
            parts.append('(is_error(%s) ? "(error)" : hex_encode(%s))' % (e, e))
        else:
            parts.append('(is_error(%s) ? "(error)" : ((%s) . ""))' % (e, e))
    return "print " + ' . "\\t" . '.join(parts) + ";"


def mlr_rows(ctx, cols, rows, prog, outs, args=(), env=None, verb=None):
    """rows: tuples of bytes (no tab/newline/backslash); returns list of dicts name -> latin1-decoded text"""
    if not rows:
        return []
    inp = "\t".join(cols).encode() + b"\n" + b"".join(b"\t".join(r) + b"\n" for r in rows)
    cmd = list(args) + ["--itsv", "--otsv"] + (verb if verb else ["put", "-q", prog])
    st, out, err = mlr_run(ctx, cmd, inp, timeout=180, env=env)
    if st != 0:
        raise RuntimeError("mlr failed (%s): %s\n%s" % (st, err.decode("latin1")[-600:], " ".join(cmd)[:300]))
    lines = out.decode("latin1").split("\n")
    if lines and lines[-1] == "":
        lines.pop()
    if verb:
        hdr = lines[0].split("\t")
        res = [dict(zip(hdr, l.split("\t"))) for l in lines[1:]]
    else:
        res = [dict(zip(outs, l.split("\t"))) for l in lines]
    if len(res) != len(rows):
        raise RuntimeError("mlr row count %d != %d for %s" % (len(res), len(rows), (prog or str(verb))[:200]))
    return res


def par(ctx, jobs, workers=2):
    from concurrent.futures import ThreadPoolExecutor
    with ThreadPoolExecutor(max_workers=workers) as ex:
        futs = [ex.submit(mlr_rows, ctx, *a, **k) for a, k in jobs]
        return [f.result() for f in futs]


def go_runes(b):
    """[]rune(string(b)) as Go decodes: list of code points, 0xFFFD for each byte not starting a well-formed sequence"""
    out, i, n = [], 0, len(b)
    while i < n:
        x = b[i]
        if x < 0x80:
            out.append(x); i += 1; continue
        need, lo, hi = 0, 0x80, 0xBF
        if 0xC2 <= x <= 0xDF: need = 1
        elif x == 0xE0: need, lo = 2, 0xA0
        elif 0xE1 <= x <= 0xEC or 0xEE <= x <= 0xEF: need = 2
        elif x == 0xED: need, hi = 2, 0x9F
        elif x == 0xF0: need, lo = 3, 0x90
        elif 0xF1 <= x <= 0xF3: need = 3
        elif x == 0xF4: need, hi = 3, 0x8F
        ok = need > 0 and i + need <= n - 1
        if ok:
            if not (lo <= b[i + 1] <= hi):
                ok = False
            for k in range(2, need + 1):
                if ok and not (0x80 <= b[i + k] <= 0xBF):
                    ok = False
        if not ok:
            out.append(0xFFFD); i += 1; continue
        cp = x & (0x1F if need == 1 else 0x0F if need == 2 else 0x07)
        for k in range(1, need + 1):
            cp = (cp << 6) | (b[i + k] & 0x3F)
        out.append(cp); i += need + 1
    return out


def go_encode(rs):
    return "".join(chr(r) if not (0xD800 <= r <= 0xDFFF or r > 0x10FFFF) else "\ufffd" for r in rs).encode("utf-8")


def ref_slice(n, lo, hi, zero_up):
    if zero_up and lo >= 0: lo += 1
    if zero_up and hi >= 0: hi += 1
    # documented: 1-up inclusive, negative -n..-1 alias 1..n, out-of-bounds slices are clipped, empty when disjoint
    def un(m):
        return m - 1 if m >= 1 else (m + n if m <= -1 else -1)
    l, h = un(lo), un(hi)
    if l > h: return None
    l = max(l, 0); h = min(h, n - 1)
    return None if l > h else (l, h)


def gen_string(rng, kind="any", maxparts=8):
    parts = []
    for _ in range(rng.randint(0, maxparts)):
        r = rng.random()
        if r < 0.6 or kind == "ascii":
            parts.append(bytes([rng.choice(ASCII)]))
        elif kind == "caseless":
            parts.append(rng.choice(CASELESS_MB))
        elif r < 0.85 or kind == "valid":
            parts.append(rng.choice(VALID_MB))
        else:
            parts.append(rng.choice(INVALID))
    return b"".join(parts)


def tsv_safe(b):
    return b"\t" not in b and b"\n" not in b and b"\r" not in b and b"\\" not in b


def run(ctx):
    quick = ctx.tier == "quick"
    N = 220 if quick else 4000
    ctx.cov["rule"] = ("argument strings: ASCII incl. regex metacharacters, multi-byte (2/3/4-byte, combining marks), invalid UTF-8 (stray continuation, overlong, "
                       "surrogate, > U+10FFFF, truncated), empty; indices negative/zero/beyond length; compared byte-exact (hex) between mlr and the Coq model under "
                       "vm_compute; oracle: independent python implementations, hashlib/base64/re/%-formatting, inverse identities on mlr's own outputs")
    ctx.cov["trusted_base"] = ["Coq 8.16.1 kernel + vm_compute", "no axioms", "python harness",
                               "Go unicode/utf8 decoding transliterated into the model, tied by correspondence", "strings.ToUpper/ToLower modelled on ASCII + caseless characters only",
                               "Go encoding/base64, fmt (one directive) and strconv fixed-precision rendering modelled, tied by correspondence"]
    ctx.assumptions = ["regex: the Coq matcher covers literals, ., classes, ? * +, |, groups, ^ $, (?i) on generated trees printed with explicit (?:) grouping; natural pattern texts, lazy quantifiers, {n,m}, \\b, (?s)/(?m) and the sub/gsub verbs are compared with python re only; leftmost-FIRST priority among equal-start matches is by construction of the matcher + correspondence (no independent ordered semantics)",
                       "printf: %g/%G, %_d/%_f, '#' on floats, '*'/'[n]', format-values/--ofmt are outside the Coq model (oracle only or not run); decimal text -> binary64 is done by the harness (struct.pack)",
                       "digest models are the standards (RFC 1321, FIPS 180-4) in Gallina, pinned by their test vectors; no cryptographic claim",
                       "full Unicode case mapping is outside the model"]
    forbidden_gate(ctx, ["Base", "C15"])   # includes ModelCodec/ModelHash/ModelFmt/ModelVerbs and their proofs
    ok, why = check_props(ctx, "C15/Props.v", ["C15/Harness.vo", "C15/Harness2.vo", "C15/RegexHarness.vo", "C15/Proofs.vo", "C15/Utf8Proofs.vo", "C01/ProofsJson.vo"])
    rng = ctx.rng
    terms, meta, oracle_bad = [], [], []

    def case(kind, a, b, s1, s2, s3, o, info):
        terms.append("(%d, %s, %s, %s, %s, %s, %s)" % (kind, coq_z(a), coq_z(b), coq_bytes(s1), coq_bytes(s2), coq_bytes(s3), coq_bytes(o)))
        meta.append(info); ctx.count((kind, a, b, s1, s2, s3))

    def bad(cls, **kw):
        oracle_bad.append(dict(kw, **{"class": cls}))

    def unhex(x):
        return None if x == ERR else bytes.fromhex(x)

    with ctx.timed("impl"):
        jobs = []
        # ---- (1) strlen / substr / truncate / pad
        S = [b"", b"hello", b"h\xc3\xa9llo\xff\xe2\x82", "héllo".encode(), b"a", "日本語テキスト".encode()] + [gen_string(rng) for _ in range(N)]
        S = [s for s in S if tsv_safe(s)]
        rows1 = []
        for i, s in enumerate(S):
            n = len(go_runes(s))
            m = rng.choice([rng.randint(-n - 2, n + 2), rng.randint(1, max(1, n)), 0, 1, -1])
            k = rng.choice([rng.randint(-n - 2, n + 2), rng.randint(1, max(1, n)), n, n + 3, -1])
            pad = rng.choice([b"*", b"ab", b"\xc3\xa9", b" ", b"0", b"\xe2\x82\xac-"])
            rows1.append((b"r%d" % i, s, str(m).encode(), str(k).encode(), pad, str(rng.randint(0, n + 6)).encode()))
        jobs.append(((["id", "s", "m", "k", "p", "w"], rows1,
                      P(["strlen($s)", "substr1($s,int($m),int($k))", "substr0($s,int($m),int($k))", "substr($s,int($m),int($k))", "$s[int($m):int($k)]", "truncate($s,int($w))",
                         "leftpad($s,int($w),$p)", "rightpad($s,int($w),$p)", "format_values is absent"][:8], hexed=(1, 2, 3, 4, 5, 6, 7)),
                      ["len", "s1", "s0", "s", "sl", "tr", "lp", "rp"]), {"args": ["-S"]}))
        # ---- (2) case / strip
        C = [b"", b"abc", b"ABC xyz", b"  a b\t", b"\t x "] + [gen_string(rng, rng.choice(["ascii", "caseless"])) for _ in range(N)]
        C = [s for s in C if tsv_safe(s.replace(b"\t", b""))]
        C = [s for s in C if b"\t" not in s]
        rows2 = [(b"r%d" % i, s) for i, s in enumerate(C)]
        jobs.append(((["id", "s"], rows2, P(["toupper($s)", "tolower($s)", "capitalize($s)", "lstrip($s)", "rstrip($s)", "strip($s)", "clean_whitespace($s)", "collapse_whitespace($s)"], hexed=range(8)),
                      ["up", "lo", "cap", "ls", "rs", "st", "cw", "co"]), {"args": ["-S"]}))
        # ---- (3) ssub / gssub / splitax / joinv / hex / base64 / hashes / latin1
        rows3 = []
        for i in range(N):
            alpha = rng.choice([b"ab.", b"a.*+", b"xy,;", b"ab\xc3\xa9", b"aa|"])
            s = bytes(rng.choice(alpha) for _ in range(rng.randint(0, 10)))
            pat = bytes(rng.choice(alpha) for _ in range(rng.randint(1, 2)))
            rep = rng.choice([b"", b"X", b"&", b"\\1".replace(b"\\", b"%"), b".", pat + pat, b"\xe2\x82\xac"])
            if b"|" in s + pat + rep:
                s, pat, rep = s.replace(b"|", b"!"), pat.replace(b"|", b"!"), rep.replace(b"|", b"!")
            rows3.append((b"r%d" % i, s, pat, rep))
        rows3 = [r for r in rows3 if all(tsv_safe(x) for x in r)]
        jobs.append(((["id", "s", "p", "r"], rows3, P(["ssub($s,$p,$r)", "gssub($s,$p,$r)", 'joinv(splitax($s,$p),"|")', "length(splitax($s,$p))", "joinv(splitax($s,$p),$p)"], hexed=(0, 1, 2, 4)),
                      ["ss", "gs", "sp", "n", "rt"]), {"args": ["-S"]}))
        H = [b"", b"a", b"abc", b"\xff\x00x".replace(b"\x00", b"\x01"), b"Man", b"Ma", b"M"] + [gen_string(rng) for _ in range(N // 2)] + \
            [bytes(rng.randrange(1, 256) for _ in range(rng.randint(0, 70))) for _ in range(N // 2)]
        H = [s for s in H if tsv_safe(s) and b"\x00" not in s]
        rows4 = [(b"r%d" % i, s) for i, s in enumerate(H)]
        jobs.append(((["id", "s"], rows4, P(["hex_encode($s)", "hex_encode(hex_decode(hex_encode($s)))", "base64_encode($s)", "hex_encode(base64_decode(base64_encode($s)))",
                                             "md5($s)", "sha1($s)", "sha256($s)", "sha512($s)", "hex_encode(utf8_to_latin1(latin1_to_utf8($s)))", "hex_encode(latin1_to_utf8($s))"]),
                      ["he", "hd", "be", "bd", "md5", "sha1", "sha256", "sha512", "l1", "l2u"]), {"args": ["-S"]}))
        hexin = [b"", b"4a", b"4A6b", b"4", b"4g", b"zz", b"0x41", b"414", b"FFfe", b"41 42"] + [bytes(rng.choice(b"0123456789abcdefABCDEFg") for _ in range(rng.randint(0, 8))) for _ in range(60)]
        rows5 = [(b"r%d" % i, s) for i, s in enumerate(hexin)]
        jobs.append(((["id", "s"], rows5, P(["hex_decode($s)"], hexed=(0,)), ["hd"]), {"args": ["-S"]}))
        # ---- (4) regex functions vs python re, safe subset without empty matches
        rows6 = []
        for i in range(N):
            rx = gen_regex(rng)
            s = "".join(rng.choice("abcab ") for _ in range(rng.randint(0, 9)))
            rows6.append((b"r%d" % i, s.encode(), rx.encode(), rng.choice(["X", "<\\1>", "[\\0]", "\\2\\1", ""]).encode()))
        rows6 = [r for r in rows6 if b"\\" not in r[1] and b"\\" not in r[2]]
        rows6 = [(a, s, rx, rep.replace(b"\\", b"@")) for a, s, rx, rep in rows6]   # '@' stands for the backslash (TSV unescaping); restored with gssub in the program
        BS = 'gssub($r, "@", "\\\\")'
        jobs.append(((["id", "s", "x", "r"], rows6, P(["sub($s,$x,%s)" % BS, "gsub($s,$x,%s)" % BS, "regextract_or_else($s,$x,\"<none>\")", "matchx_is_absent"][:3] +
                                                       ['joinv(splitax($s, "b"), "|")', '(($s =~ $x) ? "\\1|\\2" : "nomatch")', 'any([1], func(e) {return $s =~ "a".$x})', 'sub($s, "(?i)".$x, "I")',
                                                        'sub($s, $x."i", "J")'][:2]),
                      ["sub", "gsub", "rex", "spl", "caps"]), {"args": ["-S"]}))
        # ---- (5) fmtnum on ints / floats vs C printf (python %)
        rows7 = []
        ints = [0, 1, -1, 17, -17, 255, 2 ** 31, -2 ** 31, 2 ** 63 - 1, -2 ** 63, 1234567] + [rng.randint(-10 ** 6, 10 ** 6) for _ in range(40)]
        ifmts = ["%d", "%5d", "%-5d|", "%05d", "%+d", "%x", "%08x", "%X", "%o", "%b", "%lld", "%llx", "%08llx", "%10d", "%-10x|", "% d", "%3d", "%012d", "X%dY", "%5x", "%#x", "%#o", "%lx", "%ld", "%le", "%.3lf", "%.2f", "%8.3f", "%g", "%e", "%.0f", "%s", "%5s"]
        for n in ints:
            for f in rng.sample(ifmts, 6):
                rows7.append((b"r", str(n).encode(), f.encode()))
        floats = ["0.5", "1.5", "2.5", "-2.5", "3.14159", "1e10", "1e-5", "123456.789", "-0.0", "0.125", "1e300", "2.675", "0.1"]
        ffmts = ["%f", "%.3f", "%.0f", "%8.3lf", "%-8.2f|", "%08.3lf", "%+.2f", "%e", "%.2le", "%g", "%lg", "%.3g", "%10.4e", "%d", "%x", "%5d", "%s", "%.1f", "%lf", "%le", "% .2f", "%+e", "%010.2f", "%.10g", "%G", "%E"]
        for x in floats:
            for f in rng.sample(ffmts, 6):
                rows7.append((b"r", x.encode(), f.encode()))
        jobs.append(((["id", "n", "f"], rows7, P(["fmtnum($n,$f)", "fmtifnum($n,$f)", "hexfmt($n)"]), ["o", "oi", "hx"]), {}))
        # ---- (6) verbs = function applied per field
        V = [(b"r%d" % i, gen_string(rng, "ascii", 6), gen_string(rng, "ascii", 6), gen_string(rng, "caseless", 5)) for i in range(60)]
        V = [r for r in V if all(tsv_safe(x) for x in r)]
        vjobs = [
            ((["id", "a", "b", "c"], V, None, None), {"verb": ["case", "-u", "-v", "-f", "a,c"], "args": ["-S"]}),
            ((["id", "a", "b", "c"], V, P(["$id", "toupper($a)", "$b", "toupper($c)"]), ["id", "a", "b", "c"]), {"args": ["-S"]}),
            ((["id", "a", "b", "c"], V, None, None), {"verb": ["ssub", "-f", "a,b", "a", "<.>"], "args": ["-S"]}),
            ((["id", "a", "b", "c"], V, P(["$id", 'ssub($a,"a","<.>")', 'ssub($b,"a","<.>")', "$c"]), ["id", "a", "b", "c"]), {"args": ["-S"]}),
            ((["id", "a", "b", "c"], V, None, None), {"verb": ["gsub", "-f", "a,c", "[abc]+", "-"], "args": ["-S"]}),
            ((["id", "a", "b", "c"], V, P(["$id", 'gsub($a,"[abc]+","-")', "$b", 'gsub($c,"[abc]+","-")']), ["id", "a", "b", "c"]), {"args": ["-S"]}),
            ((["id", "a", "b", "c"], V, None, None), {"verb": ["sub", "-f", "b", "[xyz]", "<&>"], "args": ["-S"]}),
            ((["id", "a", "b", "c"], V, P(["$id", "$a", 'sub($b,"[xyz]","<&>")', "$c"]), ["id", "a", "b", "c"]), {"args": ["-S"]}),
            ((["id", "a", "b", "c"], V, None, None), {"verb": ["clean-whitespace", "-v"], "args": ["-S"]}),
            ((["id", "a", "b", "c"], V, P(["clean_whitespace($id)", "clean_whitespace($a)", "clean_whitespace($b)", "clean_whitespace($c)"]), ["id", "a", "b", "c"]), {"args": ["-S"]}),
        ]
        res = par(ctx, jobs + vjobs, workers=2)
        r1, r2, r3, r4, r5, r6, r7 = res[:7]
        vres = res[7:]

        # (1)
        for row, o in zip(rows1, r1):
            _, s, m, k, pad, w = row; m, k, w = int(m), int(k), int(w)
            rs = go_runes(s); n = len(rs)
            try:
                s.decode("utf-8"); pyvalid = 1
            except UnicodeDecodeError:
                pyvalid = 0
            case(19, pyvalid, 0, s, b"", b"", b"", {"fn": "valid_utf8 (recogniser vs python strict decoding)", "s": s.hex()})
            if o["len"] != ERR:
                case(0, int(o["len"]), 0, s, b"", b"", b"", {"fn": "strlen", "s": s.hex()})
                if int(o["len"]) != n:
                    bad("strlen-characters", input=s.hex(), observed=o["len"], expected=n)
            for key, kind, zu in (("s1", 1, False), ("s0", 2, True), ("s", 0, None), ("sl", 1, False)):
                got = unhex(o[key])
                if got is None:
                    continue
                if key != "s":
                    case(kind, m, k, s, b"", b"", got, {"fn": key, "s": s.hex(), "m": m, "k": k})
                    sl = ref_slice(n, m, k, zu)
                    want = b"" if sl is None else go_encode(rs[sl[0]:sl[1] + 1])
                    if got != want:
                        bad("substr-1up-inclusive", input={"s": s.hex(), "m": m, "k": k, "fn": key}, observed=got.hex(), expected=want.hex())
            if unhex(o["tr"]) is not None:
                case(4, w, 0, s, b"", b"", unhex(o["tr"]), {"fn": "truncate", "s": s.hex(), "w": w})
                want = s if n <= w else go_encode(rs[:w])
                if unhex(o["tr"]) != want:
                    bad("truncate", input={"s": s.hex(), "w": w}, observed=o["tr"], expected=want.hex())
            for key, kind in (("lp", 5), ("rp", 6)):
                got = unhex(o[key])
                if got is None:
                    continue
                case(kind, w, 0, s, pad, b"", got, {"fn": key, "s": s.hex(), "w": w, "pad": pad.hex()})
                cnt = max(0, (w - n) // len(go_runes(pad)))
                want = pad * cnt + s if key == "lp" else s + pad * cnt
                if got != want:
                    bad("pad", input={"s": s.hex(), "w": w, "pad": pad.hex(), "fn": key}, observed=got.hex(), expected=want.hex())
        ctx.dist("substr_pad_rows", len(rows1))
        # (2)
        for (_, s), o in zip(rows2, r2):
            for key, kind in (("up", 7), ("lo", 8), ("cap", 9), ("ls", 10), ("rs", 11), ("st", 12)):
                got = unhex(o[key])
                if got is not None:
                    case(kind, 0, 0, s, b"", b"", got, {"fn": key, "s": s.hex()})
            u = s.decode("utf-8")
            want = {"up": u.upper(), "lo": u.lower(), "cap": u[:1].upper() + u[1:], "ls": u.lstrip(" \t"), "rs": u.rstrip(" \t"), "st": u.strip(" \t"),
                    "cw": re.sub(r"[ \t]+", " ", u).strip(" "), "co": re.sub(r"[ \t]+", " ", u)}
            for key, w in want.items():
                if "\xa0" in u and key in ("cw", "co"):
                    continue
                if unhex(o[key]) != w.encode("utf-8"):
                    bad("case-strip-" + key, input=s.hex(), observed=o[key], expected=w.encode().hex())
        ctx.dist("case_strip_rows", len(rows2))
        # (3)
        for (_, s, pat, rep), o in zip(rows3, r3):
            for key, kind, cnt in (("ss", 13, 1), ("gs", 14, -1)):
                got = unhex(o[key])
                if got is not None:
                    case(kind, 0, 0, s, pat, rep, got, {"fn": key, "s": s.hex(), "pat": pat.hex(), "rep": rep.hex()})
                    want = s.replace(pat, rep, cnt) if cnt > 0 else s.replace(pat, rep)
                    if got != want:
                        bad("ssub-gssub-literal", input={"s": s.hex(), "pat": pat.hex(), "rep": rep.hex(), "fn": key}, observed=got.hex(), expected=want.hex())
            if unhex(o["sp"]) is not None and o["n"] != ERR:
                case(15, int(o["n"]), 0, s, pat, b"", unhex(o["sp"]), {"fn": "splitax", "s": s.hex(), "sep": pat.hex()})
                want = [] if s == b"" else s.split(pat)
                if unhex(o["sp"]) != b"|".join(want) or int(o["n"]) != len(want):
                    bad("splitax", input={"s": s.hex(), "sep": pat.hex()}, observed=[o["sp"], o["n"]], expected=[b"|".join(want).hex(), len(want)])
                if unhex(o["rt"]) != s:
                    bad("split-join-inverse", input={"s": s.hex(), "sep": pat.hex()}, observed=o["rt"], expected=s.hex())
        ctx.dist("replace_split_rows", len(rows3))
        for (_, s), o in zip(rows4, r4):
            ctx.count(("codec", s))
            if o["he"] != ERR:
                case(17, 0, 0, s, b"", b"", o["he"].encode(), {"fn": "hex_encode", "s": s.hex()})
            exp = {"he": s.hex(), "hd": s.hex(), "be": base64.b64encode(s).decode(), "bd": s.hex(), "md5": hashlib.md5(s).hexdigest(), "sha1": hashlib.sha1(s).hexdigest(),
                   "sha256": hashlib.sha256(s).hexdigest(), "sha512": hashlib.sha512(s).hexdigest()}
            for key, w in exp.items():
                if o[key] != w:
                    bad({"he": "hex-encode", "hd": "hex-inverse", "be": "base64-encode", "bd": "base64-inverse"}.get(key, "digest-" + key), input=s.hex(), observed=o[key], expected=w,
                        how=None)
            l2u = s.decode("latin1").encode("utf-8")
            if o["l2u"] != l2u.hex() or o["l1"] != s.hex():
                bad("latin1-utf8-inverse", input=s.hex(), observed=[o["l2u"], o["l1"]], expected=[l2u.hex(), s.hex()])
        ctx.dist("codec_hash_rows", len(rows4))
        for (_, s), o in zip(rows5, r5):
            got = unhex(o["hd"])
            case(18, 1 if got is None else 0, 0, s, b"", b"", got or b"", {"fn": "hex_decode", "s": s.decode()})
            try:
                want = bytes.fromhex(s.decode()) if b" " not in s else None
            except ValueError:
                want = None
            if got != want:
                bad("hex-decode", input=s.decode(), observed=o["hd"], expected=None if want is None else want.hex())
        # (4) regex
        nre = 0
        for (_, s, rx, rep), o in zip(rows6, r6):
            s, rx, rep = s.decode(), rx.decode(), rep.decode().replace("@", "\\")
            if s == "":
                continue                                     # the empty string is not a string-typed value for these functions
            ctx.count(("regex", s, rx, rep)); nre += 1
            pyrep = re.sub(r"\\(\d)", lambda m: "\\g<%s>" % m.group(1), rep)
            try:
                cre = re.compile(rx)
                ngroups = cre.groups
                if any(int(d) > ngroups for d in re.findall(r"\\(\d)", rep)):
                    continue
                wsub = cre.sub(lambda m: m.expand(pyrep) if True else "", s, count=1)
                wgsub = cre.sub(lambda m: m.expand(pyrep), s)
                mm = cre.search(s)
            except re.error:
                continue
            if any(g is None for g in (mm.groups() if mm else ())):
                continue                                     # unmatched optional groups: interpolation conventions differ; outside the shared subset
            wrex = mm.group(0) if mm else "<none>"
            if o["sub"] != wsub or o["gsub"] != wgsub or o["rex"] != wrex:
                bad("regex-vs-reference", input={"s": s, "regex": rx, "replacement": rep}, observed=[o["sub"], o["gsub"], o["rex"]], expected=[wsub, wgsub, wrex])
            if o["spl"] != "|".join(s.split("b") if s else []):
                bad("splitax", input={"s": s, "sep": "b"}, observed=o["spl"])
            if ngroups >= 2:
                wc = (mm.group(1) + "|" + mm.group(2)) if mm else "nomatch"
                if o["caps"] != wc:
                    bad("regex-captures", input={"s": s, "regex": rx}, observed=o["caps"], expected=wc)
        ctx.dist("regex_rows", nre)
        # (5) printf
        for (_, n, f), o in zip(rows7, r7):
            n, f = n.decode(), f.decode()
            ctx.count(("fmtnum", n, f))
            want = ref_fmtnum(n, f)
            if want is not None and o["o"] != want:
                mm = re.fullmatch(r"[^%]*%[-+ 0#]*\d*(?:\.\d+)?(?:ll|l)?([a-zA-Z])(.*)", f)
                cls = ("fmtnum-trailing-text" if mm and mm.group(2)
                       else "fmtnum-x-negative-not-twos-complement" if mm and mm.group(1) in "xXob" and n.startswith("-")
                       else "fmtnum-verb-unsupported" if mm and mm.group(1) in "obXEG" and "%!" in o["o"] else "fmtnum-printf")
                bad(cls, input={"value": n, "format": f}, observed=o["o"], expected=want, how="mlr -n put 'end{print fmtnum(%s, \"%s\")}'" % (n, f))
        ctx.dist("fmtnum_rows", len(rows7))
        # (6) verbs
        names = ["case -u", "ssub", "gsub", "sub", "clean-whitespace"]
        for i, nm in enumerate(names):
            vv, ff = vres[2 * i], vres[2 * i + 1]
            for row, v, f in zip(V, vv, ff):
                ctx.count(("verb", nm, row))
                if [v.get(k) for k in ("id", "a", "b", "c")] != [f[k] for k in ("id", "a", "b", "c")]:
                    bad("verb-equals-function-" + nm.split()[0], input=[x.decode("latin1") for x in row], observed=v, expected=f)
        ctx.dist("verb_rows", len(V) * len(names))

    with ctx.timed("impl"):
        regex_sequence_cases(ctx, bad)
        json_cases(ctx, case, bad)
        from checks import c15_codec
        c15_codec.run_part(ctx, case, bad, mlr_rows, P)
        from checks import c15_fmt
        c15_fmt.run_part(ctx, case, bad, mlr_rows, P, ref_fmtnum)
        from checks import c15_verbs
        c15_verbs.run_part(ctx, case, bad, mlr_rows, P)
        from checks import c15_regex
        rx_terms, rx_meta = c15_regex.run_part(ctx, bad, mlr_rows, P)
    for i in (0, len(meta) // 3, len(meta) // 2, len(meta) - 1):
        ctx.sample(meta[i])
    if not ok:
        if oracle_bad:
            ctx.violation(dict(oracle_bad[0], broken=why))
        else:
            ctx.violation({"broken": why}, found_input=False)
        return
    with ctx.timed("coq_cases"):
        badi, err = coq_eval_mismatches(ctx, "C15", "C15.Model C15.Harness C15.Harness2", "Z * Z * Z * bytes * bytes * bytes * bytes", "chk2", terms, shard=len(terms) // NSHARD + 1)
    ctx.cov["correspondence"] = {"cases": len(terms), "mismatches": len(badi)}
    c15_regex.evaluate(ctx, rx_terms, rx_meta)
    if err:
        ctx.violation({"broken": "correspondence-evaluation", "detail": err[-2000:]}, found_input=False)
    rep = 0
    for i in badi:
        if i < 0 or rep >= 5:
            continue
        rep += 1
        ctx.violation({"broken": "correspondence C15.Harness2.chk2 (model and implementation differ on this input)", "case": meta[i], "term": terms[i][:400]}, found_input=True)
    seen = set()
    for b in oracle_bad:
        if b["class"] in seen:
            continue
        seen.add(b["class"])
        ctx.violation(b)
    ctx.cov["oracle_disagreements"] = len(oracle_bad)
    hist = {}
    for b in oracle_bad:
        hist.setdefault(b["class"], []).append({k: b[k] for k in ("input", "observed", "expected") if k in b})
    ctx.cov["oracle_disagreement_classes"] = {k: {"count": len(v), "examples": v[:6]} for k, v in hist.items()}


# ---------------------------------------------------------------- regex state across calls in ONE process
def py_regex_ref(fn, pat, ci, text, rep="<\\1>"):
    flags = re.I if ci else 0
    cre = re.compile(pat, flags)
    m = cre.search(text)
    if fn == "sub":
        return cre.sub(lambda mm: mm.expand(rep.replace("\\1", "\\g<1>")), text, count=1)
    if fn == "gsub":
        return cre.sub(lambda mm: mm.expand(rep.replace("\\1", "\\g<1>")), text)
    if fn == "regextract_or_else":
        return m.group(0) if m else "<none>"
    if fn == "matched":
        return "true" if m else "false"
    if fn == "capture":
        return ("yes:" + m.group(1)) if m else "no"
    raise ValueError(fn)


def dsl_regex(fn, lit, text):
    if fn == "sub":
        return 'print sub("%s", %s, "<\\1>");' % (text, lit)
    if fn == "gsub":
        return 'print gsub("%s", %s, "<\\1>");' % (text, lit)
    if fn == "regextract_or_else":
        return 'print regextract_or_else("%s", %s, "<none>");' % (text, lit)
    if fn == "matched":
        return 'print strmatchx("%s", %s)["matched"];' % (text, lit)
    if fn == "capture":
        return 'if ("%s" =~ %s) {print "yes:\\1"} else {print "no"}' % (text, lit)
    raise ValueError(fn)


SEQ_PATTERNS = ["a(b)c", "(ab+)c", "x([a-c])", "(a|b)b", "^(a)b", "b(c)$", "(c)a*b"]
SEQ_FUNCS = ["sub", "gsub", "regextract_or_else", "matched", "capture"]


def regex_sequence_cases(ctx, bad):
    """the same pattern text used case-sensitively ("p") and case-insensitively ("p"i) within one mlr process, both
    orders, across functions, from DSL literals, from field values, and in verb then-chains; reference: python re"""
    rng = ctx.rng
    texts = ["xABCy abc Abc", "ABBC abbc", "xB xb XA", "AB ab Bb bB", "ab AB", "abc ABC", "CAAB cab cb CB"]
    # (1) DSL literals
    nprog = 0
    for pat, text in zip(SEQ_PATTERNS, texts):
        seqs = [[(f, False), (f, True)] for f in SEQ_FUNCS] + [[(f, True), (f, False)] for f in SEQ_FUNCS]
        seqs += [[(rng.choice(SEQ_FUNCS), rng.random() < 0.5) for _ in range(6)] for _ in range(2 if ctx.tier == "quick" else 10)]
        # all sequences of one pattern are separate processes; each sequence is ONE process
        if ctx.tier == "quick":
            seqs = rng.sample(seqs[:10], 3) + seqs[10:]
        for steps in seqs:
            # a successful =~ makes "\\1" in LATER string literals interpolate its captures (documented), so the
            # =~ steps go last: they still run after, and in both orders relative to, the other uses of the pattern
            steps = [x for x in steps if x[0] != "capture"] + [x for x in steps if x[0] == "capture"]
            prog = "end{" + " ".join(dsl_regex(f, '"%s"%s' % (pat, "i" if ci else ""), text) for f, ci in steps) + "}"
            st, out, err = mlr_run(ctx, ["-n", "put", prog], timeout=60)
            got = out.decode("utf-8", "replace").split("\n")[:-1]
            want = [py_regex_ref(f, pat, ci, text) for f, ci in steps]
            ctx.count(("regex-seq", pat, tuple(steps))); nprog += 1
            if st != 0 or got != want:
                bad("regex-state-across-calls", input={"pattern": pat, "text": text, "steps": [(f, "i" if ci else "") for f, ci in steps]}, observed=got or err.decode("latin1")[-300:], expected=want,
                    how="mlr -n put '%s'" % prog)
    # (2) patterns from field values, many patterns, both orders, one process
    rows, exp = [], []
    for k in range(40 if ctx.tier == "quick" else 600):
        pat = gen_regex(rng)
        if "(" not in pat:
            pat = "(" + pat.strip("^$") + ")"
        text = "".join(rng.choice("abcABC ") for _ in range(rng.randint(3, 10)))
        order = [False, True] if k % 2 == 0 else [True, False]
        for ci in order + [order[0]]:
            form = ('"%s"i' % pat) if ci else rng.choice([pat, '"%s"' % pat])
            rows.append((b"r", text.encode(), form.encode()))
            exp.append((pat, ci, text))
    ctx.dist("regex_sequence_data_rows", len(rows))
    res = mlr_rows(ctx, ["id", "s", "x"], rows, P(['sub($s,$x,"<\\1>")', 'gsub($s,$x,"<\\1>")', 'regextract_or_else($s,$x,"<none>")', 'strmatchx($s,$x)["matched"]']), ["sub", "gsub", "rex", "m"], args=["-S"])
    for (pat, ci, text), (_, _, form), o in zip(exp, rows, res):
        ctx.count(("regex-seq-data", pat, ci, text))
        try:
            want = [py_regex_ref(f, pat, ci, text) for f in ("sub", "gsub", "regextract_or_else", "matched")]
        except (re.error, IndexError):
            continue
        got = [o["sub"], o["gsub"], o["rex"], o["m"]]
        if got != want:
            bad("regex-state-across-calls", input={"pattern_as_given": form.decode(), "text": text, "note": "same pattern text is used with and without the i suffix in neighbouring records of one process"},
                observed=got, expected=want)
    # (3) verbs in then-chains
    for pat, text in zip(SEQ_PATTERNS, texts):
        for first_ci in (False, True):
            lit = lambda ci: ('"%s"i' % pat) if ci else pat
            chain = ["sub", "-f", "a", lit(first_ci), "<\\1>", "then", "gsub", "-f", "b", lit(not first_ci), "<\\1>", "then", "sub", "-f", "c", lit(not first_ci), "<\\1>",
                     "then", "gsub", "-f", "d", lit(first_ci), "<\\1>"]
            rows = [(text.encode(),) * 4]
            res = mlr_rows(ctx, ["a", "b", "c", "d"], rows, None, None, verb=chain)[0]
            want = {"a": py_regex_ref("sub", pat, first_ci, text), "b": py_regex_ref("gsub", pat, not first_ci, text),
                    "c": py_regex_ref("sub", pat, not first_ci, text), "d": py_regex_ref("gsub", pat, first_ci, text)}
            ctx.count(("regex-seq-verbs", pat, first_ci))
            if {k: res.get(k) for k in "abcd"} != want:
                bad("regex-state-across-calls", input={"verb_chain": chain, "text": text}, observed=res, expected=want, how="echo 'a=..,b=..,c=..,d=..' | mlr " + " ".join(chain))
    ctx.dist("regex_sequence_programs", nprog)


# ---------------------------------------------------------------- json_stringify / json_parse
def json_cases(ctx, case, bad):
    rng = ctx.rng
    strings = []
    for c in range(0, 0x80):
        ch = chr(c)
        strings += [ch, "a" + ch + "bc", "x" + ch + "-z", ch + ch]
    strings += ["", "plain", "caf\u00e9", "\u65e5\u672c\u8a9e", "tab\there", "q\"uote\\back", "\U0001f600", "a\u0301", "\\u0041", "</script>", "\u2028\u2029", "{\"k\": [1, 2]}", "0x1F", "1e5", "true"]
    for _ in range(60 if ctx.tier == "quick" else 2000):
        strings.append("".join(chr(rng.choice([rng.randrange(0, 0x20), rng.randrange(0x20, 0x7f), 0x22, 0x5c, 0x7f, 0xe9, 0x20ac, 0x1f600])) for _ in range(rng.randint(1, 8))))
    docs = ['[1, {"a": 2, "b": [true, null, "x\\u0001y"]}, 1.5, "s"]', '{"a": {"b": {"c": "\\ud83d\\ude00"}}, "d": []}', '"\\u00E9\\u000A\\/"', "123", "-0.5e3", "true", '{"k\\u0009": "v\\u0000w"}']
    recs = [{"i": i, "s": s, "j": json.dumps(s), "doc": docs[i % len(docs)]} for i, s in enumerate(strings)]
    inp = "".join(json.dumps(r) + "\n" for r in recs)
    prog = ('$t = json_stringify($s); u = json_parse($t); $rt = is_error(u) ? "error" : (u == $s && strlen(u) == strlen($s)); '
            '$mt = json_stringify({"k": $s}); $mk = json_stringify({$s: 1}); $ar = json_stringify([$s, $s]); '
            'v = json_parse($j); $dp = is_error(v) ? "error" : (v == $s); $dd = json_stringify(json_parse($doc)); '
            '$sc = json_stringify(17) . "|" . json_stringify(1.5) . "|" . json_stringify(true) . "|" . json_stringify("") . "|" . json_stringify({}) . "|" . json_stringify([]); '
            'unset $s; unset $j; unset $doc;')
    st, out, err = mlr_run(ctx, ["--ijsonl", "--ojsonl", "put", prog], inp.encode("utf-8"), timeout=180)
    lines = [l for l in out.decode("utf-8", "replace").split("\n") if l.strip()]
    if st != 0 or len(lines) != len(recs):
        bad("json-roundtrip", input="json_stringify/json_parse batch", observed={"status": st, "records": len(lines), "stderr": err.decode("latin1")[-400:]}, expected=len(recs))
        return
    for r, line in zip(recs, lines):
        s = r["s"]
        ctx.count(("json", s))
        how = "mlr -n put 'end{print json_stringify(json_parse(\"%s\"))}'" % json.dumps(s).replace("\\", "\\\\").replace('"', '\\"')
        try:
            o = json.loads(line)
        except Exception as e:
            bad("json-roundtrip", input={"s": json.dumps(s)}, observed={"output line is not JSON": line[:300]}, expected="valid JSON", how=how)
            continue
        case(20, 0, 0, s.encode("utf-8"), b"", b"", str(o.get("t", "")).encode("utf-8"), {"fn": "json_stringify", "s": json.dumps(s)})
        def dec(x):
            try:
                return json.loads(x)
            except Exception as e:
                return ("undecodable", x)
        want_doc = json.loads(r["doc"])
        checks = [("json_stringify(s) read by an RFC 8259 decoder", dec(o.get("t")), s),
                  ("map value", (dec(o.get("mt")) or {}).get("k") if isinstance(dec(o.get("mt")), dict) else dec(o.get("mt")), s),
                  ("array elements", dec(o.get("ar")), [s, s]),
                  ("json_parse(json_stringify(s)) == s", o.get("rt"), True),
                  ("json_parse of a reference encoder's text == s", o.get("dp"), True),
                  ("document round trip", dec(o.get("dd")), want_doc),
                  ("scalars", o.get("sc"), '17|1.5|true|""|{}|[]')]
        mk = dec(o.get("mk"))
        checks.append(("map key", list(mk.keys())[0] if isinstance(mk, dict) and mk else mk, s))
        for label, got, want in checks:
            if got != want:
                bad("json-roundtrip", input={"s": json.dumps(s), "what": label, "doc": r["doc"] if label.startswith("document") else None}, observed={"t": o.get("t"), "got": got if not isinstance(got, tuple) else list(got)},
                    expected=want, how=how)
                break
    ctx.dist("json_strings", len(recs))


def gen_regex(rng):
    """safe subset shared by RE2 and python re, never matching the empty string: literals, classes, ., + ? * on atoms,
    alternation inside groups, up to two capture groups, optional anchors"""
    def atom():
        r = rng.random()
        if r < 0.5: return rng.choice("abc")
        if r < 0.7: return rng.choice(["[ab]", "[a-c]", "[^a]", "."])
        return rng.choice("abc") + rng.choice(["+", "*", "?"])
    def seq():
        return rng.choice("abc") + "".join(atom() for _ in range(rng.randint(0, 2)))     # starts with a mandatory literal
    r = rng.random()
    if r < 0.4:
        body = seq()
    elif r < 0.8:
        body = "(" + seq() + ")" + "(" + seq() + ("|" + seq() if rng.random() < 0.4 else "") + ")"
    else:
        body = "(" + seq() + "|" + seq() + ")" + rng.choice(["", "+"]) + "(" + rng.choice("abc") + ")"
    return rng.choice(["", "", "^"]) + body + rng.choice(["", "", "$"])


def ref_fmtnum(n, f):
    """C printf rendering for the supported verbs; None when outside the checked grammar"""
    m = re.fullmatch(r"([^%]*)%([-+ 0#]*)(\d*)(?:\.(\d+))?(ll|l)?([dxXobeEfgGs])([^%]*)", f)
    if not m:
        return None
    pre, flags, width, precs, _, verb, post = m.groups()
    isint = re.fullmatch(r"-?\d+", n) is not None
    if verb == "s":
        return None
    spec = "%" + flags + width + ("." + precs if precs is not None else "")
    if verb in "dxXob":
        if not isint:
            return None                       # float with int verb: Miller-specific conventions, not C printf
        v = int(n)
        if verb == "d":
            return pre + (spec + "d") % v + post
        if v < 0:
            v += 2 ** 64                     # two's complement, as C's %llx of a long long
        if verb == "b":
            if "#" in flags:
                return None
            body = bin(v)[2:]
            w = int(width) if width else 0
            if "-" in flags:
                return pre + body.ljust(w) + post
            return pre + (body.rjust(w, "0") if "0" in flags else body.rjust(w)) + post
        if "+" in flags or " " in flags or ("#" in flags and verb == "o"):
            return None
        return pre + (spec + verb) % v + post
    if verb in "gG" and precs is None:
        return None                           # Go's %g without precision is shortest-repr, C's is precision 6: documented as Go semantics
    x = float(n)
    return pre + (spec + verb) % x + post


def replay(ctx, path):
    obj = json.loads(Path(path).read_text())
    how = obj.get("how")
    if how and how.startswith("mlr -n put '"):
        prog = how[len("mlr -n put '"):-1]
        st, out, err = mlr_run(ctx, ["-n", "put", prog])
        got = out.decode("utf-8", "replace").strip()
        print("replay: %s -> %r (expected %r)" % (how, got, obj.get("expected")))
        ctx.count(how)
        if str(obj.get("expected")) != got:
            ctx.violation(dict(obj, replayed=True, observed=got))
    else:
        print("replay: no direct command stored; re-running the check")
        run(ctx)
