"""C15 part: base64, latin1/utf8 and digests -- inputs for the correspondence with coq/C15/ModelCodec.v and
ModelHash.v (the Gallina digests are the independent reference) plus python oracles on mlr's own outputs."""
import base64, hashlib

ERR = "(error)"
B64 = b"ABCDEFGHIJKLMNOPQRSTUVWXYZabcdefghijklmnopqrstuvwxyz0123456789+/"
BOUNDARY = [0, 1, 2, 3, 54, 55, 56, 57, 63, 64, 65, 111, 112, 113, 119, 120, 127, 128, 129]


def tsv_enc(b):
    """TSV field encoding understood by Miller's TSV reader (pkg/lib/tsv_codec.go): any byte string without NUL"""
    return b.replace(b"\\", b"\\\\").replace(b"\t", b"\\t").replace(b"\n", b"\\n").replace(b"\r", b"\\r")


def rand_bytes(rng, n, kind):
    if kind == "any":
        return bytes(rng.randrange(1, 256) for _ in range(n))
    if kind == "latin":
        return bytes(rng.choice([rng.randrange(0x20, 0x7f), rng.randrange(0x80, 0x100)]) for _ in range(n))
    if kind == "utf8":
        out = b""
        while len(out) < n:
            out += rng.choice(["a", "Z", "\u00e9", "\u00ff", "\u0080", "\u0100", "\u20ac", "\U0001f600", "\u00c3", " "]).encode("utf-8")
        return out
    return bytes(rng.randrange(0x20, 0x7f) for _ in range(n))


def b64_variants(rng, n):
    """texts for base64_decode: canonical encodings and the malformed / unusual classes of the decoder"""
    fixed = [b"", b"QQ==", b"QUI=", b"QUJD", b"QR==", b"QUJ=", b"Q", b"QQ", b"QQ=", b"QUI", b"=", b"==", b"====", b"QQ=Q", b"QQ==QQ==", b"QUJD=", b"QUJDQQ",
             b"QQ=\n=", b"Q\nQ=\r=", b"QUJD\n", b"\n", b"\r\n", b"QU\r\nJD", b"QQ==\n", b"QQ== ", b" QQ==", b"QUJ D", b"QU-D", b"QU_D", b"QUJD====", b"Q=Q=", b"QQ=\nQ", b"QUJDRA==", b"QUJDRA=",
             b"QUJDR===", b"QQ\n==", b"QQ=\n", b"=QQQ", b"Q=QQ", b"QUJDQ\n"]
    out = list(fixed)
    for _ in range(n):
        raw = rand_bytes(rng, rng.randint(0, 12), "any")
        t = bytearray(base64.b64encode(raw))
        r = rng.random()
        if r < 0.35:
            pass
        elif r < 0.5 and t:
            t.insert(rng.randrange(len(t) + 1), rng.choice(b"\n\r"))
        elif r < 0.6 and t:
            del t[rng.randrange(len(t))]
        elif r < 0.7:
            t.insert(rng.randrange(len(t) + 1), rng.choice(b"= -_.\x7f\xc3"))
        elif r < 0.8 and t:
            t[rng.randrange(len(t))] = rng.choice(B64 + b"=")
        elif r < 0.9:
            t = bytearray(rng.choice(B64 + b"=\n") for _ in range(rng.randint(0, 9)))
        else:
            t = bytearray(t.rstrip(b"="))
        out.append(bytes(t))
    return out


def ref_b64decode(t):
    """Go encoding/base64 StdEncoding.DecodeString (non-strict, CR/LF skipped), written independently: None = error"""
    t = bytes(c for c in t if c not in b"\r\n")
    if len(t) % 4:
        return None
    body, tail = t[:-4], t[-4:]
    if any(c not in B64 for c in body):
        return None
    npad = 2 if tail.endswith(b"==") else 1 if tail.endswith(b"=") else 0
    if any(c not in B64 for c in tail[:4 - npad]) or (t and len(tail[:4 - npad]) < 2):
        return None
    bits = 0
    for c in body + tail[:4 - npad] + b"A" * npad:
        bits = bits * 64 + B64.index(c)
    raw = bits.to_bytes(len(t) // 4 * 3, "big")
    return raw[:len(raw) - npad]


def run_part(ctx, case, bad, mlr_rows, P):
    rng = ctx.rng
    quick = ctx.tier == "quick"
    # ---------------- messages
    msgs = [b"", b"a", b"abc", b"message digest", b"\xff\xfe\x80", b"Man", b"Ma", b"M", b"\\", b"a\tb\nc\rd"]
    for n in BOUNDARY:
        msgs.append(rand_bytes(rng, n, rng.choice(["any", "ascii", "utf8"]))[:n].ljust(n, b"x"))
    for _ in range(14 if quick else 400):
        msgs.append(rand_bytes(rng, rng.choice([rng.randint(0, 20), rng.randint(0, 70), rng.randint(100, 300)]), rng.choice(["any", "ascii", "utf8", "latin"])))
    if not quick:
        msgs += [rand_bytes(rng, n, "any") for n in (1000, 4096, 5000)]
    msgs = [m for m in msgs if b"\x00" not in m]
    rows = [(b"r%d" % i, tsv_enc(m)) for i, m in enumerate(msgs)]
    exprs = ["base64_encode($s)", "hex_encode(base64_decode(base64_encode($s)))", "md5($s)", "sha1($s)", "sha256($s)", "sha512($s)",
             "hex_encode(latin1_to_utf8($s))", "hex_encode(utf8_to_latin1($s))", "hex_encode(utf8_to_latin1(latin1_to_utf8($s)))"]
    res = mlr_rows(ctx, ["id", "s"], rows, P(exprs), ["be", "bd", "md5", "sha1", "sha256", "sha512", "l2u", "u2l", "rt"], args=["-S"])
    nhash = 0
    for m, o in zip(msgs, res):
        ctx.count(("codec-hash", m))
        info = {"s": m.hex()}
        if m == b"":
            # the empty field is VOID: latin1_to_utf8 / utf8_to_latin1 return it unchanged (same bytes)
            pass
        if o["be"] != ERR:
            case(30, 0, 0, m, b"", b"", o["be"].encode("latin1"), dict(info, fn="base64_encode"))
        want = base64.b64encode(m).decode()
        if o["be"] != want:
            bad("base64-encode", input=m.hex(), observed=o["be"], expected=want)
        if o["bd"] != m.hex():
            bad("base64-inverse", input=m.hex(), observed=o["bd"], expected=m.hex())
        for k, (key, h) in enumerate((("md5", hashlib.md5), ("sha1", hashlib.sha1), ("sha256", hashlib.sha256), ("sha512", hashlib.sha512))):
            if len(m) <= 300 and (not quick or nhash < 4 * 34):
                case(40 + k, 0, 0, m, b"", b"", o[key].encode("latin1"), dict(info, fn=key)); nhash += 1
            if o[key] != h(m).hexdigest():
                bad("digest-" + key, input=m.hex(), observed=o[key], expected=h(m).hexdigest())
        l2u = m.decode("latin1").encode("utf-8")
        if o["l2u"] != ERR:
            case(32, 0, 0, m, b"", b"", bytes.fromhex(o["l2u"]), dict(info, fn="latin1_to_utf8"))
        case(33, 1 if o["u2l"] == ERR else 0, 0, m, b"", b"", b"" if o["u2l"] == ERR else bytes.fromhex(o["u2l"]), dict(info, fn="utf8_to_latin1"))
        try:
            u2l = m.decode("utf-8").encode("latin1")
        except (UnicodeDecodeError, UnicodeEncodeError):
            u2l = None
        if o["l2u"] != l2u.hex() or o["rt"] != m.hex():
            bad("latin1-utf8-inverse", input=m.hex(), observed=[o["l2u"], o["rt"]], expected=[l2u.hex(), m.hex()])
        if (None if o["u2l"] == ERR else o["u2l"]) != (None if u2l is None else u2l.hex()):
            bad("utf8-to-latin1", input=m.hex(), observed=o["u2l"], expected=None if u2l is None else u2l.hex())
    ctx.dist("codec_digest_messages", len(msgs)); ctx.dist("digest_correspondence_cases", nhash)
    # ---------------- base64_decode on well- and ill-formed text
    texts = b64_variants(rng, 60 if quick else 1500)
    rows = [(b"r%d" % i, tsv_enc(t)) for i, t in enumerate(texts)]
    res = mlr_rows(ctx, ["id", "s"], rows, P(["hex_encode(base64_decode($s))", "base64_encode(base64_decode($s))"]), ["d", "re"], args=["-S"])
    for t, o in zip(texts, res):
        ctx.count(("b64-decode", t))
        got = None if o["d"] == ERR else bytes.fromhex(o["d"])
        case(31, 1 if got is None else 0, 0, t, b"", b"", got or b"", {"fn": "base64_decode", "s": t.hex()})
        want = ref_b64decode(t)
        if got != want:
            bad("base64-decode", input=t.hex(), observed=o["d"], expected=None if want is None else want.hex())
        elif got is not None and base64.b64decode(o["re"]) != got:
            bad("base64-inverse", input=t.hex(), observed=o["re"], expected=base64.b64encode(got).decode())
    ctx.dist("base64_decode_texts", len(texts))
