"""C19 — in-place mode never leaves a file half-written (DESIGN 3/C19).

Correspondence: the real `mlr -I` is run in scratch directories (i) to completion, (ii) with one system call made to fail
(ptrace fault injection: ENOSPC on write, EACCES on the temp-file create, EIO on close, EXDEV on rename, EPERM on chmod),
(iii) SIGKILLed at the entry of the n-th file system call for every n (crash points); the directory snapshot (bytes and mode
of every file) is compared under vm_compute with Model.exec (all_ops plan) (returned runs) or with the set of
Model.crash_state plan k (killed runs).  Oracle, independent of the model: every named file holds its complete original or
its complete transformed bytes (= what the same command without -I prints for that file alone), later files are untouched,
no mlr-in-place-* file is left after a run that returned, the mode is preserved on success, compressed inputs stay compressed,
non-updatable inputs are refused with everything unchanged.
"""
import bz2, gzip, json, os, shutil, tempfile, zlib
from vlib import *
from checks import c19_runner as R

CL_TEMP = "inplace-temp-left-after-direct-exit"
JOBS = max(1, int(os.environ.get("VERIF_JOBS", "2")))      # parallel traced runs / coqc processes
OC = {"WrapCloseFails": 9, "Missing": 0, "RefusedEarly": 1, "CreateFails": 2, "RefusedAfterCreate": 3, "StreamFails": 4, "CloseFails": 5,
      "RenameFails": 6, "ChmodFails": 7, "Succeeds": 8}


def cb(b):
    if all((32 <= c < 127) or c == 10 for c in b):
        return '(B "%s")' % b.decode("ascii").replace('"', '""')
    return coq_bytes(b)


def csv_file(rng, nrows, tag):
    rows = ["a,b,c"] + ["%s%d,%d,%s" % (tag, i, rng.randint(0, 99), "".join(rng.choice("xyz") for _ in range(3))) for i in range(nrows)]
    return ("\n".join(rows) + "\n").encode()


def alone(ctx, args, name, content, extra=()):
    """what the same command WITHOUT -I prints for that file alone"""
    d = tempfile.mkdtemp(prefix="verif-c19a-", dir="/tmp")
    try:
        with open(os.path.join(d, os.path.basename(name)), "wb") as f:
            f.write(content)
        st, out, err = mlr_run(ctx, list(args) + list(extra) + [os.path.basename(name)], b"", timeout=60, cwd=d)
        return st, out, err
    finally:
        shutil.rmtree(d, ignore_errors=True)


ZSTD_MAGIC = b"\x28\xb5\x2f\xfd"


def zstd(ctx, data, decompress=False):
    rc, out, err = sh([ctx.implrun(), "zstd-decompress" if decompress else "zstd-compress"], inp=data, binary=True, timeout=60)
    return out if rc == 0 else None


def encoding_of(name, args):
    if name.endswith(".gz") or "--gzin" in args:
        return "gz"
    if name.endswith(".zst") or "--zstdin" in args:
        return "zst"
    if name.endswith(".z") or "--zin" in args:
        return "z"
    return None


def decompress(ctx, enc, b):
    try:
        if enc == "gz":
            return gzip.decompress(b)
        if enc == "z":
            return zlib.decompress(b)
        if enc == "zst":
            return zstd(ctx, b, decompress=True) if b.startswith(ZSTD_MAGIC) else None
    except Exception:
        return None


def snap_files(res):
    return {n: (bytes.fromhex(v["hex"]), v["mode"]) for n, v in (res.get("snapshot") or {}).items()}


def is_temp(n):
    return os.path.basename(n).startswith("mlr-in-place-")


def pmap(fn, items):
    """run fn over items with at most JOBS threads (the work is in child processes)"""
    from concurrent.futures import ThreadPoolExecutor
    items = list(items)
    if JOBS <= 1 or len(items) <= 1:
        return [fn(x) for x in items]
    with ThreadPoolExecutor(max_workers=JOBS) as ex:
        return list(ex.map(fn, items))


def run_with_fsize_limit(ctx, files, args, limit, names=None, timeout=60):
    """mlr -I in a fresh scratch directory with RLIMIT_FSIZE = limit bytes (writes beyond it fail with EFBIG: Go ignores SIGXFSZ)"""
    import resource, subprocess
    names = [f[0] for f in files] if names is None else list(names)
    scratch = R._mk_scratch(files)
    try:
        e = dict(os.environ); e["MLRRC"] = "__none__"
        try:
            p = subprocess.run([ctx.mlr(), "-I"] + list(args) + names, cwd=scratch, env=e, stdin=subprocess.DEVNULL, capture_output=True, timeout=timeout,
                               preexec_fn=lambda: resource.setrlimit(resource.RLIMIT_FSIZE, (limit, limit)))
            st, err = ("killed" if p.returncode < 0 else p.returncode), p.stderr.decode("latin1")[-2000:]
        except subprocess.TimeoutExpired:
            st, err = "hang", ""
        return {"status": st, "stderr": err, "snapshot": R.snapshot(scratch), "trace": [], "injected": True}
    finally:
        shutil.rmtree(scratch, ignore_errors=True)


def incompressible_csv(rng, nrows):
    rows = ["a,b,c"] + ["%d,%032x,%032x" % (i, rng.getrandbits(128), rng.getrandbits(128)) for i in range(nrows)]
    return ("\n".join(rows) + "\n").encode()


def compressed_write_failures(ctx, observe):
    """EVERY write call of a run on a compressed input is made to fail in turn (ptrace: ENOSPC / EFBIG / EIO), and the run is
    repeated under RLIMIT_FSIZE limits below the output size.  The writes issued from Close() of the gzip/zlib/zstd wrapper
    (buffered tail + trailer; for small inputs ALL the data) are the interesting ones: a failure there must be reported and
    must leave the original, exactly like a failure inside the stream (outcome WrapCloseFails of the model)."""
    rng = ctx.rng
    sizes = [("tiny", 3), ("small", 60), ("large", 1200)] + ([("huge", 9000)] if ctx.tier == "thorough" else [])
    encs = [("gz", "f.csv.gz", ["--csv", "cat"], lambda b: gzip.compress(b, mtime=0)), ("z", "g.csv.z", ["--csv", "cat"], zlib.compress),
            ("zst", "k.csv.zst", ["--csv", "cat"], lambda b: zstd(ctx, b)), ("gzin", "noext", ["--gzin", "--csv", "cat"], lambda b: gzip.compress(b, mtime=0)),
            ("plain", "p.csv", ["--icsv", "--ojson", "cat"], lambda b: b)]
    errs = ["ENOSPC", "EFBIG", "EIO"]
    k = 0
    for enc, name, args, comp in encs:
        for sname, nrows in sizes:
            if ctx.tier == "quick" and ((enc in ("gzin", "plain", "z") and sname != "small") or (enc == "zst" and sname == "tiny")):
                continue
            content = comp(incompressible_csv(rng, nrows))
            if not content:
                continue
            files = [(name, content, 0o640)]
            base = Scenario("wfail:%s-%s" % (enc, sname), args, files, ["Succeeds"])
            expected_transforms(ctx, base)
            clean = R.trace_run(ctx, files, args)
            W = clean["counts"].get("write", 0)
            ctx.cov.setdefault("compressed_write_counts", {})[base.name] = W
            sizes_w = [e_[3] for e_ in project_trace(clean.get("trace") or []) if e_[0] == 2]
            # (a) ptrace: a few of the write calls fail with ENOSPC / EIO / EFBIG (slow engine: ~1 s per run)
            ns = list(range(1, W + 1)) if (W <= 4 or ctx.tier == "thorough") else sorted({1, 2, W - 1, W})
            tasks = []
            for n in ns:
                e = errs[k % 3]; k += 1
                sc = Scenario("wfail:%s-%s:write#%d-of-%d" % (enc, sname, n, W), args, files, ["StreamFails" if (enc == "plain" or n == 1) else "WrapCloseFails"])
                sc.transformed = base.transformed
                tasks.append((sc, ("error", "write", e, n)))
            for (sc, inj), res in zip(tasks, pmap(lambda t: R.run_inplace(ctx, files, args, inject=t[1]), tasks)):
                if not res.get("injected"):
                    ctx.dist("inject-did-not-fire")
                    continue
                observe(sc, res, False, "ptrace: write #%d of %d returns %s (mlr -I %s %s)" % (inj[3], W, inj[2], " ".join(args), name), inj)
            # (b) RLIMIT_FSIZE at EVERY write boundary: with the limit equal to the bytes written before write #n, exactly write #n
            #     fails (EFBIG, nothing written); plus limits inside a write (short write, then EFBIG).  Direct runs: fast.
            new = base.transformed.get(name, b"")
            bounds = [sum(sizes_w[:i]) for i in range(len(sizes_w))]
            if len(bounds) > 24 and ctx.tier == "quick":
                bounds = sorted(set(bounds[:5] + bounds[-10:] + rng.sample(bounds[5:-10], 9)))
            inside = [l for l in (1024, len(new) // 2, len(new) - 1) if 0 < l < len(new)]
            for limit in sorted(set(bounds + inside)):
                if limit >= len(new):
                    continue
                sc = Scenario("wfail:%s-%s:RLIMIT_FSIZE=%d-of-%d" % (enc, sname, limit, len(new)), args, files, ["StreamFails" if enc == "plain" else "WrapCloseFails"])
                sc.transformed = base.transformed
                res = run_with_fsize_limit(ctx, files, args, limit)
                observe(sc, res, False, "ulimit -f (bytes) %d; mlr -I %s %s   (output needs %d bytes; write sizes %s)" % (
                    limit, " ".join(args), name, len(new), sizes_w[:6] + (["..."] if len(sizes_w) > 6 else [])), None)


REFUSAL_MESSAGES = ("not updateable in place", "bzip2 is not currently supported for in-place mode")
ENCFLAG = {"--bz2in": 1, "--gzin": 2, "--zin": 3, "--zstdin": 4}
CL_LATE_REFUSAL = "inplace-refused-after-modifying"


def pre_pass_inputs(args, names):
    """(prepipe given, encoding flag code, names): the inputs of Model.inplace_ops' pre-pass"""
    pp = 1 if any(a in ("--prepipe", "--prepipex") for a in args) else 0
    fl = next((ENCFLAG[a] for a in args if a in ENCFLAG), 0)
    return pp, fl, list(names)


def refused_up_front(args, names):
    """harness-side statement of the property clause: URLs, prepipes, bzip2 (flag or suffix) anywhere in the list"""
    pp, fl, names = pre_pass_inputs(args, names)
    return bool(pp) or fl == 1 or any(n.startswith(("http://", "https://", "file://")) or (fl == 0 and n.endswith(".bz2")) for n in names)


class Scenario:
    def __init__(self, name, args, files, outcomes, names=None, decode=None):
        self.name, self.args, self.files, self.outcomes = name, args, files, outcomes      # files: [(name, bytes, mode)]
        self.names = names or [f[0] for f in files]
        # a non-updatable input anywhere in the list: the whole command is refused before anything is done (empty plan)
        self.upfront = refused_up_front(args, self.names)
        if self.upfront:
            self.outcomes = ["RefusedEarly"] + ["Succeeds"] * (len(self.names) - 1)
        self.decode = decode or (lambda b: b)
        self.transformed = {}                                                            # name -> expected new bytes (as stored)


def build_plan(sc, snap, killed):
    """plan entries for the Coq model + observed cells.  Temp names: the observed mlr-in-place-* file (at most one is
    expected) belongs to the first file that is still original and whose outcome creates a temp file."""
    orig = {f[0]: (f[1], f[2]) for f in sc.files}
    temps = sorted(n for n in snap if is_temp(n))
    entries, assigned = [], set()
    for i, n in enumerate([] if sc.upfront else sc.names):
        n = os.path.normpath(n)
        oc = sc.outcomes[i]
        content, mode = orig.get(n, (b"", 0))
        new = sc.transformed.get(n, b"")
        tname = "mlr-in-place-#%d" % i
        chunks = [new] if oc in ("Succeeds", "ChmodFails", "CloseFails", "RenameFails") else []
        if temps and not assigned and oc not in ("Missing", "RefusedEarly", "CreateFails") and n in snap and snap[n][0] == content \
                and (snap[n][0] != new or True):
            t = temps[0]
            tb = snap[t][0]
            if oc in ("StreamFails", "WrapCloseFails"):
                assigned.add(t); tname = t; chunks = [tb] if tb else []
            elif new.startswith(tb):
                assigned.add(t); tname = t
                chunks = [x for x in (tb, new[len(tb):]) if x] or [new]
        entries.append((n, tname, mode, OC[oc], chunks))
    obs = {}
    for e in entries:
        obs[e[0]] = snap.get(e[0])
        obs[e[1]] = snap.get(e[1])
    for n in snap:
        if n not in obs and n not in orig:
            obs[n] = snap[n]                     # anything unexpected in the directory: the model says it does not exist
    for n in orig:
        if n not in obs:
            obs[n] = snap.get(n)
    return entries, obs


TRACE_RE = re.compile(r"^\d+ (\w+)#\d+\((.*)\) = (-?\d+)(.*)$")


def project_trace(lines, scratch_hint=None):
    """file-system calls on scratch files -> events of the Coq acceptor.  Dropped: failed calls (they changed nothing) except
    stat and close; opening/closing the INPUT file; the lstat that os.Rename does itself (flag AT_SYMLINK_NOFOLLOW = 256)."""
    def rel(pth):
        pth = pth.strip('"')
        if "/verif-c19-" in pth:
            pth = pth.split("/verif-c19-", 1)[1].split("/", 1)[1]
        return os.path.normpath(pth)
    ev = []
    for l in lines:
        m = TRACE_RE.match(l)
        if not m:
            continue
        name, args, ret = m.group(1), m.group(2), int(m.group(3))
        a = [x.strip() for x in args.split(", ")]
        if name == "newfstatat":
            if a[-1] != "256":
                ev.append((0, rel(a[1]), "", 0))
        elif name == "openat":
            if "O_CREAT" in a[2] and ret >= 0:
                ev.append((1, rel(a[1]), "", int(a[3], 8)))
        elif name == "write":
            mm = re.match(r"\d+<(.*?)>", a[0])
            if mm and is_temp(mm.group(1)) and ret >= 0:
                ev.append((2, rel(mm.group(1)), "", ret))
        elif name == "close":
            mm = re.match(r"\d+<(.*?)>", a[0])
            if mm and is_temp(mm.group(1)):
                ev.append((3, rel(mm.group(1)), "", 0))
        elif name in ("renameat", "renameat2", "rename"):
            if ret >= 0:
                ps = [x for x in a if x.startswith('"')]
                ev.append((4, rel(ps[0]), rel(ps[1]), 0))
        elif name in ("fchmodat", "chmod"):
            if ret >= 0:
                ps = [x for x in a if x.startswith('"')]
                ev.append((5, rel(ps[0]), "", int(a[-1], 8)))
        elif name in ("unlinkat", "unlink"):
            if ret >= 0:
                ps = [x for x in a if x.startswith('"')]
                ev.append((6, rel(ps[0]), "", 0))
    return ev


def trace_case(sc, res, killed):
    """Coq term for Harness.chk_trace: the plan gets the temp names and the write sizes seen in the trace"""
    ev = project_trace(res.get("trace") or [])
    if not ev and not (sc.upfront and res.get("trace") is not None and not killed):
        return None, ev
    creates = [e[1] for e in ev if e[0] == 1]
    orig = {f[0]: (f[1], f[2]) for f in sc.files}
    entries, ci = [], 0
    for i, n in enumerate([] if sc.upfront else sc.names):
        n = os.path.normpath(n)
        oc = sc.outcomes[i]
        mode = orig.get(n, (b"", 0))[1]
        tname, lens = "mlr-in-place-#%d" % i, []
        if oc not in ("Missing", "RefusedEarly", "CreateFails") and ci < len(creates):
            tname = creates[ci]
            ci += 1
            lens = [e[3] for e in ev if e[0] == 2 and e[1] == tname]
        entries.append((n, tname, mode, OC[oc], lens))
    ent = "[" + "; ".join(f"({cb(n.encode())}, {cb(t.encode())}, {m}, {code}, [{'; '.join(str(x) for x in ls)}])" for n, t, m, code, ls in entries) + "]"
    tr = "[" + "; ".join(f"({c}, {cb(p1.encode())}, {cb(p2.encode()) if p2 else '[]'}, {n})" for c, p1, p2, n in ev) + "]"
    return f"({0 if killed else 1}, {ent},\n {tr})", ev


def coq_case(kind, sc, entries, obs):
    ent = "[" + "; ".join(f"({cb(n.encode())}, {cb(t.encode())}, {m}, {code}, [{'; '.join(cb(c) for c in ch)}])" for n, t, m, code, ch in entries) + "]"
    before = "[" + "; ".join(f"({cb(n.encode())}, {cb(c)}, {m})" for n, c, m in sc.files) + "]"
    o = "[" + "; ".join(f"({cb(n.encode())}, " + ("None" if v is None else f"Some ({cb(v[0])}, {v[1]})") + ")" for n, v in sorted(obs.items())) + "]"
    return f"({kind}, {ent},\n {before},\n {o})"


ABS_TY = ("Z * list (bytes * bytes * Z * Z * list Z) * list (bytes * (Z * bytes * Z) * Z) * list (bytes * option ((Z * bytes * Z) * Z))")


def abs_case(kind, sc, entries, obs):
    """Coq term for Harness.chk_abs: the same case as coq_case with contents abstracted -- original of <name> -> identifier "O:<name>",
    (a prefix of) the expected output -> "the first n bytes of the output" (tag 1), anything else -> "?" (matches no model state).
    The comparison of the real bytes with the original / the expected output is done HERE; the model then decides whether the
    directory is a state of the op sequence."""
    orig = {os.path.normpath(f[0]): (f[1], f[2]) for f in sc.files}
    new_of, lens_of, tmp_owner = {}, {}, {}
    plan = []
    for n, tname, mode, code, chunks in entries:
        new_of[n] = b"".join(chunks) if code in (OC["StreamFails"], OC["WrapCloseFails"]) else sc.transformed.get(n, b"".join(chunks))
        tmp_owner[tname] = n
        plan.append("(%s, %s, %d, %d, [%s])" % (cb(n.encode()), cb(tname.encode()), mode, code, "; ".join(str(len(c)) for c in chunks)))

    def a_orig(n):
        c = orig[n][0]
        if n in new_of and new_of[n] == c:
            return "(1, [], %d)" % len(c)                 # output identical to the input: one identifier for both
        return "(0, %s, 0)" % cb(("O:" + n).encode())

    def a_cell(p, content):
        if p in orig and content == orig[p][0]:
            return a_orig(p)
        if p in new_of and content == sc.transformed.get(p, new_of[p]):
            return "(1, [], %d)" % len(content)
        if p in tmp_owner and new_of[tmp_owner[p]].startswith(content):
            return "(1, [], %d)" % len(content)
        return '(0, (B "?"), 0)'
    before = "[" + "; ".join("(%s, %s, %d)" % (cb(os.path.normpath(n).encode()), a_orig(os.path.normpath(n)), m) for n, c, m in sc.files) + "]"
    o = "[" + "; ".join("(%s, %s)" % (cb(n.encode()), "None" if v is None else "Some (%s, %d)" % (a_cell(n, v[0]), v[1])) for n, v in sorted(obs.items())) + "]"
    return "(%d, [%s],\n %s,\n %s)" % (kind, "; ".join(plan), before, o)


def oracle(ctx, sc, res, killed, how):
    """the property on the snapshot. returns list of (class, message)"""
    snap = snap_files(res)
    orig = {f[0]: (f[1], f[2]) for f in sc.files}
    bad = []
    failed_at = next((i for i, oc in enumerate(sc.outcomes) if oc != "Succeeds"), None)
    if sc.upfront:
        changed = [n for n, (ob, om) in orig.items() if n in snap and snap[n] != (ob, om)]
        if changed:
            bad.append((CL_LATE_REFUSAL, f"the command names an input that cannot be updated in place (URL / prepipe / bzip2), yet {changed} "
                                         f"was modified before mlr refused (exit {res['status']})"))
    for i, n in enumerate(sc.names):
        n = os.path.normpath(n)
        if n not in orig:
            continue
        ob, om = orig[n]
        if n not in snap:
            bad.append(("inplace-file-missing", f"{n} no longer exists"))
            continue
        b, m = snap[n]
        new = sc.transformed.get(n)
        if b != ob and b != new:
            bad.append(("inplace-half-written", f"{n} holds neither its original nor its transformed bytes ({len(b)} bytes; original {len(ob)}, transformed {len(new or b'')})"))
        if failed_at is not None and i > failed_at and (b, m) != (ob, om):
            bad.append(("inplace-later-file-touched", f"{n} comes after the failing file but was changed"))
        if b == ob and b != new and m != om:
            bad.append(("inplace-mode-changed", f"{n} unchanged content but mode {oct(m)} != {oct(om)}"))
        if not killed and b == new and b != ob and m != om and sc.outcomes[i] == "Succeeds" and res["status"] == 0:
            bad.append(("inplace-mode-not-preserved", f"{n} mode {oct(m)} after success, was {oct(om)}"))
        if not killed and res["status"] == 0 and sc.outcomes[i] == "Succeeds" and b != new:
            bad.append(("inplace-not-transformed", f"{n} not transformed although mlr exited 0"))
    if not killed:
        left = [n for n in snap if is_temp(n)]
        if left:
            bad.append((CL_TEMP if sc.name.startswith("direct-exit") else "inplace-temp-left", f"temporary file(s) left after mlr returned {res['status']}: {left}"))
        if all(oc == "Succeeds" for oc in sc.outcomes) and res["status"] != 0:
            bad.append(("inplace-unexpected-failure", f"exit {res['status']}: {res['stderr'][-300:] if isinstance(res['stderr'], str) else res['stderr'][-300:]}"))
        if any(oc != "Succeeds" for oc in sc.outcomes) and res["status"] == 0:
            bad.append(("inplace-failure-not-reported", "a file could not be processed but mlr exited 0"))
    extra = [n for n in snap if n not in orig and not is_temp(n)]
    if extra:
        bad.append(("inplace-stray-file", f"unexpected files {extra}"))
    return bad


def report(ctx, sc, res, bad, how, inject=None):
    cls, msg = bad[0]
    snap = snap_files(res)
    ctx.violation({"class": cls, "what": msg, "all": [m for _, m in bad][:5], "scenario": sc.name, "how": how, "inject": list(inject) if inject else None,
                   "args": sc.args, "names": sc.names, "files": [[n, c.hex(), m] for n, c, m in sc.files], "outcomes": sc.outcomes,
                   "status": res["status"], "stderr": (res["stderr"] if isinstance(res["stderr"], str) else res["stderr"].decode("latin1"))[-400:],
                   "observed": {n: {"len": len(b), "mode": oct(m), "head": b[:80].decode("latin1")} for n, (b, m) in snap.items()}})


def make_scenarios(ctx):
    rng = ctx.rng
    S = []
    three = lambda: [("a.csv", csv_file(rng, rng.randint(2, 5), "p"), 0o640), ("b.csv", csv_file(rng, rng.randint(1, 4), "q"), 0o600),
                     ("c.csv", csv_file(rng, rng.randint(2, 6), "r"), 0o755)]
    ok3 = ["Succeeds"] * 3
    S.append(Scenario("success:csv-to-json", ["--icsv", "--ojson", "cat"], three()[:2], ["Succeeds"] * 2))
    S.append(Scenario("success:own-header-head-NR", ["--icsv", "--ocsv", "head", "-n", "1", "then", "put", "$nr=NR; $fnr=FNR; $f=FILENAME"], three(), ok3))
    S.append(Scenario("success:begin-end-per-file", ["--icsv", "--ocsv", "put", "-q", "begin{@n=0} @n += 1; end{emit @n}"], three(), ok3))
    S.append(Scenario("success:sort", ["--icsv", "--opprint", "sort", "-nr", "b"], three(), ok3))
    # --seed: the command line is re-parsed for every file, so the generator is re-seeded per file: each file must equal the run of the
    # same command (same --seed) on that file ALONE -- random-consuming functions and verbs; two byte-identical inputs included
    same = csv_file(rng, 5, "s")
    sd = str(rng.randint(1, 10 ** 6))
    S.append(Scenario("success:seed-urandint", ["--seed", sd, "--icsv", "--ocsv", "put", "$r = urandint(1, 1000000); $u = urand32()"],
                      [("a.csv", same, 0o640), ("b.csv", same, 0o600), ("c.csv", csv_file(rng, 4, "t"), 0o644)], ok3))
    S.append(Scenario("success:seed-shuffle-bootstrap", ["--seed", sd, "--icsv", "--ocsv", "shuffle", "then", "bootstrap", "then", "sample", "-k", "3"],
                      [("a.csv", csv_file(rng, 7, "u"), 0o640), ("b.csv", same, 0o600), ("c.csv", same, 0o644)], ok3))
    plain = csv_file(rng, 4, "z")
    S.append(Scenario("success:gz-suffix", ["--icsv", "--ocsv", "put", "$d=1"], [("g.csv.gz", gzip.compress(plain, mtime=0), 0o644), ("h.csv", plain, 0o604)],
                      ["Succeeds", "Succeeds"]))
    S.append(Scenario("success:gzin-flag", ["--gzin", "--icsv", "--ocsv", "put", "$d=2"], [("plainname", gzip.compress(plain, mtime=0), 0o600)], ["Succeeds"]))
    S.append(Scenario("success:zlib-suffix", ["--icsv", "--ojson", "cat"], [("w.csv.z", zlib.compress(plain), 0o640)], ["Succeeds"]))
    S.append(Scenario("success:zin-flag", ["--zin", "--icsv", "--ojson", "cat"], [("w2", zlib.compress(plain), 0o640)], ["Succeeds"]))
    zplain = zstd(ctx, plain)
    if zplain and zplain.startswith(ZSTD_MAGIC):
        S.append(Scenario("success:zstd-suffix", ["--icsv", "--ocsv", "put", "$d=3"], [("k.csv.zst", zplain, 0o640), ("h2.csv", plain, 0o600)], ["Succeeds", "Succeeds"]))
        S.append(Scenario("success:zstdin-flag", ["--zstdin", "--icsv", "--ojson", "cat"], [("k2", zplain, 0o604)], ["Succeeds"]))
    else:
        ctx.cov["zstd"] = "implrun zstd-compress unavailable"
    # failures that come back through the error path, in the MIDDLE file
    bad_csv = b"a,b,c\n1,2,3\n4,5\n6,7,8\n"
    f3 = three()
    S.append(Scenario("fail:malformed-input-middle", ["--icsv", "--ojson", "cat"], [f3[0], ("b.csv", bad_csv, 0o600), f3[2]], ["Succeeds", "StreamFails", "Succeeds"]))
    f3 = three()
    S.append(Scenario("fail:csv-schema-change-middle", ["--ixtab", "--ocsv", "cat"],
                      [("a.x", b"k 1\nv 2\n\nk 3\nv 4\n", 0o640), ("b.x", b"k 1\nv 2\n\nz 3\ny 4\n", 0o600), ("c.x", b"k 5\nv 6\n", 0o644)],
                      ["Succeeds", "StreamFails", "Succeeds"]))
    S.append(Scenario("fail:dsl-redirect-target-absent-first", ["--icsv", "--ocsv", "put", "-q", 'print > $nosuch, "x"'], three(), ["StreamFails", "Succeeds", "Succeeds"]))
    # run-time DSL failures that terminate the process directly (os.Exit in the BIF / UDF machinery)
    S.append(Scenario("direct-exit:asserting_int-middle", ["put", "$y = asserting_int($x)"],
                      [("a", b"x=1\nx=2\n", 0o640), ("b", b"x=3\nx=abc\nx=5\n", 0o600), ("c", b"x=6\n", 0o644)], ["Succeeds", "StreamFails", "Succeeds"]))
    S.append(Scenario("direct-exit:udf-parameter-type-first", ["put", 'func f(str s): str { return s } $y = f($x)'],
                      [("a", b"x=1\n", 0o640), ("b", b"x=abc\n", 0o600)], ["StreamFails", "Succeeds"]))
    # refusals: a non-updatable input ANYWHERE in the list (first, middle, LAST) refuses the whole command before anything is modified
    bz = bz2.compress(b"x=1\n")
    S.append(Scenario("refuse:bzip2-middle", ["cat"], [("a", b"x=1\n", 0o640), ("f.bz2", bz, 0o600), ("c", b"x=6\n", 0o644)], ["-"] * 3))
    S.append(Scenario("refuse:bzip2-last", ["put", "$z=1"], [("a", b"x=1\n", 0o640), ("c", b"x=6\n", 0o644), ("f.bz2", bz, 0o600)], ["-"] * 3))
    S.append(Scenario("refuse:bz2in-flag", ["--bz2in", "put", "$z=1"], [("a", bz, 0o640), ("c", bz, 0o644)], ["-"] * 2))
    S.append(Scenario("refuse:prepipe", ["--prepipe", "cat", "put", "$z=1"], [("a", b"x=1\n", 0o640), ("c", b"x=6\n", 0o644)], ["-"] * 2))
    S.append(Scenario("refuse:prepipex", ["--prepipex", "cat", "cat"], [("a", b"x=1\n", 0o640)], ["-"]))
    S.append(Scenario("refuse:url-first", ["cat"], [("http:/host/x", b"x=1\n", 0o640), ("c", b"x=6\n", 0o644)], ["-"] * 2, names=["http://host/x", "c"]))
    S.append(Scenario("refuse:url-last", ["put", "$z=1"], [("a", b"x=1\n", 0o640), ("https:/host/x", b"x=1\n", 0o640)], ["-"] * 2, names=["a", "https://host/x"]))
    S.append(Scenario("refuse:file-url-last", ["put", "$z=1"], [("a", b"x=1\n", 0o640), ("c", b"x=6\n", 0o644)], ["-"] * 3, names=["a", "c", "file://nowhere/x"]))
    S.append(Scenario("refuse:missing-file-middle", ["put", "$z=1"], [("a", b"x=1\n", 0o640), ("c", b"x=6\n", 0o644)], ["Succeeds", "Missing", "Succeeds"],
                      names=["a", "nosuch", "c"]))
    # accepted although the name looks compressed the other way / the suffix is overridden by a flag
    S.append(Scenario("success:gzin-flag-on-bz2-name", ["--gzin", "--icsv", "--ocsv", "put", "$d=4"], [("n.bz2", gzip.compress(plain, mtime=0), 0o600)], ["Succeeds"]))
    # mode preservation incl. setuid / setgid / sticky bits, a read-only file in a writable directory, mode 0000
    S.append(Scenario("success:special-mode-bits", ["--icsv", "--ocsv", "put", "$m=1"],
                      [("su.csv", csv_file(rng, 2, "s"), 0o4755), ("sg.csv", csv_file(rng, 2, "g"), 0o2750), ("st.csv", csv_file(rng, 3, "t"), 0o1644)], ok3))
    S.append(Scenario("success:read-only-files", ["--icsv", "--ojson", "cat"],
                      [("ro.csv", csv_file(rng, 2, "o"), 0o444), ("none.csv", csv_file(rng, 2, "n"), 0o000), ("sx.csv", csv_file(rng, 2, "x"), 0o6711)], ok3))
    return S


def expected_transforms(ctx, sc):
    """transformed bytes per file = stdout of the same command without -I on that file alone (re-compressed for gz/z: taken from
    a clean -I run of that single file and checked to decompress to that stdout)"""
    for (n, content, mode) in sc.files:
        st, out, err = alone(ctx, sc.args, n, content)
        if st != 0:
            continue
        enc = encoding_of(n, sc.args)
        if enc is None:
            sc.transformed[n] = out
        else:
            r = R.run_inplace(ctx, [(n, content, mode)], sc.args)
            b = snap_files(r).get(n, (b"", 0))[0]
            plain = decompress(ctx, enc, b)
            if plain != out:
                ctx.violation({"class": "inplace-recompression", "scenario": sc.name, "file": n, "encoding": enc, "status": r["status"],
                               "what": "after -I a compressed input must be compressed the same way and decompress to what the command prints without -I "
                                       "(zstd: repaired by /repo 4dcee46d7; gzip/zlib: always)",
                               "how": "mlr -I " + " ".join(sc.args) + " " + n, "args": sc.args, "input_hex": content.hex(),
                               "observed_head": b[:80].decode("latin1"), "observed_hex_head": b[:16].hex(), "expected_plain": out[:200].decode("latin1")})
            sc.transformed[n] = b


def run(ctx):
    ctx.cov["rule"] = ("scenarios = (verb chain, 1-3 files with distinct modes 0640/0600/0755/0644/0604, outcome per file): success (csv->json, per-file header/"
                       "head/NR/FNR/FILENAME, begin/end per file, sort, .gz/.z suffix, --gzin/--zin), failure in the MIDDLE file through the error path "
                       "(malformed CSV, CSV schema change in the writer, DSL redirect error), direct-exit DSL failures (asserting_*, UDF return type), refusals "
                       "(bzip2, --prepipe, --prepipex, missing file, URL-looking name); zstd by suffix and --zstdin rewritten compressed; each returned run, plus ptrace fault injection of one failing "
                       "system call (ENOSPC write, EACCES temp create, EIO close, EXDEV rename, EPERM chmod; first and middle file), plus a failure (ENOSPC/EFBIG/EIO) of EVERY write call in turn and RLIMIT_FSIZE limits for gz/zlib/zstd/--gzin/plain inputs of 3 sizes (incl. the writes issued from the compressor's Close()), plus SIGKILL at the entry of "
                       "EVERY file system call of 2-3-file runs (all crash points; subsampled for the multi-chunk output in quick tier). Compared: bytes+mode of "
                       "every file in the directory vs Model.exec / the set of Model.crash_state prefixes, under vm_compute.")
    ctx.cov["trusted_base"] = ["Coq 8.16.1 kernel + vm_compute", "no axioms", "python harness + c19_runner ptrace supervisor (x86_64 syscall-entry stops; "
                               "a kill at syscall entry means the call is not executed)", "the mapping scenario -> outcome per file (decided by the harness from the scenario design)",
                               "POSIX rename is atomic with respect to process crashes (assumed; power-loss durability is out of scope: mlr does not fsync)"]
    ctx.assumptions = ["os.CreateTemp returns a name that does not exist", "a crash is a process kill; the kernel completes or does not start each system call"]
    forbidden_gate(ctx, ["Base", "C19"])
    ok, why = check_props(ctx, "C19/Props.v", ["C19/Harness.vo", "C19/Proofs.vo", "C19/ProofsRun.vo", "C19/Refine.vo"])
    terms, meta, tterms, tmeta = [], [], [], []
    aterms, ameta = [], []
    S = make_scenarios(ctx)
    nviol = 0

    def observe(sc, res, killed, how, inject=None):
        nonlocal nviol
        ctx.count((sc.name, how, str(inject)))
        ctx.dist(("kill:" if killed else "returned:") + sc.name.split(":")[0])
        snap = snap_files(res)
        if res["status"] in ("hang", "harness-error"):
            ctx.violation({"broken": "runner", "scenario": sc.name, "status": res["status"], "stderr": str(res["stderr"])[-500:], "how": how}, found_input=False)
            return
        bad = oracle(ctx, sc, res, killed, how)
        entries, obs = build_plan(sc, snap, killed)
        binary = sum(len(c) for _, c, _ in sc.files if not all((32 <= x < 127) or x == 10 for x in c))
        if binary <= 600:                    # binary contents are costly as Coq literals: larger compressed files are oracle + trace only
            terms.append(coq_case(0 if killed else 1, sc, entries, obs))
            meta.append((sc, res, killed, how, inject, bool(bad)))
        else:
            aterms.append(abs_case(0 if killed else 1, sc, entries, obs))     # contents by identifier / length (Harness.chk_abs)
            ameta.append((sc, res, killed, how, inject, bool(bad)))
            ctx.dist("snapshot-abstract-contents(large binary)")
        tterm, ev = trace_case(sc, res, killed)
        if tterm:
            tterms.append(tterm)
            tmeta.append((sc, res, killed, how, ev, bool(bad)))
            ctx.dist("trace:" + ("killed" if killed else "returned"))
            # bytes handed to the temp file = the transformed bytes, for every file that was renamed over
            for (n, content, mode) in sc.files:
                new = sc.transformed.get(n)
                if not killed and new is not None and snap.get(n, (None,))[0] == new and new != content:
                    tn = next((e[1] for e in ev if e[0] == 4 and e[2] == os.path.normpath(n)), None)
                    wrote = sum(e[3] for e in ev if e[0] == 2 and e[1] == tn)
                    if tn and wrote != len(new):
                        ctx.violation({"class": "inplace-trace-bytes", "scenario": sc.name, "file": n, "written": wrote, "file_length": len(new), "how": how})
        if bad and nviol < 8:
            seen = ctx.cov.setdefault("finding_witnesses", {})
            seen[bad[0][0]] = seen.get(bad[0][0], 0) + 1
            if bad[0][0] == CL_TEMP and seen[bad[0][0]] > 1:
                return                       # same class: one witness is enough
            if bad[0][0] != CL_TEMP:
                nviol += 1                   # the known class does not use up the reporting budget
            report(ctx, sc, res, bad, how, inject)

    with ctx.timed("impl"):
        def returned(sc):
            expected_transforms(ctx, sc)
            return R.trace_run(ctx, sc.files, sc.args, names=sc.names)         # to completion, under the ptrace supervisor (for the trace)
        pre_terms, pre_meta = [], []
        for sc, res in zip(S, pmap(returned, S)):
            observe(sc, res, False, "mlr -I " + " ".join(sc.args) + " " + " ".join(sc.names))
            # the pre-pass: does the model predict exactly when mlr refuses with a "not updatable in place" message?
            pp, fl, nm = pre_pass_inputs(sc.args, sc.names)
            err_txt = res["stderr"] if isinstance(res["stderr"], str) else res["stderr"].decode("latin1")
            refused = 1 if (res["status"] not in (0, "killed") and any(m in err_txt for m in REFUSAL_MESSAGES)) else 0
            pre_terms.append("(%d, %d, [%s], %d)" % (pp, fl, "; ".join(cb(n.encode()) for n in nm), refused))
            pre_meta.append((sc, res, refused))
            ctx.dist("pre-pass:" + ("refused" if refused else "accepted"))
        # ---- fault injection: one failing system call
        rng = ctx.rng
        inj_sc = [s for s in S if s.name in ("success:csv-to-json", "success:gzin-flag")]      # files of one scenario have the same syscall structure
        for sc in inj_sc:
            clean = R.trace_run(ctx, sc.files, sc.args, names=sc.names)
            nf = len(sc.names)
            per = {s: c // nf for s, c in clean["counts"].items()}
            ctx.cov.setdefault("clean_syscall_counts", {})[sc.name] = clean["counts"]
            plans = [("write", "ENOSPC", 1, "StreamFails"), ("openat", "EACCES", 1, "CreateFails"), ("renameat", "EXDEV", 1, "RenameFails"),
                     ("fchmodat", "EPERM", 1, "ChmodFails"), ("close", "EIO", None, "CloseFails")]
            tasks = []
            for which in ([0, 1] if nf > 1 else [0]):
                for s, e, k, oc in plans:
                    if s not in per or per[s] == 0:
                        continue
                    kk = k if k is not None else per[s]          # close: the LAST close of the file's group is the temp file's
                    n = which * per[s] + kk
                    outcomes = ["Succeeds"] * which + [oc] + ["Succeeds"] * (nf - which - 1)
                    sc2 = Scenario("inject:%s-%s-file%d:%s" % (s, e, which, sc.name), sc.args, sc.files, outcomes, names=sc.names)
                    sc2.transformed = sc.transformed
                    tasks.append((sc2, ("error", s, e, n)))
            for (sc2, inj), res in zip(tasks, pmap(lambda t: R.run_inplace(ctx, t[0].files, t[0].args, names=t[0].names, inject=t[1]), tasks)):
                if not res.get("injected"):
                    ctx.dist("inject-did-not-fire")
                    continue
                observe(sc2, res, False, "ptrace: %s #%d returns %s" % (inj[1], inj[3], inj[2]), inj)
        # ---- write failures at every write call, compressed inputs of several sizes (+ RLIMIT_FSIZE)
        compressed_write_failures(ctx, observe)
        # ---- crash points
        crash_sc = [S[0], next(s for s in S if s.name == "success:gz-suffix"), next(s for s in S if s.name == "fail:malformed-input-middle")]
        if ctx.tier == "thorough":
            crash_sc += [S[1], S[2]]
        for sc in crash_sc:
            pts = R.enumerate_crash_points(ctx, sc.files, sc.args, names=sc.names, max_points=(10 if ctx.tier == "quick" and sc is not S[0] else None), rng=rng,
                                           workers=JOBS)
            for p in pts:
                res = p["result"]
                if not res.get("injected"):
                    ctx.dist("kill-did-not-fire")
                    continue
                observe(sc, res, True, "ptrace: SIGKILL at entry of %s #%d" % (p["syscall"], p["n"]), ("kill", p["syscall"], p["n"]))
        # multi-chunk output: many write() calls into the temp file, kill at a sample of them (oracle only: contents too large for Coq terms)
        big = [("big.csv", csv_file(rng, 1500 if ctx.tier == "quick" else 20000, "w"), 0o640)]
        scb = Scenario("success:multi-chunk", ["--icsv", "--ojson", "cat"], big, ["Succeeds"])
        expected_transforms(ctx, scb)
        # kill points: the write / rename / close calls of a clean run; the killed runs are traced in full (stat, create, ...) for the acceptor
        clean_b = R.trace_run(ctx, scb.files, scb.args, syscalls=["write", "renameat", "close"])
        for p in R.enumerate_crash_points(ctx, scb.files, scb.args, max_points=8 if ctx.tier == "quick" else 80, rng=rng, workers=JOBS, clean=clean_b):
            res = p["result"]
            ctx.count(("big", p["syscall"], p["n"]))
            ctx.dist("kill:multi-chunk")
            if res.get("injected"):
                bad = oracle(ctx, scb, res, True, "")
                # the model on abstract contents (many write calls): the snapshot must be a state of the op sequence, the trace a prefix of it
                how_b = "ptrace: SIGKILL at entry of %s #%d" % (p["syscall"], p["n"])
                entries_b, obs_b = build_plan(scb, snap_files(res), True)
                aterms.append(abs_case(0, scb, entries_b, obs_b))
                ameta.append((scb, res, True, how_b, ("kill", p["syscall"], p["n"]), bool(bad)))
                tterm_b, ev_b = trace_case(scb, res, True)
                if tterm_b:
                    tterms.append(tterm_b)
                    tmeta.append((scb, res, True, how_b, ev_b, bool(bad)))
                    ctx.dist("trace:killed(multi-chunk)")
                t = [b for n, (b, m) in snap_files(res).items() if is_temp(n)]
                if t and not scb.transformed["big.csv"].startswith(t[0]):
                    bad.append(("inplace-temp-not-prefix", "temp file content is not a prefix of the output"))
                if bad and nviol < 8:
                    nviol += 1
                    report(ctx, scb, res, bad, "ptrace: SIGKILL at entry of %s #%d" % (p["syscall"], p["n"]), ("kill", p["syscall"], p["n"]))
    for i in (0, len(meta) // 2, len(meta) - 1):
        sc, res, killed, how, inject, _ = meta[i]
        ctx.sample({"scenario": sc.name, "how": how, "status": res["status"], "files_after": {n: [len(b), oct(m)] for n, (b, m) in snap_files(res).items()}})
    if not ok:
        ctx.violation({"broken": why}, found_input=False)
        return
    with ctx.timed("coq_cases"):
        bad, err = coq_eval_mismatches(ctx, "C19", "C19.Model C19.Harness",
                                       "Z * list (bytes * bytes * Z * Z * list bytes) * list (bytes * bytes * Z) * list (bytes * option (bytes * Z))", "chk", terms, shard=len(terms) // JOBS + 1)
        bad_t, err_t = coq_eval_mismatches(ctx, "C19trace", "C19.Model C19.Harness", "Z * list (bytes * bytes * Z * Z * list Z) * list tev", "chk_trace",
                                           tterms, shard=len(tterms) // JOBS + 1)
        bad_p, err_p = coq_eval_mismatches(ctx, "C19pre", "C19.Model C19.Harness", "Z * Z * list bytes * Z", "chk_pre", pre_terms)
        bad_a, err_a = coq_eval_mismatches(ctx, "C19abs", "C19.Model C19.Harness", ABS_TY, "chk_abs", aterms, shard=len(aterms) // JOBS + 1) if aterms else ([], "")
    ctx.cov["correspondence_abstract_contents"] = {"cases": len(aterms), "mismatches": len(bad_a)}
    ctx.cov["correspondence"] = {"cases": len(terms), "mismatches": len(bad), "trace_cases": len(tterms), "trace_mismatches": len(bad_t),
                                 "pre_pass_cases": len(pre_terms), "pre_pass_mismatches": len(bad_p)}
    err = err + err_t + err_p + err_a
    for i in [j for j in bad_a if j >= 0][:4]:
        sc, res, killed, how, inject, had = ameta[i]
        if not had:
            ctx.violation({"broken": "correspondence C19.Harness.chk_abs (directory snapshot, contents by identifier/length, is not a model state)", "scenario": sc.name,
                           "how": how, "status": res["status"], "observed": {n: [len(b), oct(m)] for n, (b, m) in snap_files(res).items()}}, found_input=False)
    for i in bad_p[:4]:
        sc, res, refused = pre_meta[i]
        ctx.violation({"broken": "correspondence C19.Harness.chk_pre (Model.inplace_ops' pre-pass and mlr disagree on whether the command is refused as not updatable in place)",
                       "scenario": sc.name, "args": sc.args, "names": sc.names, "mlr_refused": bool(refused), "status": res["status"],
                       "stderr": str(res["stderr"])[-300:]}, found_input=False)
    for i in bad_t[:4]:
        sc, res, killed, how, ev, had = tmeta[i]
        if not had:
            ctx.violation({"broken": "correspondence C19.Harness.chk_trace (the traced file-system calls are not the model's op sequence)", "scenario": sc.name,
                           "how": how, "outcomes": sc.outcomes, "status": res["status"], "projected_trace": [list(e) for e in ev][:60]}, found_input=False)
    if err:
        ctx.violation({"broken": "correspondence-evaluation", "detail": err[-2000:]}, found_input=False)
        return
    for i in bad[:6]:
        sc, res, killed, how, inject, had_oracle_violation = meta[i]
        if had_oracle_violation:
            continue      # the oracle reported the concrete input already (model and implementation differ BECAUSE the property fails)
        ctx.violation({"broken": "correspondence C19.Harness.chk (directory snapshot is not a model state)", "scenario": sc.name, "how": how,
                       "status": res["status"], "observed": {n: [len(b), oct(m), b[:60].decode("latin1")] for n, (b, m) in snap_files(res).items()}}, found_input=False)


def replay(ctx, path):
    obj = json.loads(Path(path).read_text())
    if obj.get("class") in ("inplace-recompression", "inplace-zstd-rewritten-uncompressed"):
        content = bytes.fromhex(obj["input_hex"])
        name = obj.get("file", "k.zst")
        sc = Scenario(obj.get("scenario", "replay"), obj.get("args", ["put", "$z=3"]), [(name, content, 0o640)], ["Succeeds"])
        expected_transforms(ctx, sc)          # reports again if the result is still not a compressed form of the expected text
        ctx.count(("replay", path))
        print("replay: mlr -I %s %s -> %s" % (" ".join(sc.args), name, "still fails" if ctx.violations else "rewritten compressed"))
        return
    if "files" not in obj:
        print("replay: nothing replayable in", path)
        return
    files = [(n, bytes.fromhex(h), m) for n, h, m in obj["files"]]
    sc = Scenario(obj["scenario"], obj["args"], files, obj["outcomes"], names=obj["names"])
    expected_transforms(ctx, sc)
    inj = tuple(obj["inject"]) if obj.get("inject") else None
    res = R.run_inplace(ctx, files, obj["args"], names=obj["names"], inject=inj)
    killed = bool(inj and inj[0] == "kill")
    ctx.count(("replay", path))
    bad = oracle(ctx, sc, res, killed, "replay")
    print("replay: %s status=%s -> %s" % (obj["scenario"], res["status"], bad[:2] if bad else "property holds"))
    if bad:
        report(ctx, sc, res, bad, obj.get("how", "replay"), inj)
