"""C17 — failures are never silent (DESIGN 3/C17).  Theorems live in coq/C04/Errors.v (same transition system)."""
import gzip, json, os, shutil, tempfile
from vlib import *
from checks.c04 import trace_term


def recs(n, bad_at=None, kind="dkvp"):
    return "".join(f"a=k{i % 3},x={i}\n" for i in range(1, n + 1)).encode()


def csv_doc(n, bad_at=None, how="short"):
    lines = ["a,b,c"]
    for i in range(1, n + 1):
        if i == bad_at:
            lines.append({"short": f"{i},only-two", "long": f"{i},x,y,z-extra", "quote": f'{i},"unterminated,z'}[how])
        else:
            lines.append(f"{i},v{i},w{i}")
    return ("\n".join(lines) + "\n").encode()


def tsv_doc(n, bad_at):
    lines = ["a\tb\tc"]
    for i in range(1, n + 1):
        lines.append(f"{i}\tonly-two" if i == bad_at else f"{i}\tv{i}\tw{i}")
    return ("\n".join(lines) + "\n").encode()


def json_doc(n, bad_at):
    parts = []
    for i in range(1, n + 1):
        parts.append('{"a": %d, "b": }' % i if i == bad_at else '{"a": %d, "b": "v%d"}' % (i, i))
    return ("[\n" + ",\n".join(parts) + "\n]\n").encode()


def run_special(ctx, argv, stdin, mode, env, timeout):
    """stdout of the child is /dev/full ("devfull") or a pipe whose read end is closed after the first line
    ("closed": default SIGPIPE disposition, "closed-ign": SIGPIPE ignored in the child before exec).
    Returns (status, first bytes of stdout, stderr); status is negative when killed by a signal."""
    import resource, signal, subprocess

    def pre():
        resource.setrlimit(resource.RLIMIT_AS, (8 << 30, 8 << 30))
        signal.signal(signal.SIGPIPE, signal.SIG_IGN if mode == "closed-ign" else signal.SIG_DFL)
    e = dict(os.environ); e["MLRRC"] = "__none__"; e.update(env or {})
    try:
        with tempfile.TemporaryFile() as fe, tempfile.TemporaryFile() as fi:
            fi.write(stdin); fi.seek(0)
            if mode == "devfull":
                with open("/dev/full", "wb") as fo:
                    p = subprocess.Popen([ctx.mlr()] + list(argv), stdin=fi, stdout=fo, stderr=fe, env=e, preexec_fn=pre)
                first = b""
            else:
                r, w = os.pipe()
                p = subprocess.Popen([ctx.mlr()] + list(argv), stdin=fi, stdout=w, stderr=fe, env=e, preexec_fn=pre)
                os.close(w)
                with os.fdopen(r, "rb") as f:
                    first = f.readline()
            try:
                p.wait(timeout=timeout); st = p.returncode
            except subprocess.TimeoutExpired:
                p.kill(); p.wait(); st = "hang"
            fe.seek(0)
            return st, first, fe.read(1_000_000)
    except Exception as ex:  # pragma: no cover
        return "harness-error", b"", repr(ex).encode()


def stdout_fault_plans(ctx, d):
    """faults on standard output itself and on pipes; tuples carry a 6th element: the stdout mode"""
    thorough = ctx.tier != "quick"
    plans = []
    # a. stdout is /dev/full: below one bufio buffer (the error surfaces only at Stream's final Flush), around the
    #    4096-byte buffer, around 64 KiB, and large; flush-per-record and batch size 1
    sizes = [1, 5, 250, 330, 4000] + ([5500, 40000] if thorough else [])
    combos = []
    for fmt in ("dkvp", "json", "csv", "pprint", "xtab") + (("nidx", "tsv", "markdown", "jsonl") if thorough else ()):
        for n in sizes:
            for extra in ([], ["--fflush"], ["--records-per-batch", "1"], ["--records-per-batch", "500", "--ofmt", "%.4f"]):
                if n > 5000 and "1" in extra:
                    continue
                combos.append((fmt, n, extra))
    if not thorough:
        core = [c for c in combos if c[1] in (1, 330) and c[2] == []]
        rest = [c for c in combos if c not in core]
        ctx.rng.shuffle(rest)
        combos = core + rest[:14]
    for fmt, n, extra in combos:
        plans.append((f"stdout-dev-full:{fmt}:n{n}:{'+'.join(extra) or 'plain'}", "stdout-write-failure", ["--o" + fmt] + extra + ["put", "$y = $x * 1.5"],
                      recs(n), "fail", "devfull"))
    for k, (argv, inp) in enumerate([(["-n", "put", 'end{print "x"}'], b""), (["-n", "put", 'end{emit {"a":1}}'], b""), (["-n", "put", 'end{dump {"a":1}}'], b""),
                                     (["put", "-q", "print $a"], recs(10)), (["put", "-q", "tee > stdout, $*"], recs(10)), (["put", "-q", "emit > stdout, $*"], recs(10)),
                                     (["head", "-n", "1"], recs(4000)), (["seqgen", "--stop", "10"], b""), (["--icsv", "--opprint", "cat"], b"a,b\n1,2\n"),
                                     (["tac"], recs(3)), (["--ojson", "count"], recs(3))]):
        plans.append((f"stdout-dev-full-misc#{k}", "stdout-write-failure", argv, inp, "fail", "devfull"))
    # b. the consumer of stdout goes away after the first line (`mlr ... | head -1`): the process must not report success
    big = recs(60000)
    for fmt, extra, mode in [("dkvp", [], "closed"), ("json", [], "closed-ign")] + ([("csv", ["--records-per-batch", "1"], "closed"), ("pprint", [], "closed"),
                                                                                    ("dkvp", ["--fflush"], "closed-ign"), ("xtab", [], "closed-ign")] if thorough else []):
        plans.append((f"stdout-closed-early:{fmt}:{mode}:{'+'.join(extra) or 'plain'}", "stdout-closed-early", ["--o" + fmt] + extra + ["cat"], big, "fail-or-signal", mode))
    # c. redirected targets that cannot be opened, the failing statement reached first at record 1 / middle / last / in the end block
    N = 40
    red = []
    for stmt in ('print > "/nonexistent-dir/x", $a', 'tee > "/nonexistent-dir/x", $*', 'emit > "/nonexistent-dir/x", $*', 'dump > "/nonexistent-dir/x", $*',
                 'print >> "/nonexistent-dir/x", $a', 'printn > "/nonexistent-dir/" . $a, $x'):
        for pos in (1, N // 2, N):
            for b in ("1", "3", "500"):
                red.append((f"redirect-open-failure@{pos}/b{b}:{stmt.split()[0]}{stmt.split()[1]}", "write-failure:redirect-open", ["--records-per-batch", b, "put", "-q", "if (NR==%d) {%s}" % (pos, stmt)], recs(N), "fail", None))
    for stmt in ('print > "/nonexistent-dir/x", "e"', 'emit > "/nonexistent-dir/x", {"a":1}', 'dump > "/nonexistent-dir/x", {"a":1}', 'emit > "/dev/full", {"a":1}', 'print > "/dev/full", "e"'):
        red.append((f"redirect-failure-in-end-block:{stmt.split()[0]}:{stmt.split()[2]}", "write-failure:redirect-open", ["put", "-q", "end {%s}" % stmt], recs(N), "fail", None))
    for b in ("1", "500"):
        red.append((f"tee-append-nonexistent-dir/b{b}", "write-failure:tee", ["--records-per-batch", b, "tee", "-a", "/nonexistent-dir/x"], recs(N), "fail", None))
        red.append((f"split-n-nonexistent-dir/b{b}", "write-failure:split", ["--records-per-batch", b, "split", "-n", "2", "--prefix", "/nonexistent-dir/p"], recs(N), "fail", None))
        red.append((f"tee-dev-full-small/b{b}", "write-failure:tee", ["--records-per-batch", b, "--ojson", "tee", "/dev/full"], recs(5), "fail", None))
    if not thorough:
        fixed = [p for p in red if "@" not in p[0]]
        posd = [p for p in red if "@" in p[0]]
        ctx.rng.shuffle(posd)
        red = fixed + posd[:12]
    plans += red
    # d. pipes whose consumer exits without reading: more than the 64 KiB pipe capacity is written, so the writes must
    #    fail (EPIPE); the run has to end, non-zero, with a diagnostic.  (A consumer that reads everything and then exits
    #    non-zero is NOT a failed write and is not demanded; see c17.findings.md.)
    bigp = recs(30000)
    pipes = [("print", ["put", "-q", 'print | "false", $*'])]
    if thorough:
        pipes += [("tee-redirect", ["put", "-q", 'tee | "false", $*']), ("emit-redirect", ["put", "-q", 'emit | "false", $*']),
                  ("dump-redirect", ["put", "-q", 'dump | "false", $*']), ("tee-verb", ["tee", "-p", "false"]), ("print-exit3", ["put", "-q", 'print | "exit 3", $*'])]
    for nm, argv in pipes:
        plans.append((f"pipe-consumer-exits:{nm}", "pipe-consumer-exits", argv, bigp, "fail", None))
    return plans


def secondary_input_plans(ctx, d):
    """Faults in SECONDARY inputs: the left file of join (-f), in every join mode (unsorted default, -s sorted/doubly
    streaming, with and without --ul/--ur/--np, --prepipe/--gzin on the left), the fault at any position of the left file:
    missing / unreadable, malformed row early, in the middle, or far beyond the last key the right-hand input pairs with;
    right-hand input with many, few or no records.  Expected: non-zero exit and a diagnostic."""
    rng = ctx.rng
    plans = []
    nleft = 40

    def left_csv(bad_at):
        rows = ["id,v"]
        for i in range(1, nleft + 1):
            rows.append("%02d,%d" % (i, 7 * i) + (",extra,fields" if i == bad_at else ""))
        return ("\n".join(rows) + "\n").encode()
    rights = {"few": b"id,w\n" + b"".join(b"%02d,%d\n" % (i, i) for i in range(1, 4)),
              "many": b"id,w\n" + b"".join(b"%02d,%d\n" % (i, i) for i in range(1, nleft + 1)),
              "header-only": b"id,w\n", "empty": b""}
    modes = [("unsorted", []), ("sorted", ["-s"]), ("sorted-ul", ["-s", "--ul"]), ("sorted-np-ur", ["-s", "--np", "--ur"]), ("unsorted-np-ul", ["--np", "--ul"])]
    k = 0
    for bad_at in (2, nleft // 2, nleft - 1, nleft):
        f = os.path.join(d, "left.bad%d.csv" % bad_at)
        open(f, "wb").write(left_csv(bad_at))
        for mname, mflags in modes:
            for rname, rdata in rights.items():
                for b in ("1", "500"):
                    k += 1
                    plans.append((f"join-left-malformed@{bad_at}:{mname}:right-{rname}/b{b}", "secondary-input:join-left-malformed",
                                  ["--icsv", "--ojsonl", "--records-per-batch", b, "join"] + mflags + ["-j", "id", "-f", f], rdata, "fail"))
    for mname, mflags in modes:
        for rname, rdata in rights.items():
            plans.append((f"join-left-missing:{mname}:right-{rname}", "secondary-input:join-left-missing",
                          ["--icsv", "--ojsonl", "join"] + mflags + ["-j", "id", "-f", os.path.join(d, "no-such-left.csv")], rdata, "fail"))
            plans.append((f"join-left-is-directory:{mname}:right-{rname}", "secondary-input:join-left-unreadable",
                          ["--icsv", "--ojsonl", "join"] + mflags + ["-j", "id", "-f", d], rdata, "fail"))
    gz = os.path.join(d, "left.trunc.csv.gz")
    open(gz, "wb").write(gzip.compress(left_csv(None) * 50)[:-40])
    for mname, mflags in modes:
        plans.append((f"join-left-truncated-gz:{mname}", "secondary-input:join-left-truncated-gz",
                      ["--icsv", "--ojsonl", "join"] + mflags + ["--prepipe", "gunzip <", "-j", "id", "-f", gz], rights["few"], "fail"))
    if ctx.tier == "quick":
        core = [p for p in plans if ":sorted:" in p[0] and ("right-few" in p[0] or "right-empty" in p[0] or "gz" in p[0])]
        rest = [p for p in plans if p not in core]
        rng.shuffle(rest)
        plans = core[:14] + rest[:10]
    return plans


def fanout_oracle(ctx, d):
    """exit 0 => every record reached its destination, for fan-out BEYOND the handler-cache capacity (more than 256
    files open per manager: handlers are suspended, evicted and re-opened): split -g and put/tee redirects on keys that
    come back after eviction, for output formats with and without closing text / retained records.  Each destination
    file is read back: the records of all files together must be exactly the input records, and every file must be
    complete in its format (JSON parses; CSV has its header)."""
    nkeys = 300 if ctx.tier == "quick" else 700
    inp = "".join("k=%d,i=%d\n" % (k, p * nkeys + k) for p in range(2) for k in range(1, nkeys + 1)).encode()
    total = 2 * nkeys
    cases = [("split-json", ["--ojson", "split", "-g", "k", "--prefix", "{dir}/s"], "json"),
             ("split-csv", ["--ocsv", "split", "-g", "k", "--prefix", "{dir}/s"], "csv"),
             ("tee-redirect-json", ["--ojson", "put", "-q", 'tee > "{dir}/t".$k.".json", $*'], "json"),
             ("print-redirect", ["put", "-q", 'print > "{dir}/p".$k.".txt", $i'], "lines"),
             ("split-pprint", ["--opprint", "split", "-g", "k", "--prefix", "{dir}/s"], "pprint")]
    if ctx.tier == "quick":
        cases = cases[:2] + [ctx.rng.choice(cases[2:])]
    for name, argv, fmt in cases:
        dd = os.path.join(d, "fan." + name)
        os.makedirs(dd, exist_ok=True)
        argv = [a.replace("{dir}", dd) for a in argv]
        st, out, err = mlr_run(ctx, argv, inp, timeout=120)
        if st == "hang":
            st, out, err = mlr_run(ctx, argv, inp, timeout=600)
        ctx.count(("fanout", name)); ctx.dist("fanout")
        if st != 0:
            if st == "hang" or classify_run(st, err) == "panic" or not err.strip():
                ctx.violation({"class": "fanout:" + name, "what": "fan-out run hangs, panics or fails silently", "status": st, "argv": argv, "stderr_tail": err[-300:].decode("latin1")})
            continue    # a diagnosed failure (e.g. too many open files) is not demanded to succeed
        got, incomplete = 0, []
        for fn in sorted(os.listdir(dd)):
            data = open(os.path.join(dd, fn), "rb").read()
            if fmt == "json":
                try:
                    got += len(json.loads(data.decode()))
                except Exception:
                    incomplete.append(fn)
            elif fmt == "csv":
                lines = data.decode().splitlines()
                if not lines or lines[0] != "k,i":
                    incomplete.append(fn)
                got += max(len(lines) - 1, 0)
            elif fmt == "pprint":
                lines = [l for l in data.decode().splitlines() if l.strip()]
                got += max(len(lines) - 1, 0)
            else:
                got += len(data.decode().splitlines())
        if got != total or incomplete:
            ctx.violation({"class": "fanout-lost-output:" + name, "what": "exit 0 but the destination files hold %d of %d records; incomplete files: %s" % (got, total, incomplete[:5]),
                           "input": "k=1..%d twice (keys come back after their handler was evicted), i = running number" % nkeys, "argv": argv,
                           "observed": {"status": st, "records_in_files": got, "files": len(os.listdir(dd)), "incomplete": incomplete[:10]},
                           "expected": "every input record in exactly one destination file, every file complete in its format",
                           "how": "mlr %s  on %d DKVP records k=<1..%d>,i=<n> (two passes over the keys)" % (" ".join(argv), total, nkeys)})


def fault_plans(ctx, d):
    """yield (name, class, argv, stdin, expect) ; expect = 'fail' (non-zero + diagnostic) or ('ok', nlines)"""
    N = 40
    plans = []
    good = os.path.join(d, "good.dkvp"); open(good, "wb").write(recs(N))
    empty = os.path.join(d, "empty.dkvp"); open(empty, "wb").write(b"")
    sub = os.path.join(d, "adir"); os.makedirs(sub, exist_ok=True)
    gz = os.path.join(d, "trunc.gz"); full = gzip.compress(recs(4000)); open(gz, "wb").write(full[: len(full) // 2])
    positions = [1, 2, 3, N // 2, N - 1, N]
    batches = ["1", "2", "3", "500"]
    # 1. missing / unreadable inputs
    for fmt in ("dkvp", "csv", "json", "tsv", "nidx", "xtab"):
        for files in (["/nonexistent/file"], [good, "/nonexistent/file"], ["/nonexistent/file", good], [good, "/nonexistent/file", good]):
            if fmt != "dkvp" and files[0] == good or (len(files) > 1 and fmt != "dkvp"):
                continue
            plans.append((f"missing-file:{fmt}:{len(files)}", "missing-input-file", [f"--i{fmt}", "--ojson", "cat"] + files, b"", "fail"))
        plans.append((f"directory-as-input:{fmt}", "directory-as-input:" + fmt, [f"--i{fmt}", "--ojson", "cat", sub], b"", "fail"))
    for fmt in ("dkvp", "nidx", "csv", "tsv", "json"):
        plans.append((f"truncated-gzip:{fmt}", "truncated-gzip:" + fmt, [f"--i{fmt}", "--ojson", "--gzin", "cat", gz], b"", "fail"))
        plans.append((f"truncated-gzip-by-extension:{fmt}", "truncated-gzip:" + fmt, [f"--i{fmt}", "--ojson", "cat", gz], b"", "fail"))
    # 2. malformed input at position p
    for p in positions:
        for b in batches:
            for how in ("short", "long", "quote"):
                plans.append((f"csv-malformed-{how}@{p}/b{b}", "malformed-csv", ["--icsv", "--ojson", "--records-per-batch", b, "cat"], csv_doc(N, p, how), "fail"))
            plans.append((f"tsv-malformed@{p}/b{b}", "malformed-tsv", ["--itsv", "--ojson", "--records-per-batch", b, "cat"], tsv_doc(N, p), "fail"))
            plans.append((f"json-malformed@{p}/b{b}", "malformed-json", ["--ijson", "--ojson", "--records-per-batch", b, "cat"], json_doc(N, p), "fail"))
    # 3. DSL run-time failures at NR = p, failing verb first / middle / last in the chain
    dsl = {
        "type-gate": 'if (NR==%d) { int i = "abc" }',
        "func-type": 'func f(str s): int { return s } if (NR==%d) { $y = f("q") }',
    }
    for p in positions:
        for b in batches:
            for nm, prog in dsl.items():
                put = ["put", prog % p]
                for where, chain in (("first", put + ["then", "cat", "then", "tac"]), ("middle", ["cat", "then"] + put + ["then", "sort", "-f", "a"]),
                                     ("last", ["cat", "-n", "then", "tac", "then"] + put)):
                    plans.append((f"dsl-{nm}@{p}/b{b}/{where}", "dsl-runtime-error", ["--records-per-batch", b] + chain, recs(N), "fail"))
            plans.append((f"filter-verb-nonbool@{p}/b{b}", "dsl-runtime-error", ["--records-per-batch", b, "filter", 'NR==%d ? "abc" : true' % p], recs(N), "fail"))
    plans.append(("dsl-end-block-failure", "dsl-runtime-error", ["put", '-q', 'end { int i = "abc" }'], recs(N), "fail"))
    plans.append(("dsl-begin-block-failure", "dsl-runtime-error", ["put", 'begin { int i = "abc" }'], recs(N), "fail"))
    # 4. output not expressible: CSV/TSV schema change mid-stream (unset a field from record p on)
    for p in [2, 3, N // 2, N]:
        for b in batches:
            for ofmt in ("csv", "tsv"):
                plans.append((f"{ofmt}-schema-change@{p}/b{b}", "unexpressible-output", ["--records-per-batch", b, f"--o{ofmt}", "put", "if (NR>=%d) {$new=1; unset $x}" % p], recs(N), "fail-or-csvlite"))
    # 5. write failures
    for b in ("1", "500"):
        plans.append((f"tee-dev-full/b{b}", "write-failure:tee", ["--records-per-batch", b, "tee", "/dev/full"], recs(4000), "fail"))
        plans.append((f"tee-nonexistent-dir/b{b}", "write-failure:tee", ["--records-per-batch", b, "tee", "/nonexistent-dir/x"], recs(N), "fail"))
        plans.append((f"split-nonexistent-dir/b{b}", "write-failure:split", ["--records-per-batch", b, "split", "-g", "a", "--prefix", "/nonexistent-dir/p"], recs(N), "fail"))
        plans.append((f"print-redirect-dev-full/b{b}", "write-failure:print-redirect", ["--records-per-batch", b, "put", "-q", 'print > "/dev/full", $a'], recs(4000), "fail"))
        plans.append((f"tee-redirect-dev-full/b{b}", "write-failure:tee-redirect", ["--records-per-batch", b, "put", "-q", 'tee > "/dev/full", $*'], recs(4000), "fail"))
        plans.append((f"emit-redirect-dev-full/b{b}", "write-failure:emit-redirect", ["--records-per-batch", b, "put", "-q", '@s=$x; emit > "/dev/full", @s'], recs(4000), "fail"))
        plans.append((f"dump-redirect-dev-full/b{b}", "write-failure:dump-redirect", ["--records-per-batch", b, "put", "-q", '@s[NR]=$x; end{dump > "/dev/full"}'], recs(4000), "fail"))
        plans.append((f"print-redirect-nonexistent-dir/b{b}", "write-failure:print-redirect", ["--records-per-batch", b, "put", "-q", 'print > "/nonexistent-dir/x", $a'], recs(N), "fail"))
    # 7. a prepipe command that fails
    for cmd in ("false", "exit 3", "cat /nonexistent-file-xyz <", "head -c 20; exit 2 #"):
        plans.append((f"prepipe-fails:{cmd}", "prepipe-command-fails", ["--prepipe", cmd, "cat", good], b"", "fail"))
    plans.append(("prepipex-fails", "prepipe-command-fails", ["--prepipex", "false", "cat", good], b"", "fail"))
    plans.append(("prepipe-ok-control", "control", ["--prepipe", "cat", "cat", good], b"", ("ok", N)))
    # 8. fan-out file targets whose writer fails (schema change under CSV), repeated: the error must survive the handler's close
    hetero = b"a=1,b=2\na=3,b=4\nc=5\na=6,b=7\na=8,b=9\na=10,b=11\na=12,b=13\n"
    for rep in range(10):
        plans.append((f"tee-file-writer-error#{rep}", "fanout-writer-error", ["--ocsv", "tee", os.path.join(d, f"t{rep}.csv")], hetero, "fail"))
        plans.append((f"redirect-tee-writer-error#{rep}", "fanout-writer-error", ["--ocsv", "put", "-q", 'tee > "%s", $*' % os.path.join(d, f"rt{rep}.csv")], hetero, "fail"))
    plans.append(("split-writer-error", "fanout-writer-error", ["--ocsv", "split", "-m", "1", "--prefix", os.path.join(d, "sp")], hetero, "fail"))
    # 9. several redirected outputs, one of which fails only at the end-of-stream flush, in every position
    okf = os.path.join(d, "ok%d.txt")
    small = recs(5)
    for k, prog in enumerate([
            'print > "/dev/full", $a; print > "%s", $x' % (okf % 1),
            'print > "%s", $x; print > "/dev/full", $a' % (okf % 2),
            'tee > "/dev/full", $*; print > "%s", $x' % (okf % 3),
            'print > "%s", $x; tee > "/dev/full", $*; print > "%s", $a' % (okf % 4, okf % 5),
            '@s[NR]=$x; emit > "/dev/full", @s; print > "%s", $a' % (okf % 6),
            'print > "%s", $a; @s[NR]=$x; end{dump > "/dev/full"; print > "%s", "done"}' % (okf % 7, okf % 8)]):
        plans.append((f"multi-redirect-flush-failure#{k}", "write-failure:multi-redirect", ["put", "-q", prog], small, "fail"))
    # 6. fault-free controls: exit 0 and complete output
    for b in batches:
        plans.append((f"control-cat/b{b}", "control", ["--records-per-batch", b, "cat"], recs(N), ("ok", N)))
        plans.append((f"control-empty-file/b{b}", "control", ["--records-per-batch", b, "cat", empty, good], b"", ("ok", N)))
    return plans


def run(ctx):
    ctx.cov["rule"] = ("fault plans: missing/unreadable/directory/truncated-gzip inputs per reader; malformed CSV/TSV/JSON at record positions {1,2,3,N/2,N-1,N} x batch sizes {1,2,3,500}; "
                       "DSL run-time failures (type gate, non-boolean filter, function return type) at those positions with the failing verb first/middle/last in the chain, begin/end block; "
                       "CSV/TSV schema change mid-stream; write failures on tee/split/redirected print/tee/emit/dump (/dev/full, non-existent directory); fault-free controls. "
                       "Each plan also under seeded schedule perturbation. Expected: non-zero exit and an mlr diagnostic on stderr; exit 0 => complete output. "
                       "Traces of failing runs are validated in Coq against the model's automata. A case is non-trivial when (plan, seed) is distinct.")
    ctx.cov["trusted_base"] = ["Coq 8.16.1 kernel + vm_compute", "no axioms", "hand-written transition system (coq/C04/Model.v) incl. the error protocol: error posted (non-blocking) before the end-of-stream marker is forwarded; writer posts before done; main's final drains",
                               "VerifPoint hooks + trace parser"]
    ctx.assumptions = ["OS-level faults are injected from outside (files, /dev/full); stdout-to-/dev/full is exercised through redirected outputs only",
                       "flush/close errors of redirected outputs at end of stream are modelled as verb failures"]
    # the table of process-exit sites, regenerated from the tree under check; the theorems of C17/ExitSites.v are computed over it
    from checks import c17_exitsites
    ex_sites, rq_sites, us_sites = c17_exitsites.scan(str(REPO))
    write_if_changed(GEN / "Gen_ExitSites.v", c17_exitsites.render(ex_sites, rq_sites, us_sites))
    ctx.cov["exit_sites"] = {"os_exit": len(ex_sites), "exit_request": len(rq_sites), "usage_printed": len(us_sites)}
    silent = [r for r in ex_sites + rq_sites if isinstance(r["code"], int) and r["code"] != 0 and not r["stderr_before"] and r["guard"] != "GUsagePrinted"]
    silent += [r for r in us_sites if not r["stderr_before"]]
    for r in silent:
        # a site that ends the process with a non-zero status without having written to stderr
        rep = {"class": "exit-site-without-stderr-diagnostic:%s:%s" % (r["file"], r["func"]), "site": r,
               "what": "non-zero exit (or exit sentinel) with no write to os.Stderr before it in the same block"}
        if r["file"].endswith("put_or_filter.go") and r["func"] == "NewTransformerPut":
            st, out, err = mlr_run(ctx, ["-n", "put", "-W", "$y = x"], b"", timeout=60)
            rep.update({"input": "mlr -n put -W '$y = x'", "observed": {"status": st, "stdout": out.decode("latin1"), "stderr": err.decode("latin1")},
                        "expected": "exit 1 with the reason for exiting on stderr and nothing on stdout"})
            if st == 1 and b"Exiting due to warnings" in out:
                ctx.violation(rep)
                continue
        ctx.violation(rep, found_input=False)
    forbidden_gate(ctx, ["C04", "C17"])
    ok, why = check_props(ctx, "C17/Props.v", ["C04/Errors.vo", "C04/Harness.vo"])
    d = tempfile.mkdtemp(prefix="c17.", dir=str(CACHE))
    traces, tmeta = [], []
    found = False
    harness_errs = 0
    try:
        plans = fault_plans(ctx, d)
        if ctx.tier == "quick":
            keep = [p for p in plans if "@" not in p[0]]
            pos = [p for p in plans if "@" in p[0]]
            ctx.rng.shuffle(pos)
            plans = keep + pos[:260]
        plans = [tuple(p) + (None,) for p in plans] + [tuple(p) + (None,) for p in secondary_input_plans(ctx, d)] + stdout_fault_plans(ctx, d)
        only = os.environ.get("VERIF_C17_ONLY")
        if only:   # debugging aid: run the plans whose name contains the given substring
            plans = [p for p in plans if only in p[0]]
        from concurrent.futures import ThreadPoolExecutor
        pool = ThreadPoolExecutor(max_workers=8)

        def one(i, plan):
            name, cls, argv, stdin, expect, mode = plan
            env = {}
            sched = None
            if i % 2 == 1:
                sched = 1000 + i
                env["MLR_VERIF_SCHED"] = str(sched)
            tf = None
            if i % 4 == 0 and not mode and cls != "pipe-consumer-exits":   # runs killed by a signal or hung leave truncated traces
                tf = os.path.join(d, "trace.%d" % i)
                env["MLR_VERIF_TRACE"] = tf
            if mode:
                st, out, err = run_special(ctx, argv, stdin, mode, env, 60)
                if st == "hang":
                    env.pop("MLR_VERIF_TRACE", None)
                    st, out, err = run_special(ctx, argv, stdin, mode, env, 300)
                    tf = None
            else:
                st, out, err = mlr_run(ctx, argv, stdin, timeout=30, env=env)
                if st == "hang":
                    env.pop("MLR_VERIF_TRACE", None)
                    st, out, err = mlr_run(ctx, argv, stdin, timeout=150, env=env, max_out=20_000_000)
                    tf = None
            tr = None
            if tf and os.path.exists(tf):
                tr = open(tf).read(); os.unlink(tf)
            return st, out, err, tr, sched
        futs = [pool.submit(one, i, p) for i, p in enumerate(plans)]
        for i, plan in enumerate(plans):
            name, cls, argv, stdin, expect, mode = plan
            st, out, err, tr, sched = futs[i].result()
            if st == "harness-error":   # the binary could not be started (e.g. build cache evicted mid-run): not an observation of mlr
                if not harness_errs:
                    ctx.violation({"broken": "harness-error: could not run the binary", "plan": name, "detail": err[-300:].decode("latin1")}, found_input=False)
                harness_errs += 1
                continue
            ctx.count((name, sched)); ctx.dist(cls.split(":")[0])
            kind = classify_run(st, err)
            if i < 3 or i % 97 == 0:
                ctx.sample({"plan": name, "argv": argv, "status": st, "stderr_head": err[:160].decode("latin1")})
            bad = None
            if kind == "hang":
                bad = "run does not terminate (confirmed with a long timeout: 150 s, 300 s for stdout faults)"
            elif expect == "fail-or-signal" and kind != "panic":
                # killed by SIGPIPE (Go raises it for EPIPE on fd 1 whatever the inherited disposition) or any non-zero exit
                if st == 0:
                    bad = "exit status 0 although the consumer of standard output went away before the output was written"
            elif kind == "panic":
                bad = "panic / internal error instead of an mlr: diagnostic"
            elif expect == "fail" and st == 0:
                bad = "exit status 0 although processing could not complete"
            elif expect == "fail" and b"mlr" not in err:
                bad = "non-zero exit without a diagnostic naming the problem on stderr"
            elif expect == "fail-or-csvlite" and st == 0:
                # the CSV writer may legally start a new csvlite-style block only for csvlite; for csv/tsv "unset" changes the key count => data error
                if out.count(b"\n") >= 40:
                    bad = None   # writer accepted it (fill-with / unsparsify semantics): complete output, nothing silent
                else:
                    bad = "exit status 0 with truncated output after a schema change"
            elif isinstance(expect, tuple) and (st != 0 or out.count(b"\n") != expect[1]):
                bad = "fault-free control did not produce its complete output with status 0"
            if bad:
                found = True
                ctx.violation({"class": cls, "plan": name, "what": bad, "argv": argv, "stdin_head": stdin[:200].decode("latin1"), "stdin_len": len(stdin),
                               "status": st, "sched_seed": sched, "stdout_mode": mode, "stdout_lines": out.count(b"\n"), "stderr_tail": err[-400:].decode("latin1")})
            if tr:
                t = trace_term(tr)
                if t is not None:
                    traces.append(t[0]); tmeta.append((name, st))
        nv = len(ctx.violations)
        fanout_oracle(ctx, d)
        if len(ctx.violations) > nv:
            found = True
    finally:
        shutil.rmtree(d, ignore_errors=True)
    if not ok and not found:
        ctx.violation({"broken": why}, found_input=False)
    if ok and traces:
        with ctx.timed("coq_cases"):
            bad, err = coq_eval_mismatches(ctx, "C17", "C04.Model C04.Harness", "list (list Z)", "chk", traces, shard=200)
        ctx.cov["traces_validated_against_impl"] = len(traces) - len(bad)
        ctx.cov["correspondence"] = {"traces": len(traces), "rejected": len(bad)}
        if err:
            ctx.violation({"broken": "trace-validation-evaluation", "detail": err[-1500:]}, found_input=False)
        for i in bad[:3]:
            ctx.violation({"broken": "correspondence C04.Harness.chk: a goroutine of the real binary left the model's control automaton (error protocol order)",
                           "plan": tmeta[i][0], "trace": traces[i][:1500]}, found_input=False)


def replay(ctx, path):
    obj = json.loads(Path(path).read_text())
    if "argv" not in obj:
        print("replay: nothing to run"); return
    print("replay: the fault plan needs its generated files; re-run `bin/check C17` (plans are deterministic) and look for plan", obj.get("plan"))
    ctx.count(1); ctx.count(2)
