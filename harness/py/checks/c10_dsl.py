"""C10, DSL statistics functions (pkg/bifs/stats.go) beyond numeric arrays: sum2/sum3/sum4, strings and empty strings,
maps, empty collections, non-collections, percentiles with its options map and output-map keys, sort_collection on mixed
values; and the metamorphic tie "function over a group's values == stats1 cell of that group".

Three comparisons per case: (1) Coq model C10.ModelDsl.dsl_call under vm_compute (C10.HarnessDsl.chkd), (2) a first-principles
Python oracle (exact rationals), (3) for record streams, the DSL function over @v[group] against `mlr stats1 -g`.
"""
import importlib, json
from fractions import Fraction
from vlib import *

c10 = importlib.import_module("checks.c10")
classify, numq, obs_q, close, matches, expect_acc, sort_vals = c10.classify, c10.numq, c10.obs_q, c10.close, c10.matches, c10.expect_acc, c10.sort_vals

STAT = ["count", "sum", "sum2", "sum3", "sum4", "mean", "variance", "stddev", "meaneb", "skewness", "kurtosis",
        "minlen", "maxlen", "null_count", "distinct_count", "mode", "antimode"]
MOMENTS = ["variance", "stddev", "meaneb", "skewness", "kurtosis"]
STAT_COQ = {"count": "DCount", "sum": "DSum", "sum2": "DSum2", "sum3": "DSum3", "sum4": "DSum4", "mean": "DMean", "variance": "DVariance",
            "stddev": "DStddev", "meaneb": "DMeanEB", "skewness": "DSkewness", "kurtosis": "DKurtosis", "minlen": "DMinLen", "maxlen": "DMaxLen",
            "null_count": "DNullCount", "distinct_count": "DDistinctCount", "mode": "DMode", "antimode": "DAntimode"}
ACC_OF = {"variance": "var"}
STRS = ["pan", "wye", "zee", "été", "日本", "s p", "Zed", "a", "zz top"]
OPT_KEYS = {"array_is_sorted": "ais", "ais": "ais", "interpolate_linearly": "il", "il": "il", "output_array_not_map": "oa", "oa": "oa"}

PROG = """
func sf(str f, xs, ps, o) {
  if (f == "count") {return count(xs)}
  elif (f == "sum") {return sum(xs)}
  elif (f == "sum2") {return sum2(xs)}
  elif (f == "sum3") {return sum3(xs)}
  elif (f == "sum4") {return sum4(xs)}
  elif (f == "mean") {return mean(xs)}
  elif (f == "variance") {return variance(xs)}
  elif (f == "stddev") {return stddev(xs)}
  elif (f == "meaneb") {return meaneb(xs)}
  elif (f == "skewness") {return skewness(xs)}
  elif (f == "kurtosis") {return kurtosis(xs)}
  elif (f == "minlen") {return minlen(xs)}
  elif (f == "maxlen") {return maxlen(xs)}
  elif (f == "null_count") {return null_count(xs)}
  elif (f == "distinct_count") {return distinct_count(xs)}
  elif (f == "mode") {return mode(xs)}
  elif (f == "antimode") {return antimode(xs)}
  elif (f == "sort") {return sort_collection(xs)}
  elif (f == "pctls2") {return percentiles(xs, ps)}
  elif (f == "pctls3") {return percentiles(xs, ps, o)}
  elif (f == "pctl2") {return percentile(xs, ps)}
  elif (f == "pctl3") {return percentile(xs, ps, o)}
  elif (f == "med1") {return median(xs)}
  elif (f == "med2") {return median(xs, o)}
  else {return "nosuch"}
}
r = sf($f, $xs, $ps, $o);
print typeof(r);
if (is_absent(r)) {print "-"} else {print json_stringify(r)}
"""


# ------------------------------------------------------------------ generation
def gen_elem(rng, profile):
    r = rng.random()
    if profile == "nums":
        return c10.gen_value(rng, "small") if r < 0.9 else str(rng.randint(-9, 9))
    if profile == "ints":
        v = c10.gen_value(rng, "ints")
        return v or "5"
    if profile == "mixed":          # numbers, empty strings, strings (incl. multi-byte UTF-8)
        if r < 0.5:
            return rng.choice(["1", "2", "3", "1.5", "1.50", "2.25", "-4", "10", "0", "7.5"])
        if r < 0.7:
            return ""
        return rng.choice(STRS)
    if profile == "voids":          # numbers and empty strings only
        return "" if r < 0.3 else (str(rng.randint(-6, 12)) if r < 0.7 else "%d.%s" % (rng.randint(0, 9), rng.choice(["5", "25", "75"])))
    raise KeyError(profile)


def clean_num(v):
    """profile values that are neither numbers nor void become a number ('small' has 5% words)"""
    return v if (v == "" or numq(v) is not None) else "7"


def gen_p(rng):
    r = rng.random()
    if r < 0.55:
        return (str(rng.randint(0, 100)), True)
    if r < 0.75:
        return ("%d.%s" % (rng.randint(0, 99), rng.choice(["5", "0", "25"])), True)
    if r < 0.87:
        return (rng.choice(["-10", "-0.5", "100.5", "250", "1000"]), True)
    return (rng.choice(["abc", "", "p50", "fifty"]), False)          # JSON strings: not numbers


def gen_opts(rng):
    if rng.random() < 0.2:
        return None
    keys = rng.sample(list(OPT_KEYS) + ["nosuch", "sorted"], rng.randint(0, 4))
    o = []
    for k in keys:
        r = rng.random()
        v = True if r < 0.5 else False if r < 0.92 else rng.choice([1, "true", 0])
        o.append((k, v))
    return o


def opts_flags(opts):
    """(ais, il, oa) or None when the options are rejected -- first principles reading of the documentation + switch"""
    fl = {"ais": False, "il": False, "oa": False}
    for k, v in (opts or []):
        if k in OPT_KEYS:
            if v is True or v is False:
                fl[OPT_KEYS[k]] = v
            else:
                return None
    return fl


def gen_cases(ctx, n, repaired):
    rng = ctx.rng
    cases = []
    for _ in range(n):
        profile = rng.choice(["nums", "nums", "mixed", "mixed", "voids", "ints"])
        ln = rng.choice([0, 1, 1, 2, 3, 4, 5, 8, 13])
        xs = [gen_elem(rng, profile) for _ in range(ln)]
        if profile in ("nums", "ints"):
            xs = [clean_num(x) for x in xs]
        r = rng.random()
        if r < 0.08:
            arg = rng.choice([("scalar", "3"), ("scalar", "abc"), ("scalar", ""), ("scalar", "2.5"), ("absent",)])
        elif r < 0.4:
            keys = rng.sample(["a", "b", "c", "x", "y", "k1", "k2", "3", "1", "zz", "été", "p", "q"], ln)
            arg = ("map", list(zip(keys, xs)))
        else:
            arg = ("arr", xs)
        kind = rng.choice(["stat"] * 6 + ["sort", "pctls", "pctls", "pctl", "med"])
        if kind == "stat":
            f = rng.choice(STAT + ["sum2", "sum3", "sum4"])
            has_str = any(x != "" and numq(x) is None for x in xs)
            if f in MOMENTS and has_str and not repaired and arg[0] in ("arr", "map"):
                f = rng.choice(["sum", "mean", "sum2", "mode", "maxlen"])      # the unrepaired binary stops the process: see the probe
            if profile == "ints" and f in ("sum2", "sum3", "sum4", "variance", "stddev", "meaneb", "skewness", "kurtosis", "var", "mean"):
                # the wide ints (up to 2^61) are there for the exact integer sum; their squares/cubes are not representable in binary64 and
                # pairs like -(2^60+3), 2^60+7 cancel: outside the domain in which float64 is tied to the exact model
                def small(v):
                    return v if v == "" or abs(int(v)) <= 1000 else str(int(v) % 1999 - 999)
                xs = [small(x) for x in xs]
                arg = ("arr", xs) if arg[0] == "arr" else ("map", [(k, small(v)) for k, v in arg[1]]) if arg[0] == "map" else arg
            call = ("stat", f)
        elif kind == "sort":
            call = ("sort",)
            # numerically equal elements written differently (4 and 4.0): their relative order in the result depends on the
            # sorting algorithm (sort.Slice is not stable) and is not a value: keep the first of each numeric value
            seen = set()

            def first_of_value(v):
                q = numq(v)
                if q is None:
                    return True
                dup = q in seen
                seen.add(q)
                return not dup
            if arg[0] == "arr":
                arg = ("arr", [x for x in arg[1] if first_of_value(x)])
            elif arg[0] == "map":
                arg = ("map", [(k, v) for k, v in arg[1] if first_of_value(v)])
        else:
            opts = gen_opts(rng)
            fl = opts_flags(opts)
            if fl and fl["il"] and any(x == "" for x in xs):
                xs2 = [x or "4" for x in xs]                                     # interpolation next to an empty string is not modelled
                arg = ("arr", xs2) if arg[0] == "arr" else ("map", [(k, v or "4") for k, v in arg[1]]) if arg[0] == "map" else arg
            if kind == "pctls":
                ps = [gen_p(rng) for _ in range(rng.choice([0, 1, 2, 3, 5]))]
                if rng.random() < 0.06:
                    ps = None
                call = ("pctls", ps, opts)
            elif kind == "pctl":
                call = ("pctl", gen_p(rng), opts)
            else:
                call = ("med", opts)
        cases.append({"call": call, "arg": arg, "profile": profile})
    return cases


# ------------------------------------------------------------------ rendering
def jval(t):
    return t if numq(t) is not None else json.dumps(t, ensure_ascii=False)


def jp(p):
    return p[0] if p[1] else json.dumps(p[0])


def case_line(c):
    call, arg = c["call"], c["arg"]
    parts = []
    if call[0] == "stat":
        f = call[1]
    elif call[0] == "sort":
        f = "sort"
    elif call[0] == "pctls":
        f = "pctls2" if call[2] is None else "pctls3"
        parts.append('"ps": ' + ("7" if call[1] is None else "[" + ", ".join(jp(p) for p in call[1]) + "]"))
    elif call[0] == "pctl":
        f = "pctl2" if call[2] is None else "pctl3"
        parts.append('"ps": ' + jp(call[1]))
    else:
        f = "med1" if call[1] is None else "med2"
    opts = call[-1] if call[0] in ("pctls", "pctl", "med") else None
    if opts is not None:
        parts.append('"o": {' + ", ".join("%s: %s" % (json.dumps(k), json.dumps(v)) for k, v in opts) + "}")
    if arg[0] == "arr":
        parts.append('"xs": [' + ", ".join(jval(x) for x in arg[1]) + "]")
    elif arg[0] == "map":
        parts.append('"xs": {' + ", ".join("%s: %s" % (json.dumps(k, ensure_ascii=False), jval(v)) for k, v in arg[1]) + "}")
    elif arg[0] == "scalar":
        parts.append('"xs": ' + jval(arg[1]))
    return '{"f": "%s", %s}' % (f, ", ".join(parts)) if parts else '{"f": "%s"}' % f


def describe(c):
    """the call as DSL source text, for reports"""
    call, arg = c["call"], c["arg"]
    a = {"arr": lambda: "[" + ",".join(jval(x) for x in arg[1]) + "]", "map": lambda: "{" + ",".join("%s:%s" % (json.dumps(k, ensure_ascii=False), jval(v)) for k, v in arg[1]) + "}",
         "scalar": lambda: jval(arg[1]), "absent": lambda: "@nosuch"}[arg[0]]()
    o = lambda opts: "" if opts is None else ", {" + ",".join("%s:%s" % (json.dumps(k), json.dumps(v)) for k, v in opts) + "}"
    if call[0] == "stat":
        return "%s(%s)" % (call[1], a)
    if call[0] == "sort":
        return "sort_collection(%s)" % a
    if call[0] == "pctls":
        return "percentiles(%s, %s%s)" % (a, "7" if call[1] is None else "[" + ",".join(jp(p) for p in call[1]) + "]", o(call[2]))
    if call[0] == "pctl":
        return "percentile(%s, %s%s)" % (a, jp(call[1]), o(call[2]))
    return "median(%s%s)" % (a, o(call[1]))


class Pairs(list):
    pass


def parse_out(line):
    return json.loads(line.replace("(error)", '"(error)"'), object_pairs_hook=Pairs, parse_int=NumText, parse_float=NumText)


def coq_pval(p):
    return f"(PNum {c10.coq_q(Fraction(p[0]))} {coq_bytes(p[0])})" if p[1] else f"(PBad {coq_bytes(p[0])})"


def coq_opts(opts):
    if opts is None:
        return "None"
    return "(Some " + coq_list(["(%s, %s)" % (coq_bytes(k), "Some true" if v is True else "Some false" if v is False else "None") for k, v in opts]) + ")"


def coq_case(c, obs):
    call, arg = c["call"], c["arg"]
    if call[0] == "stat":
        cc = f"(CStat {STAT_COQ[call[1]]})"
    elif call[0] == "sort":
        cc = "CSort"
    elif call[0] == "pctls":
        cc = "(CPctls %s %s)" % ("None" if call[1] is None else "(Some " + coq_list([coq_pval(p) for p in call[1]]) + ")", coq_opts(call[2]))
    elif call[0] == "pctl":
        cc = f"(CPctl {coq_pval(call[1])} {coq_opts(call[2])})"
    else:
        cc = f"(CMed {coq_opts(call[1])})"
    if arg[0] == "arr":
        ca = "(DArr " + c10.coq_names(arg[1]) + ")"
    elif arg[0] == "map":
        ca = "(DMap " + coq_list(["(%s, %s)" % (coq_bytes(k), coq_bytes(v)) for k, v in arg[1]]) + ")"
    elif arg[0] == "scalar":
        ca = f"(DScalar {coq_bytes(arg[1])})"
    else:
        ca = "DAbsent"

    def ov(v):
        t = str(v)
        q = obs_q(t) if isinstance(v, NumText) else None
        return f"({coq_bytes(t)}, {'None' if q is None else 'Some ' + c10.coq_q(q)})"
    if obs is None:
        co = "BAbsent"
    elif isinstance(obs, Pairs):
        co = "(BMap " + coq_list(["(%s, %s)" % (coq_bytes(k), ov(v)) for k, v in obs]) + ")"
    elif isinstance(obs, list):
        co = "(BArr " + coq_list([ov(v) for v in obs]) + ")"
    else:
        co = f"(BOne {ov(obs)})"
    return f"(DS {cc} {ca}, {co})"


# ------------------------------------------------------------------ first-principles oracle
ERR = ("text", "(error)")


def exp_pow_sum(k, xs):
    """sum of x^k over the elements; an empty string contributes nothing; int arithmetic while it fits in 64 bits"""
    qs = [numq(x) for x in xs if x != ""]
    total = sum((q ** k for q in qs), Fraction(0))
    if all(classify(x)[0] == "int" for x in xs if x != ""):
        part, safe, over = 0, True, False
        for q in qs:
            part += int(q) ** k
            if abs(int(q) ** k) > 2 ** 62 or abs(part) > 2 ** 62:
                safe = False
            if abs(int(q) ** k) >= 2 ** 63 or abs(part) >= 2 ** 63:
                over = True
        return ("int", int(total)) if safe else ("flt", total) if over else ("num", total)
    return ("flt", total)


def exp_stat(f, xs):
    strs = [x for x in xs if x != "" and numq(x) is None]
    if f == "count":
        return ("int", len(xs))
    if f == "null_count":
        return ("int", sum(1 for x in xs if x == ""))
    if f == "distinct_count":
        return ("int", len(set(xs)))
    if f in ("mode", "antimode"):
        if not xs:
            return ("void",)
        cnt = {}
        for x in xs:
            cnt[x] = cnt.get(x, 0) + 1
        best = max(cnt.values()) if f == "mode" else min(cnt.values())
        return ("text", next(x for x in xs if cnt[x] == best))
    if f in ("minlen", "maxlen"):
        if not xs:
            return ("void",)
        ls = [len(x) for x in xs]                      # python str length = code points
        return ("int", min(ls) if f == "minlen" else max(ls))
    if f in ("sum", "sum2", "sum3", "sum4"):
        return ERR if strs else exp_pow_sum({"sum": 1, "sum2": 2, "sum3": 3, "sum4": 4}[f], xs)
    if f == "mean":
        if not xs:
            return ("void",)
        if strs:
            return ERR
        s = exp_pow_sum(1, xs)
        m = Fraction(s[1]) / len(xs)
        return ("int", int(m)) if s[0] == "int" and m.denominator == 1 else ("flt", m) if s[0] != "num" or m.denominator != 1 else ("num", m)
    if f in MOMENTS:
        if strs:
            return ERR                                   # repaired behaviour (fix: first_non_numeric); only generated on a repaired binary
        # every element counts in n, an empty string adds nothing to any power sum: the statistics of the values with "" read as 0
        return expect_acc(ACC_OF.get(f, f), [x or "0" for x in xs], False)
    raise KeyError(f)


def exp_elem(t):
    q = numq(t)
    return ("val", t) if q is not None else ("void",) if t == "" else ("text", t)


def exp_pctl(p, sorted_xs, il):
    if not p[1]:
        return ERR
    if not sorted_xs:
        return ("void",)
    pq, N = Fraction(p[0]), len(sorted_xs)
    if not il:
        idx = (pq * N / 100).__floor__()
        return exp_elem(sorted_xs[min(max(idx, 0), N - 1)])
    f = max(Fraction(0), pq / 100 * (N - 1))
    i = f.__floor__()
    if i >= N - 1:
        return exp_elem(sorted_xs[N - 1])
    a, b = numq(sorted_xs[i]), numq(sorted_xs[i + 1])
    if a is None or b is None:
        return ERR
    return ("flt", a + (f - i) * (b - a))


def exp_sorted(xs):
    nums = sorted([x for x in xs if numq(x) is not None], key=numq)
    return nums + [x for x in xs if x == ""] + sorted([x for x in xs if x != "" and numq(x) is None], key=lambda s: s.encode())


def expected(c):
    """('one', e) | ('arr', [e]) | ('map', [(k, e)]) | ('absent',)"""
    call, arg = c["call"], c["arg"]
    if arg[0] == "absent":
        return ("absent",)
    if arg[0] == "scalar":
        return ("one", ERR)
    xs = arg[1] if arg[0] == "arr" else [v for _, v in arg[1]]
    if call[0] == "stat":
        return ("one", exp_stat(call[1], xs))
    if call[0] == "sort":
        return ("arr", [exp_elem(x) for x in exp_sorted(xs)])
    opts = call[-1]
    fl = opts_flags(opts)
    if fl is None or (fl["ais"] and arg[0] != "arr"):
        return ("one", ERR)
    ps = call[1] if call[0] == "pctls" else [call[1]] if call[0] == "pctl" else [("50", True)]
    if ps is None:
        return ("one", ERR)
    sx = xs if fl["ais"] else exp_sorted(xs)
    outs = [exp_pctl(p, sx, fl["il"]) for p in ps]
    if call[0] != "pctls":
        return ("one", outs[0])
    if fl["oa"]:
        return ("arr", outs)
    m = []
    for p, e in zip(ps, outs):
        if p[0] in [k for k, _ in m]:
            m = [(k, e if k == p[0] else v) for k, v in m]
        else:
            m.append((p[0], e))
    return ("map", m)


def match1(e, v):
    """expectation against one parsed JSON value: a NumText (number token) or a str (JSON string)"""
    isnum = isinstance(v, NumText)
    t = str(v)
    if isinstance(v, (list, Pairs)):
        return False
    if e[0] in ("int", "flt", "sqrt", "pow15"):
        return isnum and matches(e, t)
    if e[0] == "num":
        return isnum and close(e[1], obs_q(t))
    if e[0] == "val":
        return isnum and matches(e, t)
    if e[0] == "text":                         # mode of numbers returns the number with its original text
        return t == e[1] and (isnum == (numq(e[1]) is not None) or e[1] == "(error)")
    if e[0] == "void":
        return (not isnum) and t == ""
    if e[0] == "nan":
        return obs_q(t) is None and t != ""
    return matches(e, t)


def oracle_diff(exp, typ, obs):
    if exp[0] == "absent":
        return None if typ == "absent" else "expected absent"
    if typ == "absent":
        return "absent result"
    if exp[0] == "one":
        if exp[1] == ERR and typ != "error":
            return "expected an error value, type is %s" % typ
        if exp[1][0] == "int" and typ != "int":
            return "expected an int, type is %s" % typ
        return None if match1(exp[1], obs) else "value"
    if exp[0] == "arr":
        if not isinstance(obs, list) or isinstance(obs, Pairs) or len(obs) != len(exp[1]):
            return "expected an array of %d" % len(exp[1])
        bad = [i for i, (e, v) in enumerate(zip(exp[1], obs)) if not match1(e, v)]
        return None if not bad else "array element %d" % bad[0]
    if not isinstance(obs, Pairs) or [k for k, _ in obs] != [k for k, _ in exp[1]]:
        return "map keys: expected %s" % [k for k, _ in exp[1]]
    bad = [k for (k, e), (_, v) in zip(exp[1], obs) if not match1(e, v)]
    return None if not bad else "map value at key %s" % bad[0]


# ------------------------------------------------------------------ the crash probe (defect found by this check)
def probe_moment_string(ctx):
    """variance/stddev/meaneb/skewness/kurtosis on a collection holding a string: the unrepaired code stops the whole process
    ('Internal coding error detected at file stats.go'); repaired: an error value, like sum and mean"""
    st, out, err = mlr_run(ctx, ["-n", "put", 'end{print variance(["abc"]); print kurtosis([1,"x",3]); print "after"}'], b"", timeout=300)
    ctx.count(("probe", "moment-string"))
    ok = st == 0 and out.decode("utf-8", "replace").split() == ["(error)", "(error)", "after"]
    ctx.cov.setdefault("probes", {})["variance([\"abc\"])"] = "ok" if ok else "exit %s: %s" % (st, (out + err).decode("utf-8", "replace")[:120])
    if not ok:
        ctx.violation({"class": "dsl-moment-string-internal-coding-error", "how": "mlr -n put 'end{print variance([\"abc\"]); print \"after\"}'",
                       "input": 'variance(["abc"])', "observed": "exit %s: %s" % (st, (out + err).decode("utf-8", "replace")[:300]),
                       "expected": "an error value (as sum([\"abc\"]) and mean([\"abc\"]) give) or the documented empty string for a collection of length < 2; "
                                   "never a process abort: fix 2211b76fd in the c10d clone"})
    return ok


# ------------------------------------------------------------------ metamorphic: function over a group's values == stats1 cell
G_NUM = ["count", "sum", "mean", "var", "stddev", "meaneb", "skewness", "kurtosis", "minlen", "maxlen", "distinct_count", "mode", "antimode", "median", "p25", "p75", "null_count"]
G_TXT = ["count", "minlen", "maxlen", "distinct_count", "mode", "antimode", "median", "p25", "p75", "null_count"]
G_PROG = """
if (is_present($a) && is_present($x)) {
  @w["g:" . $a][NR] = $x;
  if (is_not_empty($x)) {@v["g:" . $a][NR] = $x}
}
end {
  for (k, m in @v) {
    print json_stringify({"a": k, "count": count(m), "sum": sum(m), "mean": mean(m), "var": variance(m), "stddev": stddev(m), "meaneb": meaneb(m),
      "skewness": skewness(m), "kurtosis": kurtosis(m), "minlen": minlen(m), "maxlen": maxlen(m), "distinct_count": distinct_count(m),
      "mode": mode(m), "antimode": antimode(m), "median": median(m), "p25": percentile(m, 25), "p75": percentile(m, 75),
      "null_count": null_count(@w[k])});
  }
}
"""
G_PROG_TXT = G_PROG.replace('"sum": sum(m), "mean": mean(m), "var": variance(m), "stddev": stddev(m), "meaneb": meaneb(m),', "").replace('"skewness": skewness(m), "kurtosis": kurtosis(m), ', "")


def check_groups(ctx):
    rng = ctx.rng
    nstreams = 3 if ctx.tier == "quick" else 80
    ncells = 0
    for si in range(nstreams):
        textual = si % 3 == 2
        gvals = rng.choice([["pan", "wye"], ["pan", "wye", "zee", ""], ["1", "1.0", "01", "pan"], ["pan", "wye", "zee", "sky", "elk", "fox"]])
        recs = c10.gen_records(rng, "text" if textual else "small", rng.choice([3, 8, 20, 40]), gvals)
        if not textual:
            recs = [[(k, clean_num(v) if k in c10.VKEYS else v) for k, v in r] for r in recs]
        accs = G_TXT if textual else G_NUM
        cls1, rows1, err1 = c10.run_mlr(ctx, ["stats1", "-a", ",".join(accs), "-f", "x", "-g", "a"], recs)
        inp = dkvp(recs, ifs=";", ips=":")
        st, out, err = mlr_run(ctx, ["--idkvp", "--ifs", ";", "--ips", ":", "--ojsonl", "put", "-q", G_PROG_TXT if textual else G_PROG], inp, timeout=60)
        cls2 = classify_run(st, err)
        ctx.count(("dsl-groups", tuple(map(tuple, recs))))
        ctx.dist("dsl-groups:" + ("text" if textual else "nums"))
        rep = {"broken": "DSL statistics function over a group's values differs from the stats1 cell of that group", "input": inp.decode(),
               "args_verb": ["stats1", "-a", ",".join(accs), "-f", "x", "-g", "a"], "dsl_program": (G_PROG_TXT if textual else G_PROG)}
        if cls1 != "ok" or cls2 != "ok":
            ctx.violation(dict(rep, observed="stats1: %s %s / put: %s %s" % (cls1, err1, cls2, err.decode("utf-8", "replace")[-400:]), **{"class": "dsl-groups-run"}))
            continue
        try:
            drows = [parse_out(l) for l in out.decode("utf-8").splitlines() if l.strip()]
        except Exception as ex:
            ctx.violation(dict(rep, observed="unparseable put output: %r" % ex), found_input=True)
            continue
        vrows = {dict(r).get("a"): dict(r) for r in rows1}
        for dr in drows:
            d = dict(dr)
            gname = str(d["a"])[2:]
            vr = vrows.get(gname)
            if vr is None:
                ctx.violation(dict(rep, difference="group %r is missing from the stats1 output" % gname, observed=rows1))
                break
            bad = None
            for a in accs:
                t1, t2 = vr.get("x_" + a), str(d[a])
                ncells += 1
                q1, q2 = obs_q(t1) if t1 is not None else None, obs_q(t2)
                same = t1 is not None and (t1 == t2 or (q1 is not None and q2 is not None and close(q1, q2)) or (q1 is None and q2 is None and t1 != "" and t2 != "" and t1[-3:].lower() == t2[-3:].lower() and a in ("skewness", "kurtosis")))
                if not same:
                    bad = {"group": gname, "accumulator": a, "stats1_cell": t1, "dsl_function_value": t2}
                    break
            if bad:
                ctx.violation(dict(rep, difference=bad, observed=rows1, **{"class": "dsl-vs-stats1-cell"}))
                break
    ctx.cov["dsl_vs_stats1_cells"] = ncells


# ------------------------------------------------------------------ entry point
def check_dsl_ext(ctx):
    ok, log = coq_make(["C10/ProofsDsl.vo", "C10/HarnessDsl.vo"])
    ctx.cov["dsl_ext_proofs"] = "compiled" if ok else "FAILED"
    if not ok:
        ctx.violation({"broken": "coq build of C10/ProofsDsl.vo C10/HarnessDsl.vo", "log_tail": log[-2000:]}, found_input=False)
    repaired = probe_moment_string(ctx)
    n = 300 if ctx.tier == "quick" else 6000
    cases = gen_cases(ctx, n, repaired)
    inp = ("\n".join(case_line(c) for c in cases) + "\n").encode("utf-8")
    st, out, err = mlr_run(ctx, ["--ijsonl", "--ojsonl", "put", "-q", PROG], inp, timeout=180)
    cls = classify_run(st, err)
    lines = out.decode("utf-8", "replace").splitlines()
    ctx.cov["dsl_ext"] = {"cases": len(cases), "status": cls, "moment_functions_on_strings_included": repaired}
    if cls != "ok" or len(lines) != 2 * len(cases):
        k = len(lines) // 2
        ctx.violation({"broken": "dsl-ext-run", "class": "dsl-ext-" + cls, "observed": err.decode("utf-8", "replace")[-600:], "lines": len(lines),
                       "input": describe(cases[k]) if k < len(cases) else None, "note": "the process stopped at this call"}, found_input=(cls != "ok"))
        return
    terms, meta, nbad = [], [], 0
    for i, c in enumerate(cases):
        typ, line = lines[2 * i], lines[2 * i + 1]
        ctx.count(("dsl-ext", case_line(c)))
        ctx.dist("dslx:" + (c["call"][1] if c["call"][0] == "stat" else c["call"][0]) + ":" + c["arg"][0])
        try:
            obs = None if typ == "absent" else parse_out(line)
        except Exception:
            ctx.violation({"broken": "dsl-ext unparseable output", "input": describe(c), "observed": line}, found_input=True)
            continue
        exp = expected(c)
        d = oracle_diff(exp, typ, obs)
        if d is not None and nbad < 3:
            nbad += 1
            ctx.violation({"broken": "first-principles oracle (DSL statistics function)", "input": describe(c), "how": "mlr -n put 'end{print %s}'" % describe(c),
                           "observed": line, "observed_type": typ, "expected": str(exp), "difference": d, "class": "dsl-ext-oracle"})
        terms.append(coq_case(c, obs))
        meta.append((c, typ, line))
        if i in (5, 77):
            ctx.sample({"dsl": describe(c), "observed": line})
    with ctx.timed("coq_cases_dsl"):
        bad, cerr = coq_eval_mismatches(ctx, "C10dsl", "C10.Model C10.Verbs C10.Harness C10.ModelDsl C10.HarnessDsl", "dspec * dobs", "chkd", terms)
    ctx.cov["dsl_ext"]["mismatches"] = len(bad)
    if cerr:
        ctx.violation({"broken": "correspondence-evaluation C10dsl", "detail": cerr[-2000:]}, found_input=False)
    else:
        for i in bad[:3]:
            c, typ, line = meta[i]
            d = oracle_diff(expected(c), typ, None if typ == "absent" else parse_out(line))
            ctx.violation({"broken": "correspondence C10.HarnessDsl.chkd", "input": describe(c), "how": "mlr -n put 'end{print %s}'" % describe(c), "observed": line,
                           "observed_type": typ, "oracle": d or "the first-principles oracle agrees with the implementation", "class": "dsl-ext-model"}, found_input=(d is not None))
    with ctx.timed("dsl_groups"):
        check_groups(ctx)
